"""Shared paths and small helpers for the /verif harness.

Every script in here runs under /venv/bin/python with /repo first on sys.path and
asserts that the implementation it imports really is /repo's working tree.
"""
import os
import sys
import json
import hashlib

HERE = os.path.dirname(os.path.abspath(__file__))
VERIF = os.path.dirname(HERE)
REPO = os.environ.get("VERIF_REPO", "/repo")
LEAN_DIR = os.path.join(VERIF, "lean")
if os.path.realpath(REPO) != "/repo" and not os.environ.get("VERIF_SHARED_LEAN"):
    # Testing against a scratch copy of the repository (VERIF_REPO=...): work in a private copy of
    # the Lean project so that the regenerated Gen files of a mutated tree never touch /verif/lean.
    import subprocess as _sp
    _private = "/tmp/verif-lean-" + hashlib.sha256(os.path.realpath(REPO).encode()).hexdigest()[:10]
    os.makedirs(_private, exist_ok=True)
    _sp.run(["rsync", "-a", "--delete", "--exclude", ".lake/verif.lock", "--exclude", "IsoDT/Gen/",
             LEAN_DIR + "/", _private + "/"], check=True)
    os.makedirs(os.path.join(_private, "IsoDT", "Gen"), exist_ok=True)
    for _name in os.listdir(os.path.join(LEAN_DIR, "IsoDT", "Gen")):
        _dst = os.path.join(_private, "IsoDT", "Gen", _name)
        if not os.path.exists(_dst):
            _sp.run(["cp", "-p", os.path.join(LEAN_DIR, "IsoDT", "Gen", _name), _dst], check=True)
    LEAN_DIR = _private
GEN_DIR = os.path.join(LEAN_DIR, "IsoDT", "Gen")
DRIVER = os.path.join(LEAN_DIR, ".lake", "build", "bin", "driver")
EVIDENCE_DIR = os.path.join(VERIF, "evidence")
REPLAY_DIR = os.path.join(VERIF, "replays")
if LEAN_DIR.startswith("/tmp/verif-lean-"):
    EVIDENCE_DIR = os.path.join(LEAN_DIR, "evidence")
    REPLAY_DIR = os.path.join(LEAN_DIR, "replays")
CORPUS_DIR = os.path.join(VERIF, "corpus")
KNOWN_FINDINGS = os.path.join(VERIF, "known_findings.json")
GUARD = "METOMI_ISODATETIME_VERIF"


def use_repo():
    """Put /repo first on sys.path and check the import really comes from there."""
    if REPO not in sys.path:
        sys.path.insert(0, REPO)
    os.environ[GUARD] = "1"
    import metomi.isodatetime as pkg  # noqa
    path = os.path.realpath(pkg.__file__)
    if not path.startswith(os.path.realpath(REPO) + os.sep):
        raise SystemExit(
            "harness: metomi.isodatetime imported from %s, not from %s" % (path, REPO))
    return pkg


def write_if_changed(path, text):
    """Write text to path unless it already holds exactly that (keeps lake incremental)."""
    try:
        with open(path) as handle:
            if handle.read() == text:
                return False
    except OSError:
        pass
    os.makedirs(os.path.dirname(path), exist_ok=True)
    tmp = path + ".tmp%d" % os.getpid()
    with open(tmp, "w") as handle:
        handle.write(text)
    os.replace(tmp, path)
    return True


def sha(text):
    return hashlib.sha256(text.encode()).hexdigest()[:16]


def dump_json(path, obj):
    os.makedirs(os.path.dirname(path), exist_ok=True)
    tmp = path + ".tmp%d" % os.getpid()
    with open(tmp, "w") as handle:
        json.dump(obj, handle, indent=1, sort_keys=True, default=str)
        handle.write("\n")
    os.replace(tmp, path)


_FOREIGN = []


def foreign_configurations():
    """Build, before anything else in this process, parsers and dumpers in configurations the check itself does
    not use (basic-only, truncated, three expanded digits, an assumed zone) and use each once: class- or
    module-level state that one configuration leaves behind for another then shows up in the check's own cases.
    The objects are kept alive for the whole run."""
    if _FOREIGN:
        return
    from metomi.isodatetime.parsers import TimePointParser, DurationParser, TimeRecurrenceParser
    from metomi.isodatetime.dumpers import TimePointDumper
    p1 = TimePointParser(allow_only_basic=True)
    p2 = TimePointParser(num_expanded_year_digits=3, allow_truncated=True, assumed_time_zone=(5, 30))
    p3 = TimePointParser(allow_only_basic=True, num_expanded_year_digits=0, default_to_unknown_time_zone=True)
    d3 = TimePointDumper(num_expanded_year_digits=3)
    _FOREIGN.extend([p1, p2, p3, d3, DurationParser(), TimeRecurrenceParser(p2)])
    for parser, text in ((p1, "20000229T1200Z"), (p2, "+0002000-02-29T12:00"), (p3, "2000060T00")):
        try:
            d3.dump(parser.parse(text), "+XCCYY-DDDThh:mm:ss+hh:mm")
        except ValueError:
            pass
    str(p2.parse("-W-3"))
