#!/venv/bin/python
"""gen_cache — regenerate lean/IsoDT/Gen/Cache.lean: the memoised-helper key table of C15.

Walks the AST of <repo>/metomi/isodatetime/data.py (and dumpers.py for the memoised
TimePointDumper methods) and writes down, as Lean literals,

  * which attributes `Calendar.set_mode` computes from its argument (mode-dependent) and which
    attributes are constants of the class or computed from constants only (mode-independent):
    a taint analysis of the straight-line body of `set_mode`;
  * for every function decorated with `lru_cache`/`cache`, and every module-level function
    reachable from one: its parameters, the position of the key parameter `_`, the `CALENDAR.*`
    attributes its body reads and the module-level functions its body calls;
  * every call site (whole package) of a memoised function that has a key parameter, and whether
    the argument in the key position is literally the current mode (`CALENDAR.mode`);
  * per memoised helper, its public wrapper and whether that wrapper passes `CALENDAR.mode`.

Whatever it cannot express raises translate.TranslateError (tie broken, never skipped): a helper
that touches the calendar object other than by reading `CALENDAR.<ATTR>`, calls something that is
neither a module-level function nor a known pure builtin, escapes as a value, a `set_mode` that
assigns an attribute conditionally, any other writer of the calendar singleton, ...

`analyse()` returns the same information as a Python dict (the harness uses it for the dynamic
validation of the table).  Usage: gen_cache.py [--write] prints / writes Gen/Cache.lean.
"""
import ast
import os
import sys

sys.path.insert(0, os.path.dirname(os.path.abspath(__file__)))
import common  # noqa: E402

# translate.py is imported lazily: it may itself import this module to register the generator,
# in either order.


def _translate():
    import translate
    return translate


def TranslateError(msg):
    """An instance of translate.TranslateError (raise TranslateError("...") works as usual)."""
    return _translate().TranslateError(msg)


def lean_str(s):
    return _translate().lean_str(s)


def lean_bool(b):
    return _translate().lean_bool(b)


def lean_list(items):
    return _translate().lean_list(items)

PKG = os.path.join("metomi", "isodatetime")
CAL_NAME = "CALENDAR"
CAL_CLASS = "Calendar"
KEY_PARAM = "_"
MEMO_DECORATORS = {"lru_cache", "cache"}

# Builtins whose call neither reads nor writes any state outside their arguments.
PURE_BUILTINS = {
    "range", "reversed", "len", "sum", "max", "min", "enumerate", "int", "float", "str", "abs",
    "divmod", "isinstance", "tuple", "list", "dict", "set", "frozenset", "sorted", "zip",
    "bool", "round", "any", "all", "repr", "iter", "next", "map", "filter",
    "ValueError", "TypeError", "KeyError", "IndexError", "OverflowError", "ArithmeticError",
    "AssertionError", "NotImplementedError", "StopIteration",
}
# Methods of str / list / tuple / dict / set / re objects: no state outside receiver + arguments.
PURE_METHODS = {
    "append", "extend", "insert", "pop", "remove", "reverse", "sort", "index", "count", "copy",
    "items", "keys", "values", "get", "setdefault", "update", "add", "discard",
    "format", "lower", "upper", "split", "rsplit", "join", "strip", "lstrip", "rstrip",
    "startswith", "endswith", "replace", "zfill", "isdigit", "find", "splitlines",
    "match", "search", "sub", "groupdict", "group", "groups", "fullmatch", "finditer",
}
# Attribute accesses on a memoised function object that do not make it escape as a value.
CACHE_API = {"cache_clear", "cache_info", "cache_parameters", "__wrapped__", "__name__", "__doc__"}


def _src(repo, name):
    path = os.path.join(repo, PKG, name)
    try:
        with open(path) as handle:
            text = handle.read()
    except OSError as exc:
        raise TranslateError("cannot read %s: %s" % (path, exc))
    try:
        return ast.parse(text, filename=path)
    except SyntaxError as exc:
        raise TranslateError("cannot parse %s: %s" % (path, exc))


def _package_files(repo):
    root = os.path.join(repo, PKG)
    try:
        names = sorted(n for n in os.listdir(root) if n.endswith(".py"))
    except OSError as exc:
        raise TranslateError("cannot list %s: %s" % (root, exc))
    return names


def _where(name, node):
    return "%s:%d" % (name, getattr(node, "lineno", 0))


def _decorator_name(dec):
    node = dec.func if isinstance(dec, ast.Call) else dec
    if isinstance(node, ast.Name):
        return node.id
    if isinstance(node, ast.Attribute):
        return node.attr
    return None


def is_memoised(fdef):
    return any(_decorator_name(d) in MEMO_DECORATORS for d in fdef.decorator_list)


def _is_cal_object(node):
    """`CALENDAR`, `data.CALENDAR`, `Calendar.default()`, `data.Calendar.default()`."""
    if isinstance(node, ast.Name) and node.id == CAL_NAME:
        return True
    if isinstance(node, ast.Attribute) and node.attr == CAL_NAME:
        return True
    if (isinstance(node, ast.Call) and isinstance(node.func, ast.Attribute)
            and node.func.attr == "default" and not node.args and not node.keywords):
        base = node.func.value
        if isinstance(base, ast.Name) and base.id == CAL_CLASS:
            return True
        if isinstance(base, ast.Attribute) and base.attr == CAL_CLASS:
            return True
    return False


def is_current_mode_expr(node):
    return isinstance(node, ast.Attribute) and node.attr == "mode" and _is_cal_object(node.value)


# ---------------------------------------------------------------------------------------------
# Calendar.set_mode: which attributes depend on the mode

def analyse_calendar_class(tree):
    cls = [n for n in tree.body if isinstance(n, ast.ClassDef) and n.name == CAL_CLASS]
    if len(cls) != 1:
        raise TranslateError("expected exactly one class %s in data.py" % CAL_CLASS)
    cls = cls[0]
    constants = []
    methods = {}
    for node in cls.body:
        if isinstance(node, ast.Assign):
            for tgt in node.targets:
                if not isinstance(tgt, ast.Name):
                    raise TranslateError("class-level assignment to a non-name in Calendar (%s)"
                                         % _where("data.py", node))
                constants.append(tgt.id)
        elif isinstance(node, ast.AnnAssign) and isinstance(node.target, ast.Name):
            constants.append(node.target.id)
        elif isinstance(node, ast.FunctionDef):
            methods[node.name] = node
        elif isinstance(node, ast.Expr) and isinstance(node.value, ast.Constant):
            continue
        else:
            raise TranslateError("unexpected statement in class Calendar (%s)"
                                 % _where("data.py", node))
    if "set_mode" not in methods:
        raise TranslateError("class Calendar has no set_mode")
    # only set_mode may assign instance attributes; only default() may assign _DEFAULT
    for name, meth in methods.items():
        for node in ast.walk(meth):
            targets = []
            if isinstance(node, ast.Assign):
                targets = node.targets
            elif isinstance(node, (ast.AugAssign, ast.AnnAssign)):
                targets = [node.target]
            elif isinstance(node, ast.Delete):
                targets = node.targets
            for tgt in targets:
                for sub in ast.walk(tgt):
                    if isinstance(sub, ast.Attribute) and isinstance(sub.ctx, (ast.Store, ast.Del)):
                        if name == "set_mode":
                            continue
                        if name == "default" and sub.attr == "_DEFAULT":
                            continue
                        raise TranslateError(
                            "Calendar.%s writes attribute %s: only set_mode may write the "
                            "calendar (%s)" % (name, sub.attr, _where("data.py", node)))
            if isinstance(node, ast.Call) and isinstance(node.func, ast.Name) and node.func.id in (
                    "setattr", "delattr", "vars", "globals", "locals", "exec", "eval"):
                raise TranslateError("Calendar.%s uses %s (%s)" % (
                    name, node.func.id, _where("data.py", node)))
            if isinstance(node, ast.Attribute) and node.attr == "__dict__":
                raise TranslateError("Calendar.%s touches __dict__ (%s)" % (
                    name, _where("data.py", node)))
    init = methods.get("__init__")
    if init is not None:
        body = [s for s in init.body
                if not (isinstance(s, ast.Expr) and isinstance(s.value, ast.Constant))]
        ok = (len(body) == 1 and isinstance(body[0], ast.Expr)
              and isinstance(body[0].value, ast.Call)
              and isinstance(body[0].value.func, ast.Attribute)
              and body[0].value.func.attr == "set_mode"
              and not body[0].value.args and not body[0].value.keywords)
        if not ok:
            raise TranslateError("Calendar.__init__ is not just `self.set_mode()`")

    sm = methods["set_mode"]
    if sm.decorator_list:
        raise TranslateError("set_mode is decorated")
    params = [a.arg for a in sm.args.posonlyargs + sm.args.args]
    if len(params) != 2 or sm.args.vararg or sm.args.kwarg or sm.args.kwonlyargs:
        raise TranslateError("set_mode parameters are %r, expected (self, mode)" % (params,))
    self_name, mode_name = params
    tainted_locals = {mode_name}
    local_names = {mode_name}
    assigned = []          # in order
    taint = {}             # attr -> bool

    def value_tainted(expr, where):
        res = False
        for sub in ast.walk(expr):
            if isinstance(sub, ast.Name) and isinstance(sub.ctx, ast.Load):
                if sub.id in tainted_locals:
                    res = True
            elif (isinstance(sub, ast.Attribute) and isinstance(sub.value, ast.Name)
                  and sub.value.id == self_name):
                attr = sub.attr
                if attr in taint:
                    res = res or taint[attr]
                elif attr in constants:
                    pass
                else:
                    raise TranslateError(
                        "set_mode reads self.%s before assigning it and the class does not "
                        "define it (%s)" % (attr, where))
            elif isinstance(sub, ast.Call):
                fn = sub.func
                if isinstance(fn, ast.Name):
                    if fn.id not in PURE_BUILTINS:
                        raise TranslateError("set_mode calls %s (%s)" % (fn.id, where))
                elif isinstance(fn, ast.Attribute):
                    if fn.attr not in PURE_METHODS:
                        raise TranslateError("set_mode calls .%s() (%s)" % (fn.attr, where))
                else:
                    raise TranslateError("set_mode makes a computed call (%s)" % where)
            elif isinstance(sub, (ast.Lambda, ast.Yield, ast.YieldFrom, ast.Await,
                                  ast.NamedExpr)):
                raise TranslateError("set_mode uses %s (%s)" % (type(sub).__name__, where))
        return res

    def assign_locals(tgt, is_tainted, where):
        if isinstance(tgt, ast.Name):
            local_names.add(tgt.id)
            if is_tainted:
                tainted_locals.add(tgt.id)
        elif isinstance(tgt, (ast.Tuple, ast.List)):
            for elt in tgt.elts:
                assign_locals(elt, is_tainted, where)
        else:
            raise TranslateError("set_mode assigns to %s (%s)" % (type(tgt).__name__, where))

    def do_stmt(stmt, under_if, cond_tainted):
        where = _where("data.py", stmt)
        if isinstance(stmt, ast.Expr) and isinstance(stmt.value, ast.Constant):
            return
        if isinstance(stmt, ast.Assign):
            is_t = value_tainted(stmt.value, where) or cond_tainted
            for tgt in stmt.targets:
                if (isinstance(tgt, ast.Attribute) and isinstance(tgt.value, ast.Name)
                        and tgt.value.id == self_name):
                    if under_if:
                        raise TranslateError(
                            "set_mode assigns self.%s conditionally: a derived constant may "
                            "not be recomputed on every switch (%s)" % (tgt.attr, where))
                    if tgt.attr in taint:
                        raise TranslateError("set_mode assigns self.%s twice (%s)"
                                             % (tgt.attr, where))
                    assigned.append(tgt.attr)
                    taint[tgt.attr] = is_t
                else:
                    assign_locals(tgt, is_t, where)
            return
        if isinstance(stmt, ast.If):
            c_t = value_tainted(stmt.test, where) or cond_tainted
            for sub in stmt.body + stmt.orelse:
                do_stmt(sub, True, c_t)
            return
        raise TranslateError("set_mode contains a %s statement (%s): only straight-line "
                             "assignments are understood" % (type(stmt).__name__, where))

    for stmt in sm.body:
        do_stmt(stmt, False, False)
    if "mode" not in taint or not taint["mode"]:
        raise TranslateError("set_mode does not store its argument in self.mode")
    dep = [a for a in assigned if taint[a]]
    indep = [a for a in assigned if not taint[a]] + [c for c in constants if c not in taint]
    return {"dep": dep, "indep": indep, "constants": constants, "assigned": assigned}


def check_no_other_writer(repo, files):
    """Nobody outside class Calendar writes to the calendar singleton or calls set_mode, except
    DateTimeOperator.set_calendar_mode (the CLI / API entry point) — and nothing in data.py."""
    for name in files:
        tree = _src(repo, name)
        for node in ast.walk(tree):
            targets = []
            if isinstance(node, ast.Assign):
                targets = node.targets
            elif isinstance(node, (ast.AugAssign, ast.AnnAssign)):
                targets = [node.target]
            elif isinstance(node, ast.Delete):
                targets = node.targets
            for tgt in targets:
                for sub in ast.walk(tgt):
                    if isinstance(sub, ast.Attribute) and _is_cal_object(sub.value):
                        raise TranslateError("%s writes CALENDAR.%s directly"
                                             % (_where(name, node), sub.attr))
            if (isinstance(node, ast.Call) and isinstance(node.func, ast.Name)
                    and node.func.id in ("setattr", "delattr") and node.args
                    and _is_cal_object(node.args[0])):
                raise TranslateError("%s uses %s on the calendar" % (_where(name, node),
                                                                      node.func.id))


# ---------------------------------------------------------------------------------------------
# function bodies

class BodyInfo:
    def __init__(self):
        self.reads = []     # CALENDAR attributes, in order of first occurrence
        self.calls = []     # module-level function names
        self.sets_mode = False


def _locals_of(fdef):
    names = set()
    a = fdef.args
    for arg in a.posonlyargs + a.args + a.kwonlyargs:
        names.add(arg.arg)
    if a.vararg:
        names.add(a.vararg.arg)
    if a.kwarg:
        names.add(a.kwarg.arg)
    for node in ast.walk(fdef):
        if isinstance(node, ast.Name) and isinstance(node.ctx, (ast.Store, ast.Del)):
            names.add(node.id)
        elif isinstance(node, ast.ExceptHandler) and node.name:
            names.add(node.name)
    return names


def analyse_body(fdef, funcs, classes, fname="data.py"):
    """Reads of CALENDAR.* and calls to module-level functions in the body of fdef (a
    module-level function of data.py). Raises TranslateError on anything else that could carry
    state into or out of the function."""
    info = BodyInfo()
    local_names = _locals_of(fdef)
    parents = {}
    for node in ast.walk(fdef):
        for child in ast.iter_child_nodes(node):
            parents[child] = node
    skip = set()
    for dec in fdef.decorator_list:
        for sub in ast.walk(dec):
            skip.add(sub)
    for arg_default in fdef.args.defaults + [d for d in fdef.args.kw_defaults if d is not None]:
        if not isinstance(arg_default, ast.Constant):
            raise TranslateError("%s has a non-constant default (%s)" % (
                fdef.name, _where(fname, fdef)))
    for node in ast.walk(fdef):
        if node in skip or node is fdef:
            continue
        where = _where(fname, node)
        if isinstance(node, (ast.FunctionDef, ast.AsyncFunctionDef, ast.Lambda, ast.ClassDef,
                             ast.Global, ast.Nonlocal, ast.Yield, ast.YieldFrom, ast.Await,
                             ast.Import, ast.ImportFrom, ast.With, ast.AsyncWith)):
            raise TranslateError("%s uses %s (%s): not expressible in the cache model" % (
                fdef.name, type(node).__name__, where))
        if isinstance(node, ast.Attribute) and _is_cal_object(node.value):
            if not isinstance(node.ctx, ast.Load):
                raise TranslateError("%s writes CALENDAR.%s (%s)" % (fdef.name, node.attr, where))
            par = parents.get(node)
            if isinstance(par, ast.Call) and par.func is node:
                raise TranslateError("%s calls CALENDAR.%s() (%s)" % (fdef.name, node.attr, where))
            if node.attr not in info.reads:
                info.reads.append(node.attr)
            continue
        if isinstance(node, ast.Name) and isinstance(node.ctx, ast.Load):
            par = parents.get(node)
            nid = node.id
            if nid in local_names:
                if isinstance(par, ast.Call) and par.func is node:
                    raise TranslateError("%s calls its local %s (%s)" % (fdef.name, nid, where))
                continue
            if nid == CAL_NAME:
                if isinstance(par, ast.Attribute) and par.value is node:
                    continue     # handled at the Attribute
                raise TranslateError("%s uses the calendar object as a value (%s)"
                                     % (fdef.name, where))
            if nid == CAL_CLASS:
                # only as Calendar.default().X
                ok = (isinstance(par, ast.Attribute) and par.attr == "default"
                      and isinstance(parents.get(par), ast.Call)
                      and isinstance(parents.get(parents.get(par)), ast.Attribute))
                if not ok:
                    raise TranslateError("%s uses class Calendar other than as "
                                         "Calendar.default().ATTR (%s)" % (fdef.name, where))
                continue
            if nid in funcs:
                if isinstance(par, ast.Call) and par.func is node:
                    if nid not in info.calls:
                        info.calls.append(nid)
                    continue
                if (isinstance(par, ast.Attribute) and par.value is node
                        and par.attr in CACHE_API):
                    continue
                raise TranslateError("%s uses function %s as a value (%s)"
                                     % (fdef.name, nid, where))
            if nid in classes:
                raise TranslateError("%s uses class %s (%s): objects of data.py are outside "
                                     "the cache model" % (fdef.name, nid, where))
            if nid in PURE_BUILTINS or nid in ("None", "True", "False"):
                continue
            raise TranslateError("%s reads the global name %s (%s)" % (fdef.name, nid, where))
        if isinstance(node, ast.Call):
            fn = node.func
            if isinstance(fn, ast.Name):
                continue     # judged at the Name
            if isinstance(fn, ast.Attribute):
                if fn.attr == "set_mode":
                    info.sets_mode = True
                    raise TranslateError("%s calls set_mode (%s)" % (fdef.name, where))
                if fn.attr in PURE_METHODS:
                    continue
                raise TranslateError("%s calls the method .%s() (%s): not a known pure "
                                     "container/str method" % (fdef.name, fn.attr, where))
            raise TranslateError("%s makes a computed call (%s)" % (fdef.name, where))
    return info


def params_of(fdef, where):
    a = fdef.args
    if a.vararg or a.kwarg:
        raise TranslateError("%s takes *args/**kwargs (%s)" % (fdef.name, where))
    names = [x.arg for x in a.posonlyargs + a.args]
    if KEY_PARAM in [x.arg for x in a.kwonlyargs]:
        raise TranslateError("%s: key parameter `_` is keyword-only (%s)" % (fdef.name, where))
    names_all = names + [x.arg for x in a.kwonlyargs]
    if names_all.count(KEY_PARAM) > 1:
        raise TranslateError("%s has two `_` parameters" % fdef.name)
    return names_all, (names.index(KEY_PARAM) if KEY_PARAM in names else None)


def passes_mode(call, key_idx):
    if any(isinstance(a, ast.Starred) for a in call.args):
        return False
    if any(k.arg is None for k in call.keywords):
        return False
    arg = None
    if key_idx < len(call.args):
        arg = call.args[key_idx]
    else:
        for kw in call.keywords:
            if kw.arg == KEY_PARAM:
                arg = kw.value
    return arg is not None and is_current_mode_expr(arg)


def collect_sites(repo, files, memo_names, key_idx, funcs_of_data):
    """Every reference, anywhere in the package, to a memoised module-level function of data.py.
    Returns [(callee, file:line, enclosing function, passes_mode)] for the keyed ones."""
    sites = []
    for name in files:
        tree = _src(repo, name)
        parents = {}
        for node in ast.walk(tree):
            for child in ast.iter_child_nodes(node):
                parents[child] = node

        def enclosing(node):
            cur = parents.get(node)
            parts = []
            while cur is not None:
                if isinstance(cur, (ast.FunctionDef, ast.ClassDef)):
                    parts.append(cur.name)
                cur = parents.get(cur)
            return ".".join(reversed(parts)) or "<module>"

        for node in ast.walk(tree):
            ref = None
            if isinstance(node, ast.Name) and node.id in memo_names:
                if not isinstance(node.ctx, ast.Load):
                    raise TranslateError("%s rebinds the memoised helper %s"
                                         % (_where(name, node), node.id))
                if name != "data.py":
                    continue_ok = False
                    # a bare name in another module is the helper only if imported from data
                    for imp in ast.walk(tree):
                        if isinstance(imp, ast.ImportFrom) and (imp.module or "").endswith("data"):
                            if any((al.asname or al.name) == node.id for al in imp.names):
                                continue_ok = True
                    if not continue_ok:
                        continue
                ref = node.id
            elif isinstance(node, ast.Attribute) and node.attr in memo_names:
                # data.<helper> in another module
                base = node.value
                if isinstance(base, ast.Name) and base.id == "data" or (
                        isinstance(base, ast.Attribute) and base.attr == "data"):
                    ref = node.attr
            elif isinstance(node, ast.ImportFrom) and (node.module or "").endswith("data"):
                for al in node.names:
                    if al.name in memo_names and al.asname and al.asname != al.name:
                        raise TranslateError("%s imports the memoised helper %s under another "
                                             "name" % (_where(name, node), al.name))
                    if al.name == "*":
                        raise TranslateError("%s star-imports data" % _where(name, node))
            if ref is None:
                continue
            par = parents.get(node)
            if isinstance(par, ast.Call) and par.func is node:
                if key_idx.get(ref) is not None:
                    sites.append((ref, _where(name, node), enclosing(node),
                                  passes_mode(par, key_idx[ref])))
                continue
            if isinstance(par, ast.Attribute) and par.value is node and par.attr in CACHE_API:
                continue
            # the `def` itself is a FunctionDef, not a Name; any other occurrence is an escape
            raise TranslateError("%s: the memoised helper %s escapes as a value"
                                 % (_where(name, node), ref))
    return sites


# ---------------------------------------------------------------------------------------------
# memoised methods (dumpers.py)

def analyse_dumper_methods(repo, files):
    """Memoised methods outside data.py. Their closure (by *name*, over every def of the package
    outside data.py: an over-approximation of the call graph) must not mention the calendar,
    the data module or anything imported from it."""
    trees = {n: _src(repo, n) for n in files if n != "data.py"}
    defs = {}      # name -> [(file, qualname, node)]
    class_inits = {}
    for fname, tree in trees.items():
        for node in tree.body:
            if isinstance(node, ast.FunctionDef):
                defs.setdefault(node.name, []).append((fname, node.name, node))
            elif isinstance(node, ast.ClassDef):
                for sub in node.body:
                    if isinstance(sub, ast.FunctionDef):
                        defs.setdefault(sub.name, []).append(
                            (fname, node.name + "." + sub.name, sub))
                        if sub.name == "__init__":
                            class_inits[node.name] = (fname, node.name + ".__init__", sub)
    # names bound to the data module or its contents, per file
    data_names = {}
    for fname, tree in trees.items():
        bound = set()
        for node in ast.walk(tree):
            if isinstance(node, ast.ImportFrom):
                mod = node.module or ""
                for al in node.names:
                    if mod.endswith("data") or (al.name == "data"):
                        bound.add(al.asname or al.name)
            elif isinstance(node, ast.Import):
                for al in node.names:
                    if al.name.endswith(".data"):
                        bound.add((al.asname or al.name).split(".")[0])
        data_names[fname] = bound
    memo = []
    for fname, tree in trees.items():
        for node in tree.body:
            if isinstance(node, ast.FunctionDef) and is_memoised(node):
                memo.append((fname, node.name, None, node))
            elif isinstance(node, ast.ClassDef):
                for sub in node.body:
                    if isinstance(sub, ast.FunctionDef) and is_memoised(sub):
                        memo.append((fname, node.name + "." + sub.name, node.name, sub))
    rows = []
    memo_short = {q.split(".")[-1]: q for _, q, _, _ in memo}
    for fname, qual, cls, node in memo:
        seen = set()
        todo = [(fname, qual, node)]
        reads = []
        calls = []
        touched = []
        while todo:
            fn_file, fn_qual, fn_node = todo.pop()
            if (fn_file, fn_qual) in seen:
                continue
            seen.add((fn_file, fn_qual))
            local_data = set(data_names[fn_file])
            for sub in ast.walk(fn_node):
                if isinstance(sub, ast.ImportFrom) and ((sub.module or "").endswith("data")
                                                        or any(al.name == "data"
                                                               for al in sub.names)):
                    touched.append("%s imports from data (%s)" % (fn_qual, _where(fn_file, sub)))
                if isinstance(sub, ast.Name) and (sub.id in (CAL_NAME, CAL_CLASS)
                                                  or sub.id in local_data):
                    touched.append("%s mentions %s (%s)" % (fn_qual, sub.id,
                                                            _where(fn_file, sub)))
                if isinstance(sub, ast.Attribute) and _is_cal_object(sub.value):
                    if sub.attr not in reads:
                        reads.append(sub.attr)
                if isinstance(sub, ast.Call):
                    fn = sub.func
                    called = None
                    if isinstance(fn, ast.Name):
                        called = fn.id
                    elif isinstance(fn, ast.Attribute):
                        called = fn.attr
                    if called is None:
                        continue
                    if (called in memo_short and memo_short[called] != qual
                            and memo_short[called] not in calls):
                        calls.append(memo_short[called])
                    if called in class_inits:
                        todo.append(class_inits[called])
                    for cand in defs.get(called, []):
                        if cand[2] is fn_node:
                            continue
                        if is_memoised(cand[2]) and cand[2] is not node:
                            continue     # its own row accounts for it
                        todo.append(cand)
        if touched:
            # conservatively: whatever reaches data.py may read the mode
            if "mode" not in reads:
                reads.append("mode")
        params, key = params_of(node, _where(fname, node))
        rows.append({"name": qual, "file": fname, "line": node.lineno, "params": params,
                     "key_idx": key, "reads": reads, "calls": calls, "memo": True,
                     "closure_size": len(seen), "touched": touched})
    return rows


# ---------------------------------------------------------------------------------------------

def analyse(repo=None):
    repo = repo or common.REPO
    files = _package_files(repo)
    if "data.py" not in files:
        raise TranslateError("no data.py under %s" % os.path.join(repo, PKG))
    tree = _src(repo, "data.py")
    cal = analyse_calendar_class(tree)
    check_no_other_writer(repo, files)

    funcs = {}
    classes = set()
    for node in tree.body:
        if isinstance(node, ast.FunctionDef):
            if node.name in funcs:
                raise TranslateError("data.py defines %s twice" % node.name)
            funcs[node.name] = node
        elif isinstance(node, ast.AsyncFunctionDef):
            raise TranslateError("async function in data.py")
        elif isinstance(node, ast.ClassDef):
            classes.add(node.name)
            for sub in ast.walk(node):
                if isinstance(sub, ast.FunctionDef) and is_memoised(sub):
                    raise TranslateError(
                        "memoised method %s.%s in data.py (%s): methods of data.py objects "
                        "are outside the cache model" % (node.name, sub.name,
                                                         _where("data.py", sub)))
    # a module-level name bound to a function twice / rebound elsewhere
    for node in tree.body:
        if isinstance(node, (ast.Assign, ast.AugAssign, ast.AnnAssign)):
            targets = node.targets if isinstance(node, ast.Assign) else [node.target]
            for tgt in targets:
                for sub in ast.walk(tgt):
                    if isinstance(sub, ast.Name) and sub.id in funcs:
                        raise TranslateError("data.py rebinds the function %s (%s)"
                                             % (sub.id, _where("data.py", node)))
                    if isinstance(sub, ast.Name) and sub.id == CAL_NAME:
                        ok = (isinstance(node, ast.Assign) and _is_cal_object(node.value))
                        if not ok:
                            raise TranslateError("CALENDAR is not Calendar.default() (%s)"
                                                 % _where("data.py", node))

    memo = [n for n, f in funcs.items() if is_memoised(f)]
    for name in memo:
        others = [d for d in funcs[name].decorator_list
                  if _decorator_name(d) not in MEMO_DECORATORS]
        if others:
            raise TranslateError("%s has a decorator besides lru_cache" % name)
    # closure of the memoised helpers over the call graph
    order = []
    infos = {}
    todo = list(memo)
    while todo:
        name = todo.pop(0)
        if name in infos:
            continue
        fdef = funcs[name]
        if not is_memoised(fdef) and fdef.decorator_list:
            raise TranslateError("%s (reached from a memoised helper) is decorated" % name)
        infos[name] = analyse_body(fdef, funcs, classes)
        order.append(name)
        for callee in infos[name].calls:
            if callee not in infos:
                todo.append(callee)
    # public wrappers of memoised helpers are part of the table even when nothing memoised
    # reaches them (they are where the key is chosen)
    for name in list(memo):
        pub = name.lstrip("_")
        if pub != name and pub in funcs and pub not in infos:
            infos[pub] = analyse_body(funcs[pub], funcs, classes)
            order.append(pub)
            for callee in infos[pub].calls:
                if callee not in infos:
                    raise TranslateError("wrapper %s calls %s outside the closure" % (pub, callee))
    order.sort(key=lambda n: funcs[n].lineno)

    known_attrs = set(cal["dep"]) | set(cal["indep"])
    rows = []
    key_idx = {}
    for name in order:
        fdef = funcs[name]
        params, key = params_of(fdef, _where("data.py", fdef))
        if key is not None and not is_memoised(fdef):
            key = None     # `_` on an un-memoised function is just an unused parameter
        key_idx[name] = key
        for attr in infos[name].reads:
            if attr not in known_attrs:
                raise TranslateError(
                    "%s reads CALENDAR.%s, which neither set_mode assigns nor class Calendar "
                    "defines" % (name, attr))
        rows.append({"name": name, "file": "data.py", "line": fdef.lineno, "params": params,
                     "key_idx": key, "reads": list(infos[name].reads),
                     "calls": list(infos[name].calls), "memo": is_memoised(fdef)})
    sites = collect_sites(repo, files, set(memo), key_idx, funcs)
    drows = analyse_dumper_methods(repo, files)
    for row in drows:
        for attr in row["reads"]:
            if attr not in known_attrs:
                raise TranslateError("%s reads CALENDAR.%s (unknown attribute)" % (row["name"],
                                                                                    attr))
        if row["key_idx"] is not None:
            raise TranslateError("%s has a `_` parameter: keyed methods are not modelled"
                                 % row["name"])
    rows += drows
    wrappers = []
    for name in memo:
        pub = name.lstrip("_")
        own = [s for s in sites if s[0] == name]
        if pub != name and pub in funcs and name in infos.get(pub, BodyInfo()).calls:
            flag = bool([s for s in own if s[2] == pub]) and all(
                s[3] for s in own if s[2] == pub) if key_idx[name] is not None else False
            wrappers.append((name, pub, flag))
        else:
            wrappers.append((name, None, False))
    return {"calendar": cal, "rows": rows, "sites": sites, "wrappers": wrappers,
            "attrs": list(cal["dep"]) + list(cal["indep"]), "memo": memo,
            "repo": repo}


def mode_dependent(an):
    """The closure the Lean side recomputes: names of table functions whose result may depend
    on a mode-dependent attribute."""
    dep_attrs = set(an["calendar"]["dep"])
    dep = set(r["name"] for r in an["rows"] if set(r["reads"]) & dep_attrs)
    changed = True
    while changed:
        changed = False
        for r in an["rows"]:
            if r["name"] not in dep and set(r["calls"]) & dep:
                dep.add(r["name"])
                changed = True
    return dep


def render(an):
    attrs = an["attrs"]
    aidx = {a: i for i, a in enumerate(attrs)}
    names = [r["name"] for r in an["rows"]]
    fidx = {n: i for i, n in enumerate(names)}
    out = [_translate().HEADER.replace("harness/translate.py", "harness/gen_cache.py"),
           "import IsoDT.Basic", "", "namespace IsoDT.Gen.Cache", ""]
    out.append("/-- One function of the table. Functions and `CALENDAR` attributes are referred to by")
    out.append("    their position in `fnNames` / `attrNames`. -/")
    out.append("structure FnRec where")
    out.append("  /-- decorated with `lru_cache` -/")
    out.append("  memo : Bool")
    out.append("  /-- position of the parameter `_` (the mode key), if any -/")
    out.append("  keyIdx : Option Nat")
    out.append("  /-- `CALENDAR.<attr>` reads in the body -/")
    out.append("  reads : List Nat")
    out.append("  /-- table functions called in the body -/")
    out.append("  calls : List Nat")
    out.append("  deriving Repr, DecidableEq, Inhabited")
    out.append("")
    out.append("/-- A call site of a memoised function that has a key parameter. -/")
    out.append("structure Site where")
    out.append("  callee : Nat")
    out.append("  /-- the argument in the key position is literally `CALENDAR.mode` -/")
    out.append("  passesMode : Bool")
    out.append("  deriving Repr, DecidableEq, Inhabited")
    out.append("")
    out.append("structure Table where")
    out.append("  fns : List FnRec")
    out.append("  sites : List Site")
    out.append("  /-- attributes `set_mode` computes from its argument -/")
    out.append("  depAttrs : List Nat")
    out.append("  /-- class constants and attributes `set_mode` computes from constants only -/")
    out.append("  indepAttrs : List Nat")
    out.append("  deriving Repr, DecidableEq, Inhabited")
    out.append("")
    out.append("def attrNames : List String := " + lean_list([lean_str(a) for a in attrs]))
    out.append("")
    out.append("def fnNames : List String := " + lean_list([lean_str(n) for n in names]))
    out.append("")
    out.append("def paramNames : List (List String) := [")
    out.append(",\n".join("  " + lean_list([lean_str(p) for p in r["params"]])
                          for r in an["rows"]))
    out.append("]")
    out.append("")
    for r in an["rows"]:
        out.append("/-- `%s` (%s:%d)%s; reads %s; calls %s. -/" % (
            r["name"], r["file"], r["line"],
            ", memoised" + (", key parameter %d" % r["key_idx"] if r["key_idx"] is not None
                            else ", no key parameter") if r["memo"] else "",
            ", ".join("CALENDAR." + a for a in r["reads"]) or "no CALENDAR attribute",
            ", ".join(r["calls"]) or "nothing in the table"))
        out.append("def fn_%d : FnRec :=" % fidx[r["name"]])
        out.append("  { memo := %s, keyIdx := %s, reads := %s, calls := %s }" % (
            lean_bool(r["memo"]),
            "some %d" % r["key_idx"] if r["key_idx"] is not None else "none",
            lean_list([str(aidx[a]) for a in r["reads"]]),
            lean_list([str(fidx[c]) for c in r["calls"] if c in fidx])))
        missing = [c for c in r["calls"] if c not in fidx]
        if missing:
            raise TranslateError("%s calls %r outside the table" % (r["name"], missing))
        out.append("")
    out.append("/-- Where each site is: (callee, file:line, enclosing function). -/")
    out.append("def siteWhere : List (String × String × String) := " + lean_list(
        ["(%s, %s, %s)" % (lean_str(s[0]), lean_str(s[1]), lean_str(s[2]))
         for s in an["sites"]]))
    out.append("")
    out.append("/-- Per memoised helper of data.py: (helper, its public wrapper, the wrapper passes")
    out.append("    `CALENDAR.mode` in the key position). -/")
    out.append("def wrappers : List (Nat × Option Nat × Bool) := " + lean_list(
        ["(%d, %s, %s)" % (fidx[w[0]], "some %d" % fidx[w[1]] if w[1] else "none",
                           lean_bool(w[2])) for w in an["wrappers"]]))
    out.append("")
    out.append("def table : Table :=")
    out.append("  { fns := " + lean_list(["fn_%d" % i for i in range(len(names))]) + ",")
    out.append("    sites := " + lean_list(
        ["⟨%d, %s⟩" % (fidx[s[0]], lean_bool(s[3])) for s in an["sites"]]) + ",")
    out.append("    depAttrs := " + lean_list([str(aidx[a]) for a in an["calendar"]["dep"]]) + ",")
    out.append("    indepAttrs := " + lean_list(
        [str(aidx[a]) for a in an["calendar"]["indep"]]) + " }")
    out.append("")
    out.append("end IsoDT.Gen.Cache")
    return "\n".join(out) + "\n"


def gen_cache():
    """The text of lean/IsoDT/Gen/Cache.lean for common.REPO's working tree."""
    return render(analyse(common.REPO))


def main(argv):
    try:
        text = gen_cache()
    except _translate().TranslateError as exc:
        print("TRANSLATE-FAIL Cache: %s" % exc)
        return 3
    if "--write" in argv:
        path = os.path.join(common.GEN_DIR, "Cache.lean")
        if common.write_if_changed(path, text):
            print("gen_cache: regenerated Gen/Cache.lean")
    else:
        sys.stdout.write(text)
    return 0


if __name__ == "__main__":
    sys.exit(main(sys.argv[1:]))
