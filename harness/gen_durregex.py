#!/venv/bin/python
"""gen_durregex — regenerate lean/IsoDT/Gen/DurRegex.lean: the regular expressions of
`DurationParser.DURATION_REGEXES` (parsers.py) as a small regex AST (C10).

The *live compiled pattern objects* are read (`rx.pattern`, `rx.flags`, `rx.groupindex`) and parsed
with CPython's own regex parser (`re._parser`), so what is written down is what the `re` module
actually matches with (verbose-mode white space already removed, non-capturing groups already
flattened).  The Lean side (`IsoDT/Model/DurText.lean`) runs these ASTs with a leftmost, greedy,
backtracking matcher; that matcher is compared with `re` itself on every check run (op `dregex`).

Shapes understood (anything else raises translate.TranslateError: tie broken, never skipped):

  pattern   ::= AT_BEGINNING item* AT_END          (used through .search; flags exactly re.X|re.U)
  item      ::= LITERAL c                          -> .one (.chr c)
              | IN [CATEGORY_DIGIT]                -> .one .digit
              | ANY                                -> .one .any         (no DOTALL: any but newline)
              | MAX_REPEAT 0 MAXREPEAT [class]     -> .star class       (greedy)
              | MAX_REPEAT 1 MAXREPEAT [class]     -> .plus class       (greedy)
              | MAX_REPEAT 0 1 item+               -> .opt (seq ...)    (greedy)
              | SUBPATTERN g 0 0 item+             -> .grp unit (seq ...)   (g named after one of the
                                                       seven Duration keywords)
  class     ::= LITERAL c | IN [CATEGORY_DIGIT] | ANY

`analyse()` returns the same thing as Python data (the harness uses it to mirror the model's domain
rule).  Usage: gen_durregex.py [--write]
"""
import os
import sys

sys.path.insert(0, os.path.dirname(os.path.abspath(__file__)))
import common  # noqa: E402

UNITS = ["years", "months", "weeks", "days", "hours", "minutes", "seconds"]


def _translate():
    import translate
    return translate


def TranslateError(msg):
    return _translate().TranslateError(msg)


def _sre():
    try:
        import re._parser as parser      # CPython >= 3.11
        import re._constants as const
    except ImportError:                  # pragma: no cover
        import sre_parse as parser
        import sre_constants as const
    return parser, const


def lean_char(c):
    """A Lean `Char` literal for code point c."""
    if 32 <= c <= 126 and chr(c) not in "'\\":
        return "'%s'" % chr(c)
    if chr(c) == "'":
        return "'\\''"
    if chr(c) == "\\":
        return "'\\\\'"
    if c > 0x10ffff or 0xd800 <= c <= 0xdfff:
        raise TranslateError("literal code point %r is not a Unicode scalar value" % (c,))
    return "(Char.ofNat %d)" % c


class _Conv:
    def __init__(self, names, const, what):
        self.names = names
        self.const = const
        self.what = what
        self.groups_seen = []

    def fail(self, msg):
        raise TranslateError("%s: %s" % (self.what, msg))

    def cls(self, item):
        """A single-character matcher, or None."""
        c = self.const
        op, av = item
        if op is c.LITERAL:
            return ("chr", av)
        if op is c.ANY:
            return ("any",)
        if op is c.IN:
            if list(av) == [(c.CATEGORY, c.CATEGORY_DIGIT)]:
                return ("digit",)
            self.fail("character set %r is not exactly \\d" % (av,))
        return None

    def seq(self, items):
        items = list(items)
        if not items:
            return ("eps",)
        parts = [self.item(it) for it in items]
        node = parts[-1]
        for part in reversed(parts[:-1]):
            node = ("seq", part, node)
        return node

    def item(self, item):
        c = self.const
        op, av = item
        k = self.cls(item)
        if k is not None:
            return ("one", k)
        if op is c.MAX_REPEAT:
            lo, hi, body = av
            body = list(body)
            if (lo, hi) == (0, 1):
                return ("opt", self.seq(body))
            if hi is c.MAXREPEAT and lo in (0, 1):
                if len(body) != 1 or self.cls(body[0]) is None:
                    self.fail("unbounded repeat of something that is not a single-character class: %r"
                              % (body,))
                return ("star" if lo == 0 else "plus", self.cls(body[0]))
            self.fail("repeat {%s,%s} is not one of ?, *, +" % (lo, hi))
        if op is c.SUBPATTERN:
            group, add_flags, del_flags, body = av
            if add_flags or del_flags:
                self.fail("group with inline flags")
            if group is None:
                return self.seq(body)
            name = self.names.get(group)
            if name is None:
                self.fail("capturing group %d has no name" % group)
            if name not in UNITS:
                self.fail("group name %r is not a Duration keyword %r" % (name, UNITS))
            if name in self.groups_seen:
                self.fail("group %r occurs twice" % name)
            self.groups_seen.append(name)
            return ("grp", name, self.seq(body))
        self.fail("regex construct %s is outside the AST (%r)" % (op, av))


def analyse():
    """[{index, pattern, groups: [names in group order], ast}] for the live DURATION_REGEXES."""
    common.use_repo()
    import re
    from metomi.isodatetime import parsers
    parser, const = _sre()
    regexes = list(parsers.DurationParser.DURATION_REGEXES)
    if not regexes:
        raise TranslateError("DurationParser.DURATION_REGEXES is empty")
    out = []
    for i, rx in enumerate(regexes):
        what = "DURATION_REGEXES[%d]" % i
        if not isinstance(rx, re.Pattern) or not isinstance(rx.pattern, str):
            raise TranslateError("%s is not a compiled str pattern" % what)
        if rx.flags != (re.X | re.U):
            raise TranslateError("%s: flags %r are not exactly VERBOSE|UNICODE" % (what, rx.flags))
        tree = list(parser.parse(rx.pattern, rx.flags))
        if len(tree) < 2 or tree[0] != (const.AT, const.AT_BEGINNING):
            raise TranslateError("%s does not start with ^" % what)
        if tree[-1] != (const.AT, const.AT_END):
            raise TranslateError("%s does not end with $" % what)
        names = {v: k for k, v in rx.groupindex.items()}
        conv = _Conv(names, const, what)
        ast = conv.seq(tree[1:-1])
        groups = [names[g] for g in sorted(names)]
        if groups != conv.groups_seen:
            raise TranslateError("%s: groups %r are not met in index order %r" % (
                what, conv.groups_seen, groups))
        out.append({"index": i, "pattern": rx.pattern, "groups": groups, "ast": ast})
    return out


def _lean_cls(k):
    if k[0] == "chr":
        return "(.chr %s)" % lean_char(k[1])
    return "." + k[0]


def _lean_re(node, indent):
    pad = "  " * indent
    tag = node[0]
    if tag == "eps":
        return pad + ".eps"
    if tag in ("one", "star", "plus"):
        return pad + "(.%s %s)" % (tag, _lean_cls(node[1]))
    if tag == "opt":
        return pad + "(.opt\n%s)" % _lean_re(node[1], indent + 1)
    if tag == "grp":
        return pad + "(.grp .%s\n%s)" % (node[1], _lean_re(node[2], indent + 1))
    if tag == "seq":
        return pad + "(.seq\n%s\n%s)" % (_lean_re(node[1], indent + 1), _lean_re(node[2], indent + 1))
    raise TranslateError("internal: unknown AST node %r" % (tag,))


def gen_durregex():
    tr = _translate()
    info = analyse()
    out = [tr.HEADER.replace("harness/translate.py", "harness/gen_durregex.py"),
           "namespace IsoDT.Gen", "",
           "/-- The keyword arguments of `Duration(...)` a regex group can be named after. -/",
           "inductive DUnit where",
           "  | " + " | ".join(UNITS),
           "  deriving DecidableEq, Repr, Inhabited", "",
           "def DUnit.all : List DUnit := [" + ", ".join("." + u for u in UNITS) + "]", "",
           "def DUnit.name : DUnit → String",
           ]
    for u in UNITS:
        out.append("  | .%s => %s" % (u, tr.lean_str(u)))
    out += ["",
            "/-- A matcher of one character: `\\d`, `.` (no DOTALL) or a literal. -/",
            "inductive Cls where",
            "  | digit | any | chr (c : Char)",
            "  deriving DecidableEq, Repr, Inhabited", "",
            "/-- The regex shapes `DURATION_REGEXES` is built from (all repeats greedy). -/",
            "inductive Re where",
            "  | eps",
            "  | one (k : Cls)",
            "  | star (k : Cls)",
            "  | plus (k : Cls)",
            "  | opt (r : Re)",
            "  | seq (a b : Re)",
            "  | grp (n : DUnit) (r : Re)",
            "  deriving Repr, Inhabited", ""]
    for rec in info:
        out.append("/-- `DURATION_REGEXES[%d]` between its `^` and `$`; source pattern (verbose mode):" % rec["index"])
        for line in rec["pattern"].split("\n"):
            out.append("      " + line.strip().replace("-/", "- /").replace("/-", "/ -"))
        out.append("-/")
        out.append("def durRegex%d : Re :=" % rec["index"])
        out.append(_lean_re(rec["ast"], 1))
        out.append("")
        out.append("/-- Its named groups in group-index order (the order `groupdict()` is walked in). -/")
        out.append("def durGroups%d : List DUnit := [%s]" % (
            rec["index"], ", ".join("." + g for g in rec["groups"])))
        out.append("")
    out.append("/-- `DurationParser.DURATION_REGEXES`, in the order `parse` tries them. -/")
    out.append("def durRegexes : List (Re × List DUnit) := [%s]" % ", ".join(
        "(durRegex%d, durGroups%d)" % (r["index"], r["index"]) for r in info))
    out.append("")
    out.append("end IsoDT.Gen")
    return "\n".join(out) + "\n"


def register():
    """Make translate.main() regenerate Gen/DurRegex.lean (idempotent; in-memory only)."""
    _translate().GENERATORS.setdefault("DurRegex", gen_durregex)


if __name__ == "__main__":
    text = gen_durregex()
    if "--write" in sys.argv[1:]:
        path = os.path.join(common.GEN_DIR, "DurRegex.lean")
        print("changed" if common.write_if_changed(path, text) else "unchanged", path)
    else:
        sys.stdout.write(text)
