"""Self-test of the ops in strf2ops.py, cli2ops.py, durtextqops.py, rectextops.py and truncqops.py.

    cd /verif && /venv/bin/python harness/test_newops.py [--tier quick|thorough] [--seeds N] [--no-mutants]

1. every op, seeds 0..N-1 on the unchanged /repo: evaluations / disagreements / violations (none expected);
2. every op's cases are hashable, survive a JSON round trip through `from_corpus`, give the same driver line after
   it, and the generator yields the same stream again from the same seed;
3. every op against a deliberately broken implementation (a monkey-patch inside this process, undone afterwards):
   disagreements (and, where the op has an oracle, violations) must appear.
Exit status 1 if any of this fails.
"""
import re
import sys
import json
import time
import random

import common
common.use_repo()
import engine                      # noqa: E402
import strf2ops                    # noqa: E402
import cli2ops                     # noqa: E402
import durtextqops                 # noqa: E402
import rectextops                  # noqa: E402
import truncqops                   # noqa: E402

OPS = [strf2ops.Strftime2Op, strf2ops.UnixQOp, cli2ops.CliEvalOp, durtextqops.DurTextQOp, rectextops.RecTextOp,
       truncqops.AddTruncQOp]


def short(x, n=220):
    s = str(x)
    return s if len(s) <= n else s[:n] + "..."


def report(op, res, dt, show=3):
    print("%-10s %-3s evaluations=%d distinct=%d disagreements=%d violations=%d impl-errors=%s %.1fs%s" % (
        op.name, op.prop, res.evaluations, len(res.keys), len(res.disagreements), len(res.violations),
        dict(res.errors), dt, ("  skipped: %s" % dict(op.skipped)) if getattr(op, "skipped", None) else ""))
    for _, a, out, model in res.disagreements[:show]:
        print("    DISAGREE %s\n        impl : %s\n        model: %s" % (short(op.line(a)), short(out), short(model)))
    for _, a, out, msg in res.violations[:show]:
        print("    VIOLATION %s" % short(msg, 400))
    for note in res.notes[:3]:
        print("    note: %s" % short(note))


def clean_runs(tier, nseeds):
    bad = 0
    for cls in OPS:
        for seed in range(nseeds):
            op = cls()
            t0 = time.time()
            res = engine.run_ops([op], seed, tier)
            report(op, res, time.time() - t0)
            bad += len(res.disagreements) + len(res.violations)
            if res.evaluations == 0:
                print("    no cases")
                bad += 1
    return bad


def replay_checks():
    bad = 0
    for cls in OPS:
        op = cls()
        cases = list(op.gen(random.Random(12345), "quick", 1))
        again = list(cls().gen(random.Random(12345), "quick", 1))
        problems = []
        if cases != again:
            problems.append("the generator is not a function of the seed")
        if len(set(cases)) == 0:
            problems.append("no cases")
        for a in cases:
            b = op.from_corpus(json.loads(json.dumps(a)))
            if b != a or hash(b) != hash(a):
                problems.append("case changes in a JSON round trip: %s" % short(a))
                break
            if op.line(b) != op.line(a):
                problems.append("driver line changes in a JSON round trip: %s" % short(a))
                break
        # a shard gets its share
        part = cls()
        part.shard = (1, 4)
        n_part = sum(1 for _ in part.gen(random.Random(12345), "quick", 1))
        if not 0 < n_part < 0.6 * len(cases):
            problems.append("shard (1, 4) yields %d of %d cases" % (n_part, len(cases)))
        print("%-10s replay: %d cases, %d distinct, shard 1/4: %d -> %s" % (
            op.name, len(cases), len(set(cases)), n_part, "; ".join(problems) or "ok"))
        bad += len(problems)
    return bad


# ---------------------------------------------------------------------------------------------------------
# deliberately broken implementations

class Patch:
    def __init__(self, obj, name, value, item=False):
        self.obj, self.name, self.value, self.item = obj, name, value, item

    def __enter__(self):
        if self.item:
            self.saved = self.obj[self.name]
            self.obj[self.name] = self.value
        else:
            self.saved = self.obj.__dict__[self.name] if isinstance(self.obj, type) else getattr(self.obj, self.name)
            setattr(self.obj, self.name, self.value)

    def __exit__(self, *exc):
        if self.item:
            self.obj[self.name] = self.saved
        else:
            setattr(self.obj, self.name, self.saved)


def add_truncated_without_ceil():
    """TimePoint.add_truncated as it was before the repair: the step that moves a point inside a second on to the next
    whole second is cut out of the source."""
    import inspect
    import textwrap
    from metomi.isodatetime import data
    src = textwrap.dedent(inspect.getsource(data.TimePoint.add_truncated))
    start = src.index("if new._second_of_minute != int(new._second_of_minute):")
    end = src.index("if second_of_minute is not None:", start)
    src = src[:start] + "pass\n    " + src[end:]
    scope = {}
    exec(compile(src, "<add_truncated without the ceil step>", "exec"), vars(data), scope)
    return scope["add_truncated"]


def mutants():
    from metomi.isodatetime import data, parser_spec
    orig_rec_str = data.TimeRecurrence.__dict__["__str__"]
    orig_str = data.Duration.__dict__["__str__"]
    orig_from = data.get_timepoint_from_seconds_since_unix_epoch
    orig_since = data.TimePoint.__dict__["seconds_since_unix_epoch"]

    def since_floor(self):
        v = int(orig_since.fget(self))
        return str(v - 1 if v < 0 else v)

    return [
        ("TimeRecurrence.__str__ drops the repetitions", rectextops.RecTextOp, True,
         [Patch(data.TimeRecurrence, "__str__", lambda self: re.sub(r"^R[0-9]+/", "R/", orig_rec_str(self)))]),
        ("add_truncated without the step to the next whole second (must not terminate, or not be the earliest)",
         truncqops.AddTruncQOp, True, [Patch(data.TimePoint, "add_truncated", add_truncated_without_ceil())], 700),
        ("%X written with dots in the strftime table", strf2ops.Strftime2Op, False,
         [Patch(parser_spec.STRFTIME_TRANSLATE_INFO, "%X",
                ["hour_of_day", ".", "minute_of_hour", ".", "second_of_minute"], item=True)]),
        ("Unix time truncated to whole seconds on the way in, one less on the way out when negative",
         strf2ops.UnixQOp, True,
         [Patch(data, "get_timepoint_from_seconds_since_unix_epoch",
                lambda num_seconds, utc=False: orig_from(int(num_seconds), utc=utc)),
          Patch(data.TimePoint, "seconds_since_unix_epoch", property(since_floor))]),
        ("TimePoint.to_utc does nothing", cli2ops.CliEvalOp, False,
         [Patch(data.TimePoint, "to_utc", lambda self: self)]),
        ("Duration.__str__ keeps the decimal point (still a faithful text: no violation expected)",
         durtextqops.DurTextQOp, False,
         [Patch(data.Duration, "__str__", lambda self: orig_str(self).replace(",", "."))]),
        ("Duration.__str__ prints at most three decimals", durtextqops.DurTextQOp, True,
         [Patch(data.Duration, "__str__", lambda self: re.sub(r",([0-9]{3})[0-9]+", r",\1", orig_str(self)))]),
    ]


def mutant_runs():
    bad = 0
    for what, cls, has_oracle, patches, *rest in mutants():
        max_cases = rest[0] if rest else None       # a spinning case costs SPIN_LIMIT steps, twice
        op = cls()
        t0 = time.time()
        entered = []
        try:
            for p in patches:
                p.__enter__()
                entered.append(p)
            res = engine.run_ops([op], 0, "quick", max_cases=max_cases)
        finally:
            for p in reversed(entered):
                p.__exit__()
        print("MUTANT %s:" % what)
        report(op, res, time.time() - t0, show=1)
        caught = len(res.disagreements) > 0 and (not has_oracle or len(res.violations) > 0)
        print("    -> %s" % ("caught" if caught else "NOT CAUGHT"))
        bad += 0 if caught else 1
        # and the patch is really gone
        check = engine.run_ops([cls()], 0, "quick", max_cases=400)
        if check.disagreements or check.violations:
            print("    the implementation did not come back after the patch was removed")
            bad += 1
    return bad


def main(argv):
    tier = "quick"
    nseeds = 4
    do_mutants = True
    i = 0
    while i < len(argv):
        if argv[i] == "--tier":
            tier = argv[i + 1]
            i += 2
        elif argv[i] == "--seeds":
            nseeds = int(argv[i + 1])
            i += 2
        elif argv[i] == "--no-mutants":
            do_mutants = False
            i += 1
        else:
            print(__doc__)
            return 2
    t0 = time.time()
    bad = clean_runs(tier, nseeds)
    bad += replay_checks()
    if do_mutants:
        bad += mutant_runs()
    print("%s (%.0fs)" % ("FAILED: %d problem(s)" % bad if bad else "all clean", time.time() - t0))
    return 1 if bad else 0


if __name__ == "__main__":
    sys.exit(main(sys.argv[1:]))
