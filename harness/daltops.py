"""`DurationParser().parse(text)` on the date-time-like ALTERNATIVE spelling of durations - complete, reduced and
ordinal date forms x every time form x zones, boundary and out-of-range field values, leading signs, week and
truncated forms, mutations - against the model `parseA` (lean/IsoDT/Model/DurTextAlt.lean; theorems Props/C10c):
refused or not, and every component exactly.  The oracle states the property's own clauses: a text that is read
yields a duration with no missing component and no exception outside ValueError, and `parse(str(d)) == d` (with
equal hash) whenever d is single-signed."""
import itertools
import math
import random
from fractions import Fraction

from engine import Op, set_mode

MODES = ["gregorian", "360day", "365day", "366day"]
SHORT = {"gregorian": "greg", "360day": "d360", "365day": "d365", "366day": "d366"}
rng = random.Random(0)


def enc(text):
    return "s" + ".".join(str(ord(c)) for c in text)


def show_num(v):
    if isinstance(v, float):
        if math.isinf(v) or math.isnan(v):
            return "inf"
        f = Fraction(v)
    else:
        f = Fraction(v)
    return str(f.numerator) if f.denominator == 1 else "%d/%d" % (f.numerator, f.denominator)


def real(text):
    from metomi.isodatetime.parsers import DurationParser
    try:
        d = DurationParser().parse(text)
    except ValueError:
        return "err"
    except Exception as exc:  # a finding
        return "FINDING %s: %s" % (type(exc).__name__, exc)
    if d.weeks is not None:
        comps = (d.years, d.months, d.days, d.hours, d.minutes, d.seconds)
        if any(c is not None for c in comps):
            return "FINDING week form with other slots %r" % (comps,)
        return "W %d" % d.weeks
    comps = (d.years, d.months, d.days, d.hours, d.minutes, d.seconds)
    if any(c is None for c in comps):
        return "FINDING None component %r" % (comps,)
    if any(isinstance(c, float) and math.isinf(c) for c in comps):
        return "inf"
    return "U " + " ".join(show_num(c) for c in comps)


# ---------------------------------------------------------------------------------------------
# generators

YEARS = ["0000", "0001", "0004", "1999", "9999", "2024"]
MONTHS = ["00", "01", "03", "12", "13", "99"]
DAYS = ["00", "01", "02", "28", "31", "32", "99"]
ORDS = ["000", "001", "123", "365", "366", "367", "999"]
HOURS = ["00", "05", "23", "24", "25", "99"]
MINS = ["00", "06", "59", "60", "99"]
SECS = ["00", "07", "59", "60", "99"]
WEEKS = ["00", "01", "52", "53", "54", "99"]
DOWS = ["0", "1", "7", "8"]
XY = ["+00", "-00", "+01", "-01", "+99", "-12"]


def pick(l):
    return rng.choice(l)


def date_forms():
    """(kind, text) for every date form, complete / reduced / ordinal / week / truncated."""
    y, mo, d, o, w, k, x = pick(YEARS), pick(MONTHS), pick(DAYS), pick(ORDS), pick(WEEKS), pick(DOWS), pick(XY)
    cc, yy = y[:2], y[2:]
    return [
        # complete
        ("bc", y + mo + d), ("xc", "%s-%s-%s" % (y, mo, d)),
        ("bo", y + o), ("xo", "%s-%s" % (y, o)),
        ("bw", "%sW%s%s" % (y, w, k)), ("xw", "%s-W%s-%s" % (y, w, k)),
        # signed expanded complete
        ("bc", x + y + mo + d), ("xc", "%s%s-%s-%s" % (x, y, mo, d)),
        ("bo", x + y + o), ("xo", "%s%s-%s" % (x, y, o)),
        ("bw", "%s%sW%s%s" % (x, y, w, k)), ("xw", "%s%s-W%s-%s" % (x, y, w, k)),
        # reduced
        ("r", "%s-%s" % (y, mo)), ("r", y), ("r", cc), ("r", "%s%s-%s" % (x, y, mo)), ("r", x + y),
        ("r", x + cc), ("r", "%sW%s" % (y, w)), ("r", "%s-W%s" % (y, w)), ("r", "%s%sW%s" % (x, y, w)),
        ("r", "%s%s-W%s" % (x, y, w)),
        # one expanded digit too few / too many, sign without expanded digits
        ("q", x[0] + y + mo + d), ("q", x + "0" + y + "-" + mo + "-" + d), ("q", x[0] + y),
        # truncated
        ("t", "-%s%s" % (yy, mo)), ("t", "-" + yy), ("t", "--%s%s" % (mo, d)), ("t", "--" + mo),
        ("t", "---" + d), ("t", yy + mo + d), ("t", yy + o), ("t", "-" + o), ("t", "%sW%s%s" % (yy, w, k)),
        ("t", "%sW%s" % (yy, w)), ("t", "-%sW%s%s" % (yy[1], w, k)), ("t", "-W%s%s" % (w, k)),
        ("t", "-W" + w), ("t", "-W-" + k), ("t", "-%s-%s" % (yy, mo)), ("t", "--%s-%s" % (mo, d)),
        ("t", "%s-%s-%s" % (yy, mo, d)), ("t", "%s-%s" % (yy, o)), ("t", "%s-W%s-%s" % (yy, w, k)),
        ("t", "-W%s-%s" % (w, k)), ("t", ""),
        # neither
        ("q", y + mo), ("q", y + "-" + mo + d), ("q", y + mo + "-" + d), ("q", y + "-" + d[:1]),
    ]


def time_forms():
    h, mi, s = pick(HOURS), pick(MINS), pick(SECS)
    dec = pick(["0", "5", "25", "000", "999999", "9" * 17, "9" * 30, "1" * 40, "0" * 20 + "1", "75", "125"])
    sep = pick([",", "."])
    return [
        None,
        "", h, h + mi, h + mi + s, "%s:%s" % (h, mi), "%s:%s:%s" % (h, mi, s),
        h + sep + dec, h + mi + sep + dec, h + mi + s + sep + dec,
        "%s:%s%s%s" % (h, mi, sep, dec), "%s:%s:%s%s%s" % (h, mi, s, sep, dec),
        "-" + mi, "-" + mi + s, "--" + s, "-%s:%s" % (mi, s), "-" + mi + sep + dec,
        h[:1], h + ":" + mi[:1], h + ":", h + mi + s + "0", "%s:%s:%s:00" % (h, mi, s),
    ]


def zone_forms():
    zh, zm = pick(["00", "01", "12", "23", "24", "99"]), pick(["00", "30", "59", "60", "99"])
    return ["", "", "", "Z", "+" + zh, "-" + zh, "+" + zh + zm, "-" + zh + zm, "+%s:%s" % (zh, zm),
            "-%s:%s" % (zh, zm), "+" + zh[:1], "Z" + zh, "+%s+%s" % (zh, zm), "z", "+" + zh + ":" + zm + "Z"]


def alt_texts():
    out = []
    for _ in range(12):
        for (_, date) in date_forms():
            for time in time_forms():
                if time is None:
                    out.append(date)
                else:
                    out.append(date + "T" + time + pick(zone_forms()))
    return out


def systematic():
    """Every date form x every time form (or none), boundary values one at a time."""
    out = []
    dates = []
    for y in ["0000", "0004", "9999"]:
        dates += [y, y[:2]]
        for mo in MONTHS:
            dates += ["%s-%s" % (y, mo)]
            for d in DAYS:
                dates += [y + mo + d, "%s-%s-%s" % (y, mo, d)]
        for o in ORDS:
            dates += [y + o, "%s-%s" % (y, o)]
        for w in ["00", "01", "53"]:
            dates += ["%sW%s" % (y, w), "%s-W%s" % (y, w)]
            for k in ["0", "1", "7"]:
                dates += ["%sW%s%s" % (y, w, k), "%s-W%s-%s" % (y, w, k)]
    times = [None]
    for h in HOURS:
        times.append(h)
        for mi in MINS:
            times += [h + mi, "%s:%s" % (h, mi)]
            for s in ["00", "59", "60"]:
                times += [h + mi + s, "%s:%s:%s" % (h, mi, s)]
    for date in dates:
        for time in times:
            if time is None:
                out.append(date)
            elif rng.random() < 0.12 or time in ("00", "24", "25", "05:60", "0560"):
                out.append(date + "T" + time)
    return out


def mutate(t):
    ops = rng.randrange(8)
    if not t:
        return t
    i = rng.randrange(len(t) + 1)
    if ops == 0:
        return t[:i] + pick(list("0123456789-+:TZWP,.\n YMDHS")) + t[i:]
    if ops == 1 and i < len(t):
        return t[:i] + t[i + 1:]
    if ops == 2:
        return t + "\n"
    if ops == 3:
        return t + pick(["\n\n", " ", "T", "Z", "٤", "é"])
    if ops == 4 and i < len(t):
        return t[:i] + pick(list("0123456789-+:TZW١")) + t[i + 1:]
    if ops == 5:
        return t.replace("-", pick(["", "--", "+", "−"]), 1)
    if ops == 6:
        return t.replace("T", pick(["t", "TT", " ", "T-", "T+"]), 1)
    return t


def designators():
    out = ["P", "PT", "P0Y", "P1Y2M3DT4H5M6S", "PT1,5H", "PT1.5H2M", "P1W", "P0W", "P1Y1W", "P4Y3M", "P1YT",
           "PT1H2H", "P1Y2M3D4H", "P00040302T050607S", "P0004Y03", "P1234Y", "P1234", "P12", "P123", "P12345",
           "P123456", "P1234567", "P12345678", "P123456789", "P1234-5", "P1234-56-7", "PT1e3S", "P1e3Y",
           "PT1e999S", "1Y", "", "-", "+", "P-1Y", "P+1Y", "--P1Y", "-+P1Y", "+-P1Y", "PP0004", "P P0004",
           "P0004-03-02 05:06", "p0004-03-02", "P0004-03-02t05"]
    return out




def all_texts():
    texts = []
    texts += systematic()
    texts += alt_texts()
    base = list(texts)
    texts = ["P" + t for t in base]
    for t in base:
        if rng.random() < 0.15:
            texts.append("-P" + t)
        if rng.random() < 0.08:
            texts.append("+P" + t)
        if rng.random() < 0.03:
            texts.append(t)
        if rng.random() < 0.02:
            texts.append("--P" + t)
    texts += ["-P0000-00-01T00", "+P0000-00-01T00", "P0000-00-01T00", "P-0000-00-01T00", "P+0000-00-01T00",
              "P-000000-00-01T00", "P+000000-00-01T00", "-P+000000-00-01T00", "-P-000000-00-01T00",
              "P0000-W01-1", "P0000W011", "P-0403", "P+0403", "P20", "P0004-03", "P0000-00-00T10:30,5",
              "P00000000T1030,5", "P0004-078T10:30,25"]
    for d in designators():
        texts += [d, "-" + d, "+" + d]
    sample = rng.sample(texts, min(len(texts), 6000))
    texts += [mutate(t) for t in sample]
    texts += [mutate(mutate(t)) for t in rng.sample(sample, 1500)]
    return list(dict.fromkeys(texts))


class DAltQOp(Op):
    prop = "C10"
    name = "daltq"

    def gen(self, rng_, tier, boost):
        global rng
        rng = rng_
        texts = all_texts()
        n = (3500 if tier == "quick" else 40000) * boost
        if len(texts) > n:
            keep = [t for t in texts if len(t) <= 12 and rng_.random() < 0.25]
            texts = keep + rng_.sample(texts, n - min(n, len(keep)))
        for i, t in enumerate(texts):
            if any(ord(c) >= 128 for c in t):
                continue          # the model answers `outside` for non-ASCII text (the garbage stream of C09 covers it)
            yield (SHORT[MODES[i % 4]], t)

    def line(self, a):
        return "daltq %s %s" % (a[0], enc(a[1]))

    def impl(self, a):
        set_mode(a[0])
        return real(a[1])

    def oracle(self, a, out):
        if out.startswith(("FINDING", "EXC", "Timeout")):
            return "parse(%r) in %s: %s" % (a[1], a[0], out)
        if not out.startswith("U "):
            return None
        comps = [Fraction(x) for x in out.split()[1:]]
        if not (all(c >= 0 for c in comps) or all(c <= 0 for c in comps)):
            return None
        if any(c.denominator != 1 for c in comps):
            return None           # decimal components: op dfparse / dfloat
        from metomi.isodatetime.parsers import DurationParser
        set_mode(a[0])
        d = DurationParser().parse(a[1])
        try:
            back = DurationParser().parse(str(d))
        except ValueError as exc:
            return "parse(%r) gives %s, whose str() %r is refused (%s)" % (a[1], out, str(d), type(exc).__name__)
        if not (back == d and hash(back) == hash(d) and back.get_seconds() == d.get_seconds()):
            return "parse(%r) gives %s; str() %r reads back as a different duration" % (a[1], out, str(d))
        return None

    def label(self, a):
        t = a[1]
        kind = "designator" if any(c in t for c in "YMDHSW") and "-W" not in t and "T" not in t[2:3] else "alternative"
        return "daltq/%s/%s/%s" % (a[0], kind, "signed" if t[:1] in "+-" else "plain")
