"""Boundary-biased generators shared by the property modules (DESIGN §4.2).

Every random choice comes from the `random.Random` passed in, which the engine derives from
VERIF_SEED, so a run replays exactly.
"""
import oracle

YEAR_BOUNDARY = [
    0, 1, -1, 4, -4, 100, -100, 400, -400, 1600, 1899, 1900, 1901, 1969, 1970, 1971, 1999,
    2000, 2001, 2003, 2004, 2005, 2008, 2009, 2015, 2016, 2020, 2021, 2024, 2026, 2032, 2099,
    2100, 2101, 2399, 2400, 2401, 9998, 9999, 10000, 10001, -9999, 99999, -99999, 123456,
    -123456,
]

OFFSETS = [(0, 0), (0, 30), (0, -30), (5, 45), (-5, -45), (12, 0), (-12, 0), (13, 45),
           (24, 0), (-24, 0), (99, 59), (-99, -59), (1, 0), (-1, 0), (0, 1), (0, -1),
           (-2, -15), (9, 30), (-3, -30), (0, 59), (0, -59),
           # small neighbours (-1 and -2 hash alike in CPython), and the far ends of the legal range
           (-2, 0), (2, 0), (-1, -30), (-2, -30), (0, -2), (0, 2), (99, 0), (-99, 0), (96, 0), (-96, 0),
           (93, 0), (-93, -30), (98, 30)]


def offset_near(rng, tz):
    """An offset adjacent to tz (an hour or a minute away), or its mirror image, staying legal."""
    h, mi = tz
    cands = [(h + 1, mi), (h - 1, mi), (h, mi + 1), (h, mi - 1), (-h, -mi), (h, 0), (h + 2, mi), (h - 2, mi)]
    ok = [(a, b) for a, b in cands if -99 <= a <= 99 and -59 <= b <= 59 and not (a > 0 and b < 0)
          and not (a < 0 and b > 0)]
    return rng.choice(ok) if ok else (0, 0)


def offsets_far_apart(rng):
    """Two legal offsets of opposite sign eight days and more apart (local dates of one instant differ by up to
    nine days)."""
    a = rng.choice([99, 99, 98, 97, 96, 95, 93, 90])
    b = rng.choice([99, 99, 98, 97, 96, 95, 93, 90])
    ma, mb = rng.choice([0, 0, 59, 30]), rng.choice([0, 0, 59, 30])
    return ((a, ma), (-b, -mb)) if rng.random() < 0.5 else ((-a, -ma), (b, mb))


def year(rng, wide=True):
    r = rng.random()
    if r < 0.45:
        return rng.choice(YEAR_BOUNDARY)
    if r < 0.8:
        return rng.randint(1583, 2500)
    if r < 0.9:
        return rng.randint(-500, 500)
    if wide:
        return rng.randint(-200000, 200000)
    return rng.randint(0, 9999)


def mode(rng):
    r = rng.random()
    if r < 0.55:
        return "greg"
    return rng.choice(["d360", "d365", "d366"])


def cal_date(rng, m, y=None, valid=True):
    """A calendar date biased to month ends."""
    if y is None:
        y = year(rng)
    mo = rng.randint(1, 12)
    if rng.random() < 0.3:
        mo = rng.choice([1, 2, 3, 12])
    ml = oracle.month_len(m, y, mo)
    r = rng.random()
    if r < 0.3:
        d = ml
    elif r < 0.5:
        d = 1
    elif r < 0.6:
        d = max(1, ml - 1)
    else:
        d = rng.randint(1, ml)
    return (y, mo, d)


def ord_date(rng, m, y=None):
    if y is None:
        y = year(rng)
    yl = oracle.year_len(m, y)
    r = rng.random()
    if r < 0.45:
        doy = rng.choice([1, 2, 3, 4, 5, 6, 7, 31, 32, 59, 60, 61, yl - 7, yl - 6, yl - 5,
                          yl - 4, yl - 3, yl - 2, yl - 1, yl])
    else:
        doy = rng.randint(1, yl)
    return (y, doy)


def week_date(rng, m, y=None):
    if y is None:
        y = year(rng)
    wiy = oracle.weeks_in_year(m, y)
    r = rng.random()
    if r < 0.5:
        w = rng.choice([1, 2, wiy - 1, wiy])
    else:
        w = rng.randint(1, wiy)
    return (y, w, rng.randint(1, 7))


def any_date(rng, m, y=None, rep=None):
    """('c'|'o'|'w', fields...) valid in mode m."""
    if rep is None:
        rep = rng.choice("cow")
    if rep == "c":
        return ("c",) + cal_date(rng, m, y)
    if rep == "o":
        return ("o",) + ord_date(rng, m, y)
    return ("w",) + week_date(rng, m, y)


def offset(rng):
    r = rng.random()
    if r < 0.35:
        return (0, 0)
    if r < 0.75:
        return rng.choice(OFFSETS)
    h = rng.randint(-99, 99)
    mi = rng.randint(0, 59)
    if h < 0 or (h == 0 and rng.random() < 0.5):
        mi = -mi
    return (h, mi)


def hms(rng, allow24=True):
    r = rng.random()
    if allow24 and r < 0.06:
        return (24, 0, 0)
    if r < 0.3:
        return rng.choice([(0, 0, 0), (23, 59, 59), (0, 0, 1), (23, 59, 0), (12, 0, 0),
                           (0, 59, 59), (23, 0, 0), (1, 0, 0)])
    return (rng.randint(0, 23), rng.randint(0, 59), rng.randint(0, 59))


def shard_filter(items, shard):
    if shard is None:
        return items
    i, n = shard
    return [x for k, x in enumerate(items) if k % n == i]
