"""Helpers shared by the TimePoint/Duration property modules: building real objects from the
protocol tuples, canonicalising results, Spec-oracle views of them, generators."""
from fractions import Fraction

import oracle
import gens


# A time point tuple: (rep, y, a, b, hh, mi, ss, tzh, tzm); b = 0 for ordinal dates.
def mk_tp(t):
    from metomi.isodatetime.data import TimePoint
    rep, y, a, b, hh, mi, ss, tzh, tzm = t
    kw = dict(year=y, hour_of_day=hh, minute_of_hour=mi, second_of_minute=ss,
              time_zone_hour=tzh, time_zone_minute=tzm)
    if not 0 <= y <= 9999:
        kw["num_expanded_year_digits"] = 3
    if rep == "c":
        kw.update(month_of_year=a, day_of_month=b)
    elif rep == "o":
        kw.update(day_of_year=a)
    else:
        kw.update(week_of_year=a, day_of_week=b)
    return TimePoint(**kw)


def _int(x):
    if isinstance(x, int):
        return x
    if isinstance(x, float) and x == int(x):
        return int(x)
    raise NonIntegral(x)


class NonIntegral(Exception):
    pass


def tp_tuple(p):
    """The protocol tuple of a real TimePoint (whole-second, non-truncated)."""
    if p.get_is_calendar_date():
        rep, a, b = "c", p._month_of_year, p._day_of_month
    elif p.get_is_ordinal_date():
        rep, a, b = "o", p._day_of_year, 0
    else:
        rep, a, b = "w", p._week_of_year, p._day_of_week
    return (rep, _int(p._year), _int(a), _int(b), _int(p._hour_of_day), _int(p._minute_of_hour),
            _int(p._second_of_minute), _int(p._time_zone._hours), _int(p._time_zone._minutes))


def tp_str(t):
    return " ".join(str(x) for x in t)


def canon_tp(p):
    try:
        return tp_str(tp_tuple(p))
    except NonIntegral as exc:
        return "NONINT:%r" % (exc.args[0],)


def parse_tp(s):
    f = s.split()
    return (f[0],) + tuple(int(x) for x in f[1:9])


def date_of(t):
    rep = t[0]
    if rep == "o":
        return ("o", t[1], t[2])
    return (rep, t[1], t[2], t[3])


def inst(m, t):
    return oracle.inst(m, date_of(t), t[4], t[5], t[6], t[7], t[8])


def valid(m, t, strict=False):
    rep, y, a, b, hh, mi, ss, tzh, tzm = t
    if not oracle.date_valid(m, date_of(t)):
        return False
    if not (0 <= mi < 60 and 0 <= ss < 60 and oracle.tz_valid(tzh, tzm)):
        return False
    if hh == 24:
        return (not strict) and mi == 0 and ss == 0
    return 0 <= hh < 24


# A duration tuple: ("W", w) | ("U", y, mo, d, h, mi, s)
def mk_dur(d):
    from metomi.isodatetime.data import Duration
    if d[0] == "W":
        return Duration(weeks=d[1])
    _, y, mo, dd, h, mi, s = d
    return Duration(years=y, months=mo, days=dd, hours=h, minutes=mi, seconds=s)


def dur_str(d):
    return " ".join(str(x) for x in d)


def dur_tuple(d):
    if d.get_is_in_weeks():
        return ("W", _int(d._weeks))
    return ("U", _int(d._years), _int(d._months), _int(d._days), _int(d._hours),
            _int(d._minutes), _int(d._seconds))


def canon_dur(d):
    try:
        return dur_str(dur_tuple(d))
    except NonIntegral as exc:
        return "NONINT:%r" % (exc.args[0],)


def dur_seconds(d):
    """Exact length of an exact duration tuple."""
    if d[0] == "W":
        return d[1] * 7 * 86400
    _, y, mo, dd, h, mi, s = d
    assert y == 0 and mo == 0
    return dd * 86400 + h * 3600 + mi * 60 + s


def dur_neg(d):
    return (d[0],) + tuple(-x for x in d[1:])


def gen_tp(rng, m, rep=None, allow24=True):
    date = gens.any_date(rng, m, rep=rep)
    hh, mi, ss = gens.hms(rng, allow24)
    tzh, tzm = gens.offset(rng)
    if date[0] == "o":
        return ("o", date[1], date[2], 0, hh, mi, ss, tzh, tzm)
    return (date[0], date[1], date[2], date[3], hh, mi, ss, tzh, tzm)


MAG_S = [1, 59, 60, 61, 3599, 3600, 3601, 86399, 86400, 86401, 31535999, 31536000, 31622400]
MAG_MI = [1, 59, 60, 61, 1439, 1440, 1441, 525600]
MAG_H = [1, 23, 24, 25, 47, 48, 8760, 8784]
MAG_D = [1, 2, 6, 7, 8, 27, 28, 29, 30, 31, 32, 58, 59, 60, 61, 364, 365, 366, 367, 371, 730,
         731, 1461, 36524, 36525, 146097, 146098]


def _mag(rng, table, big):
    r = rng.random()
    if r < 0.6:
        v = rng.choice(table)
    elif r < 0.9:
        v = rng.randint(1, max(2, big // 100))
    else:
        v = rng.randint(1, big)
    return v if rng.random() < 0.5 else -v


def gen_exact_dur(rng, single_unit_bias=0.6, max_days=200000):
    """An exact duration, biased to one unit at a boundary magnitude."""
    r = rng.random()
    if r < 0.08:
        w = _mag(rng, [1, 2, 52, 53, 521, 522, 20871], max_days // 7)
        return ("W", w)
    d = h = mi = s = 0
    if rng.random() < single_unit_bias:
        unit = rng.choice("dhms")
        if unit == "d":
            d = _mag(rng, MAG_D, max_days)
        elif unit == "h":
            h = _mag(rng, MAG_H, max_days * 24)
        elif unit == "m":
            mi = _mag(rng, MAG_MI, max_days * 1440)
        else:
            s = _mag(rng, MAG_S, max_days * 86400)
    else:
        if rng.random() < 0.6:
            d = _mag(rng, MAG_D, max_days // 10)
        if rng.random() < 0.6:
            h = _mag(rng, MAG_H, 10000)
        if rng.random() < 0.6:
            mi = _mag(rng, MAG_MI, 100000)
        if rng.random() < 0.6:
            s = _mag(rng, MAG_S, 10000000)
    return ("U", 0, 0, d, h, mi, s)


def describe_tp(t):
    rep, y, a, b, hh, mi, ss, tzh, tzm = t
    if rep == "c":
        d = "%d-%02d-%02d" % (y, a, b)
    elif rep == "o":
        d = "%d-%03d" % (y, a)
    else:
        d = "%d-W%02d-%d" % (y, a, b)
    sign = "-" if (tzh < 0 or tzm < 0) else "+"
    return "%sT%02d:%02d:%02d%s%02d:%02d" % (d, hh, mi, ss, sign, abs(tzh), abs(tzm))


def boundary_class(m, t, t2=None):
    """Label for the distribution histogram: which boundaries an operation crossed."""
    if t2 is None:
        return t[0]
    n1 = oracle.date_day_num(m, date_of(t))
    try:
        n2 = oracle.date_day_num(m, date_of(t2))
    except Exception:
        return t[0] + "/?"
    labels = [t[0]]
    if n1 != n2:
        labels.append("day")
    y1 = oracle.year_of_day_num(m, n1)
    y2 = oracle.year_of_day_num(m, n2)
    if y1 != y2:
        labels.append("year")
    if (y1 <= 0) != (y2 <= 0):
        labels.append("year0")
    w1 = oracle.week_of_day_num(m, n1)[0]
    w2 = oracle.week_of_day_num(m, n2)[0]
    if w1 != w2:
        labels.append("weekyear")
    return "/".join(labels)


def tp_from_inst(m, instant, rep, tzh, tzm, use24=False):
    """The valid whole-second point in representation rep and offset (tzh, tzm) denoting
    `instant` (seconds since 0001-01-01T00:00Z); the 24:00 spelling if use24 and it is midnight."""
    local = instant + 3600 * tzh + 60 * tzm
    day, sod = divmod(local, 86400)
    hh, rem = divmod(sod, 3600)
    mi, ss = divmod(rem, 60)
    if use24 and sod == 0:
        day -= 1
        hh, mi, ss = 24, 0, 0
    if rep == "c":
        y, a, b = oracle.cal_of_day_num(m, day)
    elif rep == "o":
        y, a = oracle.ord_of_day_num(m, day)
        b = 0
    else:
        y, a, b = oracle.week_of_day_num(m, day)
    return (rep, y, a, b, hh, mi, ss, tzh, tzm)


def respell(rng, m, t, keep_rep=0.5):
    """The same instant written differently: another offset and possibly another representation (and the
    24:00 spelling when it is a midnight)."""
    tzh, tzm = gens.offset(rng)
    if (tzh, tzm) == (t[7], t[8]):
        tzh, tzm = rng.choice([(0, 0), (1, 0), (-1, 0), (5, 30), (0, -30), (13, 0), (-11, -45)])
    rep = t[0] if rng.random() < keep_rep else rng.choice("cow")
    return tp_from_inst(m, inst(m, t), rep, tzh, tzm, use24=rng.random() < 0.3)


EDGE_YEARS = [0, 1, -1, 2, 4, -4, 5, 100, -100, 400, -400, 1583, 1600, 1900, 1970, 1999, 2000, 2001, 2004, 2005,
              2020, 2021, 2100, 2400, 9999, 10000, -9999]


def gen_year_edge_tp(rng, m, year=None):
    """A valid point within two days of a year boundary (biased to the second either side of it, to the last /
    first days, to local midnights), in a random representation and offset; distinguished years (0, +-1, leap and
    century years, 1970, the four-digit limits) preferred."""
    y = year if year is not None else (rng.choice(EDGE_YEARS) if rng.random() < 0.8 else rng.randint(-3000, 12000))
    start = 86400 * oracle.dby(m, y)          # instant of y-01-01T00:00:00Z
    r = rng.random()
    if r < 0.45:
        delta = rng.choice([0, -1, 1, -60, 59, -3600, 3600, -86400, 86400, -86399, 86399, -86401, 43200, -43200])
    elif r < 0.7:
        delta = rng.choice([-1, 0, 1, 2, -2]) * 86400 + rng.choice([0, 0, 1, -1, 3599, 82800])
    else:
        delta = rng.randint(-2 * 86400, 2 * 86400)
    tzh, tzm = gens.offset(rng)
    local = rng.random() < 0.5      # the boundary in local time rather than in UTC
    inst_ = start + delta - ((3600 * tzh + 60 * tzm) if local else 0)
    return tp_from_inst(m, inst_, rng.choice("cow"), tzh, tzm, use24=rng.random() < 0.3)


def gen_year_edge_pair(rng, m):
    """Two points near (possibly different) year boundaries, and the exact duration (days, h, min, s) from the first
    to the second."""
    p = gen_year_edge_tp(rng, m)
    y2 = p[1] + rng.choice([0, 0, 1, -1, 1, -1, 2, -2, 4, -4, 100, -400, 400, 400, 800, -800, 1200, rng.randint(-30, 30)])
    q = gen_year_edge_tp(rng, m, year=y2)
    secs = inst(m, q) - inst(m, p)
    sg = 1 if secs >= 0 else -1
    a = abs(secs)
    r = rng.random()
    if r < 0.4:
        d = ("U", 0, 0, sg * (a // 86400), 0, 0, sg * (a % 86400))
    elif r < 0.7:
        d = ("U", 0, 0, sg * (a // 86400), sg * (a % 86400 // 3600), sg * (a % 3600 // 60), sg * (a % 60))
    elif r < 0.85:
        d = ("U", 0, 0, 0, sg * (a // 3600), 0, sg * (a % 3600))
    else:
        d = ("U", 0, 0, 0, 0, 0, secs)
    return p, q, d


def tp_sibling(pos, ymin=-9000, ymax=9000, keep_rep=0.5):
    """An `Op.sibling` that respells the time point at argument position `pos` (same instant, another offset
    and possibly representation), for ops whose first argument is the mode."""
    def sibling(self, a, rng):
        b = list(a)
        t = respell(rng, a[0], a[pos], keep_rep)
        if not ymin <= t[1] <= ymax:
            return []
        b[pos] = t
        return [tuple(b)]
    return sibling


OTHER_MODES = {"greg": ["d365", "d366", "d360"], "d360": ["greg", "d365"], "d365": ["greg", "d366"],
               "d366": ["greg", "d365"]}


DELTAS = [0, 1, -1, 59, 60, -60, 61, 3599, 3600, -3600, 3601, 86399, 86400, -86400, 86401,
          604800, 2678400, 31536000, -31536000, 31622400, 12622780800, -12622780800]


def gen_pair(rng, m, delta=None):
    """Two valid points (mixed representations / offsets / 24:00) at a chosen instant distance."""
    a = gen_tp(rng, m)
    if delta is None:
        r = rng.random()
        if r < 0.3:
            delta = 0
        elif r < 0.75:
            delta = rng.choice(DELTAS)
        elif r < 0.9:
            delta = rng.randint(-200000, 200000)
        else:
            delta = rng.randint(-10 ** 11, 10 ** 11)
    tzh, tzm = gens.offset(rng)
    r2 = rng.random()
    if r2 < 0.25:
        tzh, tzm = a[7], a[8]
    elif r2 < 0.37:
        tzh, tzm = gens.offset_near(rng, (a[7], a[8]))      # an hour / a minute away, or mirrored
    elif r2 < 0.45:
        # offsets at opposite ends of the legal range: the local dates of near instants lie up to nine days
        # apart; both operands in the same representation as often as not
        (h1, m1), (tzh, tzm) = gens.offsets_far_apart(rng)
        a = tp_from_inst(m, inst(m, a), a[0], h1, m1, use24=rng.random() < 0.2)
        if rng.random() < 0.6:
            b = tp_from_inst(m, inst(m, a) + delta, a[0], tzh, tzm, use24=rng.random() < 0.3)
            return (a, b) if rng.random() < 0.5 else (b, a)
    b = tp_from_inst(m, inst(m, a) + delta, rng.choice("cow"), tzh, tzm,
                     use24=rng.random() < 0.5)
    if rng.random() < 0.5:
        return a, b
    return b, a


def sign(x):
    return (x > 0) - (x < 0)
