"""C08 — writing a time point out and reading it back is lossless.

For points built directly with `TimePoint(...)` (three date representations, expanded and negative
years, 24:00, every offset, decimal hour / minute / second forms of at most six digits):

  tround  text = str(p); q = TimePointParser(num_expanded_year_digits=p's).parse(text):
          q must carry exactly p's fields (same representation, offset, values), compare equal to p
          (both operand orders), and str(q) == text;
  tdump   text = TimePointDumper(...).dump(p, format) for custom formats made of a complete date (any
          of the six complete spellings, with or without the expanded-year prefix), the time down to
          p's precision and a zone (Z, +hh:mm, +hhmm, +hh when it loses nothing, or a literal offset);
          the text must parse back to an equal instant carrying the zone the format spells.

Both are answered by the Lean model as well (`IsoDT.Text.str`, `dump`, `parse`; driver ops of the same
names, protocol in props/c07.py), and judged by the oracle from the field values the generator chose:
the expected text of `str` is formatted here, independently of the dumper's tables.
"""
from fractions import Fraction

import oracle
import gens
from engine import Op, set_mode, canon_exc
from props import c07
from props.c07 import enc, dec, cfg_tokens, canon_point, get_parser, local_zone

PROP = "C08"
QUICK_BOOST = 2
LEAN_MODULES = ["IsoDT.Props.C08", "IsoDT.Props.C08b", "IsoDT.Props.C08c", "IsoDT.Props.C08d"]
TRUSTED_EXTRA = c07.TRUSTED_EXTRA
RULE = ("points in all three representations x whole-second / decimal hour, minute, second forms (1-6 "
        "digits) x 24:00 x offsets from the boundary list and uniform in -99:59..+99:59 x years at the "
        "ends of the agreed range (0, 9999, +-999999 with two expanded digits, +-9999999 with three) and "
        "just outside it; custom complete formats (6 date spellings x basic/extended x zone spellings "
        "incl. literal offsets); non-trivial unless year in 1000..9999, offset Z, whole seconds; distinct "
        "by (op, arguments)")
ASSUMPTIONS = [
    "the property's domain is years within the agreed digits: 0..9999 without expanded digits (negative "
    "years raise OverflowError in str), |year| < 10^(4+n) with n expanded digits; outside it "
    "implementation and model are only compared with each other",
    "fractions of at most six digits (the dumper's precision); the float the implementation keeps is "
    "compared through its exact value rounded to 12 places",
    "custom formats: re-zoning a decimal-form point to a literal offset is float arithmetic and is judged "
    "by the oracle only (within 1 microsecond), not by the model",
]

# ---------------------------------------------------------------------------
# points: (ned, rep, y, a, b, h, mi, s, unit, digits, tzh, tzm); unit in '', 'h', 'm', 's'

YEARS = {0: [0, 1, 4, 99, 100, 400, 999, 1000, 1582, 1900, 1999, 2000, 2004, 2024, 2100, 2400, 9996, 9999],
         2: [0, 1, -1, 4, -4, 100, -100, 400, -400, 2000, -2000, 9999, -9999, 10000, -10000, 12000, 99999,
             400000, -400000, 999996, 999999, -999999],
         3: [0, -1, 400, -400, 2000, 9999, 10000, -10000, 999999, 1000000, -1000000, 4000000, 9999996,
             9999999, -9999999]}
OUTSIDE = {0: [10000, 12345, -1, -2000, 99999], 2: [1000000, -1000000, 1234567], 3: [10000000, -10000000]}


def gen_point(rng, m, ned=None, decimals=True, outside=0.04):
    if ned is None:
        ned = rng.choice([0, 0, 2, 2, 3])
    r = rng.random()
    if r < outside:
        y = rng.choice(OUTSIDE[ned])
    elif r < 0.6:
        y = rng.choice(YEARS[ned])
    elif r < 0.9 or ned == 0:
        y = rng.randint(0, 9999)
    else:
        top = 10 ** (4 + ned) - 1
        y = rng.randint(-top, top)
    date = gens.any_date(rng, m, y=y)
    rep = date[0]
    a = date[2]
    b = date[3] if rep != "o" else 0
    hh, mi, ss = gens.hms(rng, True)
    unit, digits = "", ""
    if decimals and rng.random() < 0.35:
        unit = rng.choice("hms")
        digits = c07.pick_decimals(rng, allow_long=False)
        if hh == 24:
            digits = "0" * len(digits) if rng.random() < 0.5 else digits
            if set(digits) - {"0"}:
                hh = 23
        if unit == "h":
            mi = ss = None
        elif unit == "m":
            ss = None
    tzh, tzm = gens.offset(rng)
    return (ned, rep, y, a, b, hh, mi, ss, unit, digits, tzh, tzm)


def mk_point(pt):
    from metomi.isodatetime.data import TimePoint
    ned, rep, y, a, b, hh, mi, ss, unit, digits, tzh, tzm = pt
    kw = dict(num_expanded_year_digits=ned, year=y, hour_of_day=hh, time_zone_hour=tzh, time_zone_minute=tzm)
    if mi is not None:
        kw["minute_of_hour"] = mi
    if ss is not None:
        kw["second_of_minute"] = ss
    if unit:
        name = {"h": "hour_of_day_decimal", "m": "minute_of_hour_decimal", "s": "second_of_minute_decimal"}[unit]
        kw[name] = float("0." + digits)
    if rep == "c":
        kw.update(month_of_year=a, day_of_month=b)
    elif rep == "o":
        kw.update(day_of_year=a)
    else:
        kw.update(week_of_year=a, day_of_week=b)
    return TimePoint(**kw)


def point_fields(pt):
    """Arguments of c07.point_string for the point itself."""
    ned, rep, y, a, b, hh, mi, ss, unit, digits, tzh, tzm = pt
    mo = d = doy = w = dow = None
    if rep == "c":
        mo, d = a, b
    elif rep == "o":
        doy = a
    else:
        w, dow = a, b
    hour = (hh, digits) if unit == "h" else hh
    minute = (mi, digits) if unit == "m" else mi
    second = (ss, digits) if unit == "s" else ss
    return (ned, y, mo, d, doy, w, dow, hour, minute, second, (tzh, tzm), False, False, "_", None)


def read_back_fields(pt):
    """The fields str(p) must parse back to: p's own, a zero fraction of a second being no fraction."""
    f = list(point_fields(pt))
    if pt[8] == "s" and not set(pt[9]) - {"0"}:
        f[9] = pt[7]
    return tuple(f)


def point_tokens(pt):
    return c07.point_string(*point_fields(pt))[2:]


def in_range(pt):
    ned, y = pt[0], pt[2]
    if ned == 0:
        return 0 <= y <= 9999
    return abs(y) < 10 ** (4 + ned)


def expected_str(pt):
    """What str(p) must be for a point in range (the documented default forms)."""
    ned, rep, y, a, b, hh, mi, ss, unit, digits, tzh, tzm = pt
    ys = "%0*d" % (4 + ned, abs(y))
    if ned:
        ys = ("-" if y < 0 else "+") + ys
    if rep == "c":
        ds = "-%02d-%02d" % (a, b)
    elif rep == "o":
        ds = "-%03d" % a
    else:
        ds = "-W%02d-%d" % (a, b)
    frac = digits.rstrip("0") or "0"
    if unit == "h":
        ts = "T%02d,%s" % (hh, frac)
    elif unit == "m":
        ts = "T%02d:%02d,%s" % (hh, mi, frac)
    else:
        ts = "T%02d:%02d:%02d" % (hh, mi, ss)
        if unit == "s" and set(digits) - {"0"}:
            ts += "," + frac
    if (tzh, tzm) == (0, 0):
        zs = "Z"
    else:
        zs = "%s%02d:%02d" % ("-" if (tzh < 0 or tzm < 0) else "+", abs(tzh), abs(tzm))
    return ys + ds + ts + zs


def parse_point(canon):
    """Fields of a canonical point string: dict with Fractions for the time units."""
    f = canon.split()
    assert f[0] == "P" and len(f) == 17

    def opt(x):
        return None if x == "_" else int(x)

    def unit(x):
        if x == "_":
            return None
        if "+" in x:
            whole, digits = x.split("+")
            return int(whole) + Fraction(int(digits), 10 ** len(digits))
        return Fraction(int(x))
    return {"ned": int(f[1]), "year": opt(f[2]), "month": opt(f[3]), "day": opt(f[4]), "doy": opt(f[5]),
            "week": opt(f[6]), "dow": opt(f[7]), "hour": unit(f[8]), "minute": unit(f[9]),
            "second": unit(f[10]), "tz": (int(f[11]), int(f[12])), "unk": f[13] == "1",
            "trunc": f[14] == "1"}


def instant_of_fields(m, q):
    if q["month"] is not None:
        date = ("c", q["year"], q["month"], q["day"])
    elif q["doy"] is not None:
        date = ("o", q["year"], q["doy"])
    else:
        date = ("w", q["year"], q["week"], q["dow"])
    if not oracle.date_valid(m, date):
        return None
    return oracle.inst(m, date, q["hour"] or 0, q["minute"] or 0, q["second"] or 0, *q["tz"])


def instant_of_point(m, pt):
    ned, rep, y, a, b, hh, mi, ss, unit, digits, tzh, tzm = pt
    date = ("o", y, a) if rep == "o" else (rep, y, a, b)
    frac = Fraction(int(digits), 10 ** len(digits)) if unit else 0
    h = hh + (frac if unit == "h" else 0)
    mins = (mi or 0) + (frac if unit == "m" else 0)
    secs = (ss or 0) + (frac if unit == "s" else 0)
    return oracle.inst(m, date, h, mins, secs, tzh, tzm)


def describe(pt):
    return "TimePoint(%s)" % ", ".join("%s=%r" % kv for kv in zip(
        ("num_expanded_year_digits", "rep", "year", "a", "b", "hour", "minute", "second", "decimal_unit",
         "decimal_digits", "tz_hour", "tz_minute"), pt))


class Round(Op):
    """str(p) parsed back."""
    prop = PROP
    name = "tround"
    shard = None

    def gen(self, rng, tier, boost):
        n = (7000 if tier == "quick" else 40000) * boost
        for _ in range(n):
            m = gens.mode(rng)
            pt = gen_point(rng, m)
            cfg = (pt[0], False, rng.random() < 0.3, rng.choice(c07.CFG_ZONES))
            yield (m, cfg, pt)
        # all offsets (thorough), every year end of the range in every representation
        if tier != "quick":
            alloffs = [(h, mi) for h in range(-99, 100) for mi in range(-59, 60) if oracle.tz_valid(h, mi)]
            for k, (h, mi) in enumerate(gens.shard_filter(alloffs, self.shard)):
                m = oracle.MODES[k % 4]
                pt = gen_point(rng, m, decimals=False, outside=0)
                yield (m, (pt[0], False, False, ("u",)), pt[:10] + (h, mi))
        # the smallest and largest six-digit fractions on every whole value of their unit (whether a fraction is
        # printed must not depend on the size of the number it is attached to)
        for unit, top in (("s", 60), ("m", 60), ("h", 24)):
            for v in gens.shard_filter(list(range(top)), self.shard):
                band = ["00000%d" % k for k in range(1, 10)] + ["99999%d" % k for k in range(10)] + \
                    ["499999", "500000", "500001", "000010", "5", "1", "99999", "9999", "000099"]
                # (the whole band next to 0 and next to 1: where "would round up to the next unit" guards sit)
                picks = band if tier != "quick" else ["000001", "999999", "1"] + rng.sample(band, 5)
                for digits in picks:
                    hh, mi, ss = (rng.randint(0, 23), rng.randint(0, 59), v) if unit == "s" else \
                        ((rng.randint(0, 23), v, None) if unit == "m" else (v, None, None))
                    pt = (0, "c", 2021, 3, 9, hh, mi, ss, unit, digits, *rng.choice([(0, 0), (5, 30), (-3, -30)]))
                    yield ("greg", (0, False, False, ("a", 0, 0)), pt)
        for ned in (0, 2, 3):
            for y in YEARS[ned] + OUTSIDE[ned]:
                for rep in "cow":
                    date = gens.any_date(rng, "greg", y=y, rep=rep)
                    pt = (ned, rep, y, date[2], date[3] if rep != "o" else 0, rng.choice([0, 23, 24]), 0, 0, "",
                          "", *rng.choice(gens.OFFSETS))
                    yield ("greg", (ned, False, False, ("a", 0, 0)), pt)

    def line(self, a):
        return "tround %s %s %s" % (a[0], cfg_tokens(a[1]), point_tokens(a[2]))

    def impl(self, a):
        m, cfg, pt = a
        set_mode(m)
        p = mk_point(pt)
        text = str(p)
        try:
            with local_zone(cfg[3]):
                q = get_parser(cfg).parse(text)
        except Exception as exc:  # noqa
            return enc(text) + " | " + canon_exc(exc)
        out = enc(text) + " | " + canon_point(q)
        if not (q == p and p == q):
            out += " NOT-EQUAL"
        if hash(q) != hash(p):
            out += " HASH-DIFFERS"
        if str(q) != text:
            out += " STR-NOT-FIXPOINT"
        return out

    def oracle(self, a, out):
        m, cfg, pt = a
        what = "%s in %s" % (describe(pt), m)
        if not in_range(pt):
            return None
        if " | " not in out:
            return "%s: str / parse failed: %s" % (what, out)
        text, _, rest = out.partition(" | ")
        text = dec(text)
        want = expected_str(pt)
        if text != want:
            return "%s: str() is %r, the default form is %r" % (what, text, want)
        back = c07.point_string(*read_back_fields(pt))
        parts = rest.split(" ")
        got = " ".join(parts[:17])
        flags = parts[17:]
        if got != back:
            return "%s: str() = %r parses back to %s, not to the point's own fields %s" % (what, text, got, back)
        if flags:
            return "%s: str() = %r parsed back: %s" % (what, text, " ".join(flags))

    def label(self, a):
        m, cfg, pt = a
        return "tround/ned%d/%s/%s/%s%s" % (
            pt[0], pt[1], pt[8] or "whole", "outside" if not in_range(pt) else ("neg" if pt[2] < 0 else "in"),
            "/24:00" if pt[5] == 24 else "")

    def nontrivial(self, a):
        pt = a[2]
        return not (1000 <= pt[2] <= 9999 and (pt[10], pt[11]) == (0, 0) and not pt[8])


DATE_FORMATS = {"extended": ["CCYY-MM-DD", "CCYY-DDD", "CCYY-Www-D"], "basic": ["CCYYMMDD", "CCYYDDD", "CCYYWwwD"]}
ZONE_LITERALS = [(0, 0), (5, 30), (-3, -30), (0, -30), (0, 45), (12, 0), (-12, 0), (1, 0), (-1, 0), (13, 45),
                 (23, 59), (-23, -59), (9, 30), (-8, 0)]


def rep_of_format(fmt):
    if "W" in fmt:
        return "w"
    return "o" if "DDD" in fmt else "c"


class Custom(Op):
    """dump(p, custom complete format) parsed back."""
    prop = PROP
    name = "tdump"
    shard = None
    model = True

    def year_boundary_point(self, rng, m):
        """A whole-second point within a few days of 1 January, late or early in the day, so that a
        literal zone in the format moves it across midnight (and possibly across the calendar- or
        week-year boundary), in any of the three representations."""
        ned = rng.choice([0, 0, 2])
        y = rng.choice([1, 4, 1999, 2000, 2004, 2005, 2009, 2010, 2015, 2016, 2020, 2021, 2025, 2026, 9998])
        n = oracle.dby(m, y) + rng.randint(-5, 4)
        rep = rng.choice("cow")
        if rep == "c":
            yy, a, b = oracle.cal_of_day_num(m, n)
        elif rep == "o":
            (yy, a), b = oracle.ord_of_day_num(m, n), 0
        else:
            yy, a, b = oracle.week_of_day_num(m, n)
        hh = rng.choice([0, 0, 1, 2, 21, 22, 23, 23])
        tz = rng.choice([(0, 0), (0, 0), (1, 0), (-1, 0), (5, 30), (-3, -30), (12, 0), (-11, 0)])
        return (ned, rep, yy, a, b, hh, rng.choice([0, 30, 59]), rng.choice([0, 59]), "", "", tz[0], tz[1])

    def gen(self, rng, tier, boost):
        n = (5000 if tier == "quick" else 30000) * boost
        nb = n // 5 if self.model else 0
        for k in range(n + nb):
            m = gens.mode(rng)
            if k >= n:
                pt = self.year_boundary_point(rng, m)
            else:
                pt = gen_point(rng, m, decimals=self.model is False or rng.random() < 0.25)
            ned = pt[0]
            fk = rng.choice(["extended", "basic"])
            dfmt = rng.choice(DATE_FORMATS[fk])
            # the expanded-year token only with a dumper that has expanded digits (with none, `X` prints a
            # single "0"-padded digit that no parser configuration reads back: outside the property)
            if ned and (rng.random() < 0.7 or not 0 <= pt[2] <= 9999 and rng.random() < 0.8):
                dfmt = "+X" + dfmt
            unit = pt[8]
            sep = rng.choice(",.")
            if fk == "extended":
                tfmt = {"": "hh:mm:ss", "h": "hh" + sep + "ii", "m": "hh:mm" + sep + "nn",
                        "s": "hh:mm:ss" + sep + "tt"}[unit]
            else:
                tfmt = {"": "hhmmss", "h": "hh" + sep + "ii", "m": "hhmm" + sep + "nn",
                        "s": "hhmmss" + sep + "tt"}[unit]
            r = rng.random()
            tz = (pt[10], pt[11])
            if r < 0.3:
                zfmt, ztz = ("+hh:mm" if fk == "extended" else "+hhmm"), tz
            elif r < 0.45:
                zfmt, ztz = "Z", (0, 0)
            elif r < 0.55 and tz[1] == 0:
                zfmt, ztz = "+hh", tz
            else:
                ztz = rng.choice(ZONE_LITERALS) if rng.random() < 0.8 else gens.offset(rng)
                if abs(ztz[0]) > 23 and rng.random() < 0.8:
                    ztz = (ztz[0] % 24 if ztz[0] > 0 else -((-ztz[0]) % 24), ztz[1])
                sg = "-" if (ztz[0] < 0 or ztz[1] < 0) else "+"
                style = rng.choice(["hh:mm", "hhmm", "hh"]) if fk == "extended" else rng.choice(["hhmm", "hh"])
                if fk == "extended" and style == "hhmm":
                    style = "hh:mm"
                if style == "hh":
                    ztz = (ztz[0], 0)
                    sg = "-" if ztz[0] < 0 else "+"
                    zfmt = "%s%02d" % (sg, abs(ztz[0]))
                elif style == "hhmm":
                    zfmt = "%s%02d%02d" % (sg, abs(ztz[0]), abs(ztz[1]))
                else:
                    zfmt = "%s%02d:%02d" % (sg, abs(ztz[0]), abs(ztz[1]))
            if unit and ztz != tz:
                # re-zoning a decimal-form point is float arithmetic: oracle only
                if self.model:
                    continue
            elif not self.model and not unit:
                continue
            fmt = dfmt + "T" + tfmt + zfmt
            cfg = (ned if ned else rng.choice([0, 2]), False, rng.random() < 0.2, rng.choice(c07.CFG_ZONES))
            yield (m, cfg, pt, fmt, ztz)

    def line(self, a):
        return "tdump %s %s %s %s" % (a[0], cfg_tokens(a[1]), point_tokens(a[2]), enc(a[3]))

    _dumpers = {}

    def impl(self, a):
        from metomi.isodatetime.dumpers import TimePointDumper
        m, cfg, pt, fmt, ztz = a
        set_mode(m)
        p = mk_point(pt)
        if pt[0] not in self._dumpers:
            self._dumpers[pt[0]] = TimePointDumper(num_expanded_year_digits=pt[0])
        text = self._dumpers[pt[0]].dump(p, fmt)
        try:
            with local_zone(cfg[3]):
                q = get_parser(cfg).parse(text)
        except Exception as exc:  # noqa
            return enc(text) + " | " + canon_exc(exc)
        out = enc(text) + " | " + canon_point(q)
        if not self.model:
            return out
        if not (q == p and p == q):
            out += " NOT-EQUAL"
        if hash(q) != hash(p):
            out += " HASH-DIFFERS"
        return out

    def oracle(self, a, out):
        m, cfg, pt, fmt, ztz = a
        what = "%s dumped as %r in %s" % (describe(pt), fmt, m)
        ned, y = pt[0], pt[2]
        if " | " not in out:
            # legitimately refused: the year (after conversion / re-zoning) does not fit the format's digits
            return None if out == "err" and self.may_overflow(m, pt, fmt, ztz) else (
                "%s failed: %s" % (what, out))
        text, _, rest = out.partition(" | ")
        text = dec(text)
        parts = rest.split(" ")
        if len(parts) < 17 or parts[0] != "P":
            if self.may_overflow(m, pt, fmt, ztz):
                if not pt[8]:
                    return ("%s printed %r although the year of the re-zoned point does not fit the format's digits "
                            "(a bounds error is due; the text does not parse back: %s)" % (what, text, rest))
                return None
            return "%s gave %r, which does not parse back (%s)" % (what, text, rest)
        q = parse_point(" ".join(parts[:17]))
        want = instant_of_point(m, pt)
        got = instant_of_fields(m, q)
        if got is None:
            return "%s gave %r, which parses back to an invalid date %s" % (what, text, rest)
        # a re-zoned decimal form is re-spelled with six digits of its own unit
        tol = 0
        if pt[8] and tuple(ztz) != (pt[10], pt[11]):
            tol = Fraction({"h": 3600, "m": 60, "s": 1}[pt[8]], 10 ** 6)
        if abs(got - want) > tol:
            return "%s gave %r = a different instant (off by %s s)" % (what, text, float(got - want))
        if q["tz"] != tuple(ztz):
            return "%s gave %r carrying offset %s, the format spells %s" % (what, text, q["tz"], tuple(ztz))
        rep = "c" if q["month"] is not None else ("o" if q["doy"] is not None else "w")
        if rep != rep_of_format(fmt):
            return "%s gave %r in representation %s" % (what, text, rep)
        if parts[17:]:
            return "%s gave %r, parsed back: %s" % (what, text, " ".join(parts[17:]))

    @staticmethod
    def may_overflow(m, pt, fmt, ztz):
        """Does the year the format has to print - the calendar year, or the week-year for a week format, of the
        point RE-ZONED to the format's zone - fall outside the format's digits, so that a refusal is the right
        answer (and a printed text is not)?  Exact for whole-second points; for decimal forms (float domain) within
        a day of a year boundary either outcome is tolerated."""
        ned, rep, y, a, b, hh, mi, ss, unit, digits, tzh, tzm = pt
        if "X" in fmt and ned == 0:
            return True
        width = 4 + (ned if "X" in fmt else 0)
        lo = -(10 ** width - 1) if "X" in fmt and ned else 0
        hi = 10 ** width - 1
        local = instant_of_point(m, pt) + 3600 * ztz[0] + 60 * ztz[1]
        day = local // 86400
        if hh == 24 and tuple(ztz) == (tzh, tzm):
            day -= 1          # 24:00 is kept as written when the zone does not change
        frep = rep_of_format(fmt)

        def year_of(dn):
            return oracle.week_of_day_num(m, dn)[0] if frep == "w" else oracle.cal_of_day_num(m, dn)[0]
        yr = year_of(int(day))
        if unit:
            years = {year_of(int(day) - 1), yr, year_of(int(day) + 1)}
            return not all(lo <= v <= hi for v in years)
        return not lo <= yr <= hi

    def label(self, a):
        m, cfg, pt, fmt, ztz = a
        zone = "Z" if fmt.endswith("Z") else ("sym" if fmt.endswith(("+hh:mm", "+hhmm", "+hh")) else "literal")
        return "%s/ned%d/%s/%s/%s" % (self.name, pt[0], "same-rep" if pt[1] == rep_of_format(fmt) else "converted",
                                      pt[8] or "whole", zone)


class CustomFloat(Custom):
    """Decimal-form points re-zoned by a literal offset: float arithmetic, oracle only."""
    name = "tdumpf"
    model = False

    def gen(self, rng, tier, boost):
        k = 0
        for case in Custom.gen(self, rng, tier, boost):
            k += 1
            if k > (800 if tier == "quick" else 5000) * boost:
                break
            yield case

    def line(self, a):
        return "tdumpf " + Custom.line(self, a)[6:]


def ops():
    import common
    common.foreign_configurations()
    return [Round(), Custom(), CustomFloat()]
