"""C17 — strftime matches POSIX for the supported directives and strptime inverts it.

Driver protocol (lean/IsoDT/Driver/Strftime.lean): strings travel hex-encoded, two lower-case hex digits
per ASCII character and `-` for the empty string, so a token never contains a space.

    strftime <mode> <tp> <fmt>                                           -> ok <text> | err:<kind>
    strptime <mode> <loc h> <loc m> <assumed h|_> <assumed m|_> <unk> <data> <fmt>  -> ok <tp> | err:<kind>
    strfp    <mode> <loc h> <loc m> <assumed h|_> <assumed m|_> <unk> <tp> <fmt>
                                                -> <strftime answer> > <strptime of that text, same format>

<kind>: syntax (StrftimeSyntaxError) | bounds (TimePointDumperBoundsError) | conv
(StrptimeConversionError) | bad (BadInputError) | value (any other ValueError).  Anything that is not a
ValueError is reported as EXC:<class> and is a violation of the property's last clause.

Domain of the generated formats: printable ASCII; literal text never contains `%` (a `%` that is not
followed by a word character is handed to Python's `%` operator by the dumper: outside the property's
"supported directives and literal text"); data strings never end in a newline.
"""
import datetime
import re

import oracle
import gens
import tpcommon as T
import engine
from engine import Op, set_mode

PROP = "C17"
LEAN_MODULES = ["IsoDT.Props.C17", "IsoDT.Props.C17b"]
REQUIRED_THEOREMS = [
    "IsoDT.Props.C17.C17_strftime", "IsoDT.Props.C17.C17_unix", "IsoDT.Props.C17.C17_strptime",
    "IsoDT.Props.C17.C17_defaults", "IsoDT.Props.C17.C17_unsupported",
]
RULE = ("points in 3 representations x any offset x 24:00, years biased to 0000-9999 and its edges (0, 1, 99, "
        "100, 999, 1000, 1969-1971, 9999, week-year != calendar-year days) plus a few outside; formats = random "
        "sequences over the 11 directives and literal text (incl. regex metacharacters, digits next to "
        "directives); separate streams for every other %-letter, duplicated fields, partial formats (defaults), "
        "malformed and out-of-range data; %s with the process-local zone patched to boundary offsets; "
        "non-trivial when the civil year differs from the stored year, the offset is negative or the format "
        "is partial; distinct by (op, arguments)")
ASSUMPTIONS = [
    "formats and data are printable ASCII; literal text contains no '%' (the dumper hands a stray '%' to "
    "Python's % operator: '%%' happens to print '%', '%%Y' prints garbage, '100%' raises a bare ValueError) and "
    "data has no trailing newline (the parser's '$' would accept one)",
    "the process-local zone is a parameter (metomi.isodatetime.timezone.get_local_time_zone is patched)",
    "CPython's str %, int(), float() on whole numbers below 2**53 and re are trusted; %s texts with a fractional "
    "part are only exercised with at most six decimals",
    "24:00:00 has no POSIX counterpart: it is printed as hour 24 of the stored day and read back as such",
    "'determines a full date, time and zone' is read as: each of year, month, day / day-of-year, hour, minute, "
    "second, zone named exactly once (month+day or day-of-year, not both), or %s as the only directive",
]

# -- self-registration of the table generator (translate.GENERATORS is not ours to edit) -------------------
try:
    import translate as _translate
    import gen_strftime as _gen_strftime
    _translate.GENERATORS.setdefault("Strftime", _gen_strftime.gen_strftime)
except Exception:  # pragma: no cover - the check then reports the translator as broken
    pass

SUPPORTED = "YmdjHMSFXzs"
WORD = "abcdefghijklmnopqrstuvwxyzABCDEFGHIJKLMNOPQRSTUVWXYZ0123456789_"
UNSUPPORTED = [c for c in WORD if c not in SUPPORTED]
#: which fields a directive names
FIELDS = {"Y": ["year"], "m": ["month"], "d": ["day"], "j": ["yday"], "H": ["hour"], "M": ["minute"],
          "S": ["second"], "F": ["year", "month", "day"], "X": ["hour", "minute", "second"], "z": ["zone"],
          "s": ["unix"]}
LITERALS = ["-", ":", "T", " ", "/", ".", ",", "_", "+", "(", ")", "[", "]", "{", "}", "*", "?", "^", "$", "|",
            "\\", "#", "'", "\"", "a", "Z", "W", "x", "0", "7", "12", "at ", " UTC", "=>", "~", "!", "&", ";",
            "<", ">", "@", "`"]


def hx(s):
    if s == "":
        return "-"
    return "".join("%02x" % ord(c) for c in s)


def unhx(s):
    if s == "-":
        return ""
    return "".join(chr(int(s[i:i + 2], 16)) for i in range(0, len(s), 2))


def show(out):
    """Readable form of a canonical answer (for messages)."""
    parts = []
    for tok in out.split(" "):
        if tok and all(c in "0123456789abcdef" for c in tok) and len(tok) % 2 == 0 and parts and parts[-1] == "ok":
            parts.append(repr(unhx(tok)))
        else:
            parts.append(tok)
    return " ".join(parts)


def classify(exc):
    from metomi.isodatetime import exceptions as ex
    if isinstance(exc, engine.OpTimeout):
        raise exc
    if not isinstance(exc, ValueError):
        return "EXC:" + type(exc).__name__
    if isinstance(exc, ex.StrftimeSyntaxError):
        return "err:syntax"
    if isinstance(exc, ex.TimePointDumperBoundsError):
        return "err:bounds"
    if isinstance(exc, ex.StrptimeConversionError):
        return "err:conv"
    if isinstance(exc, ex.BadInputError):
        return "err:bad"
    if isinstance(exc, ex.IsodatetimeError):
        return "err:" + type(exc).__name__
    return "err:value"


# ---------------------------------------------------------------------------------------------------------
# the property's own reading, independent of the library and of the Lean model

def split_format(fmt):
    """[('lit', ch) | ('dir', letter)] under POSIX scanning: '%' + a letter/digit/underscore is a directive."""
    items = []
    i = 0
    while i < len(fmt):
        if fmt[i] == "%" and i + 1 < len(fmt) and fmt[i + 1] in WORD:
            items.append(("dir", fmt[i + 1]))
            i += 2
        else:
            items.append(("lit", fmt[i]))
            i += 1
    return items


def directives(fmt):
    return [c for k, c in split_format(fmt) if k == "dir"]


def field_counts(fmt):
    counts = {}
    for c in directives(fmt):
        for f in FIELDS.get(c, []):
            counts[f] = counts.get(f, 0) + 1
    return counts


def determined(fmt):
    dirs = directives(fmt)
    if any(c not in SUPPORTED for c in dirs):
        return False
    n = field_counts(fmt)
    if any(v > 1 for v in n.values()):
        return False
    if n.get("unix"):
        return len(dirs) == 1
    if not all(n.get(f) == 1 for f in ("year", "hour", "minute", "second", "zone")):
        return False
    caldate = n.get("month") == 1 and n.get("day") == 1 and not n.get("yday")
    orddate = n.get("yday") == 1 and not n.get("month") and not n.get("day")
    return caldate or orddate


def epoch_day(m):
    return oracle.day_num_cal(m, 1970, 1, 1)


def civil(m, t):
    """The civil (calendar) date-time fields of a protocol point, by the calendar definition."""
    n = oracle.date_day_num(m, T.date_of(t))
    y, mo, d = oracle.cal_of_day_num(m, n)
    return {"year": y, "month": mo, "day": d, "yday": n - oracle.dby(m, y) + 1,
            "hour": t[4], "minute": t[5], "second": t[6], "off": 60 * t[7] + t[8],
            "unix": T.inst(m, t) - 86400 * epoch_day(m)}


def posix_field(c, civ):
    if c == "Y":
        return "%04d" % civ["year"]
    if c == "m":
        return "%02d" % civ["month"]
    if c == "d":
        return "%02d" % civ["day"]
    if c == "j":
        return "%03d" % civ["yday"]
    if c == "H":
        return "%02d" % civ["hour"]
    if c == "M":
        return "%02d" % civ["minute"]
    if c == "S":
        return "%02d" % civ["second"]
    if c == "F":
        return "%04d-%02d-%02d" % (civ["year"], civ["month"], civ["day"])
    if c == "X":
        return "%02d:%02d:%02d" % (civ["hour"], civ["minute"], civ["second"])
    if c == "z":
        off = civ["off"]
        return "%s%02d%02d" % ("-" if off < 0 else "+", abs(off) // 60, abs(off) % 60)
    if c == "s":
        return str(civ["unix"])
    raise KeyError(c)


def posix(fmt, civ):
    return "".join(ch if k == "lit" else posix_field(ch, civ) for k, ch in split_format(fmt))


def datetime_reference(fmt, t):
    """What CPython's datetime prints for the same civil date-time (Gregorian, years 1..9999, legal
    datetime offsets), directive by directive; None where datetime is not defined."""
    civ = civil("greg", t)
    if not (1 <= civ["year"] <= 9999 and civ["hour"] < 24 and abs(civ["off"]) < 1440):
        return None
    tz = datetime.timezone(datetime.timedelta(minutes=civ["off"]))
    dt = datetime.datetime(civ["year"], civ["month"], civ["day"], civ["hour"], civ["minute"], civ["second"],
                           tzinfo=tz)
    out = []
    for k, ch in split_format(fmt):
        if k == "lit":
            out.append(ch)
        elif ch == "Y":
            out.append(dt.strftime("%Y").rjust(4, "0"))      # glibc does not pad years below 1000
        elif ch == "F":
            out.append(dt.strftime("%Y").rjust(4, "0") + dt.strftime("-%m-%d"))
        elif ch == "s":
            delta = dt - datetime.datetime(1970, 1, 1, tzinfo=datetime.timezone.utc)
            out.append(str(delta.days * 86400 + delta.seconds))
        elif ch == "X":
            out.append(dt.strftime("%H:%M:%S"))                # %X in the POSIX locale
        elif ch in "mdjHMSz":
            out.append(dt.strftime("%" + ch))
        else:
            return None
    return "".join(out)


WIDTHS = {"Y": [("year", 4)], "m": [("month", 2)], "d": [("day", 2)], "j": [("yday", 3)], "H": [("hour", 2)],
          "M": [("minute", 2)], "S": [("second", 2)],
          "F": [("year", 4), "-", ("month", 2), "-", ("day", 2)],
          "X": [("hour", 2), ":", ("minute", 2), ":", ("second", 2)],
          "z": [("sign", 1), ("zh", 2), ("zm", 2)], "s": [("unix", None)]}


def read_fields(fmt, data):
    """Independent reading of `data` under `fmt`: dict of captured texts, or None if it does not fit.
    Every conversion but %s has a fixed width, so an anchored reading is unique."""
    elems = []
    for k, ch in split_format(fmt):
        if k == "lit":
            elems.append(ch)
        else:
            elems.extend(WIDTHS[ch])
    fixed = sum(1 if isinstance(e, str) else (e[1] or 0) for e in elems)
    nvar = sum(1 for e in elems if not isinstance(e, str) and e[1] is None)
    if nvar > 1 or len(data) < fixed:
        return None
    pos = 0
    got = {}
    for e in elems:
        if isinstance(e, str):
            if data[pos:pos + 1] != e:
                return None
            pos += 1
            continue
        name, width = e
        if width is None:
            width = len(data) - fixed
        text = data[pos:pos + width]
        pos += width
        if name == "sign":
            if text not in ("+", "-"):
                return None
        elif name == "unix":
            if not re.fullmatch(r"-?[0-9]+", text):
                # the library also admits a decimal part; the property says nothing about such texts
                got["unix-extended"] = bool(re.fullmatch(r"-?[0-9]+[,.][0-9]*", text))
                if not got["unix-extended"]:
                    return None
        else:
            if len(text) != width or not all(c in "0123456789" for c in text):
                return None
        got[name] = text
    if pos != len(data):
        return None
    return got


def expected_parse(m, loc, assumed, unk, fmt, data):
    """What the property requires of strptime(data, fmt): ('ok', tuple) | ('err', reason) |
    ('any', reason) where the property does not say."""
    dirs = directives(fmt)
    if any(c not in SUPPORTED for c in dirs):
        return ("err:syntax", "the format has a directive outside the supported set")
    n = field_counts(fmt)
    if any(v > 1 for v in n.values()):
        return ("err", "the format names a field twice")
    got = read_fields(fmt, data)
    if got is None:
        return ("err", "the text does not fit the format")
    if "unix" in got:
        if got.get("unix-extended"):
            return ("any", "a Unix time with a decimal part is outside the property")
        if len(dirs) > 1:
            return ("any", "%s together with other directives is outside the property")
        return ("ok", T.tp_from_inst(m, int(got["unix"]) + 86400 * epoch_day(m), "c", loc[0], loc[1]))
    year = int(got["year"]) if "year" in got else 0
    hh = int(got.get("hour", "0"))
    mi = int(got.get("minute", "0"))
    ss = int(got.get("second", "0"))
    if "sign" in got:
        sgn = -1 if got["sign"] == "-" else 1
        tzh, tzm = sgn * int(got["zh"]), sgn * int(got["zm"])
    elif assumed is not None:
        tzh, tzm = assumed
    elif unk:
        tzh, tzm = 0, 0
    else:
        tzh, tzm = loc
    if "yday" in got:
        if "month" in got or "day" in got:
            return ("err", "month/day and day-of-year are both given")
        t = ("o", year, int(got["yday"]), 0, hh, mi, ss, tzh, tzm)
    else:
        t = ("c", year, int(got.get("month", "1")), int(got.get("day", "1")), hh, mi, ss, tzh, tzm)
    if not T.valid(m, t):
        return ("err", "the fields are out of range")
    return ("ok", t)


# ---------------------------------------------------------------------------------------------------------
# generators

YEARS = [0, 1, 4, 9, 10, 99, 100, 101, 400, 999, 1000, 1582, 1899, 1900, 1969, 1970, 1971, 1999, 2000, 2001,
         2004, 2015, 2020, 2021, 2026, 2038, 2100, 9998, 9999]
FAR_YEARS = [-1, -2000, 10000, 10001, 12345]


def gen_year(rng, unixy=False):
    r = rng.random()
    if unixy:
        if r < 0.5:
            return rng.choice([1969, 1970, 1971, 2000, 2001, 2038, 1901, 1902, 2106])
        if r < 0.9:
            return rng.randint(1850, 2200)
        if r < 0.97:
            return rng.choice([1000, 1582, 2999, 1])
        return rng.choice([0, 9999])
    if r < 0.45:
        return rng.choice(YEARS)
    if r < 0.92:
        return rng.randint(0, 9999)
    return rng.choice(FAR_YEARS)


def gen_point(rng, m, unixy=False, allow24=True):
    y = gen_year(rng, unixy)
    date = gens.any_date(rng, m, y=y)
    hh, mi, ss = gens.hms(rng, allow24)
    tzh, tzm = gens.offset(rng)
    if date[0] == "o":
        return ("o", date[1], date[2], 0, hh, mi, ss, tzh, tzm)
    return (date[0], date[1], date[2], date[3], hh, mi, ss, tzh, tzm)


def gen_literal(rng):
    r = rng.random()
    if r < 0.75:
        return rng.choice(LITERALS)
    return "".join(chr(rng.choice([c for c in range(32, 127) if c != 37])) for _ in range(rng.randint(1, 3)))


FULL_SETS = [["Y", "m", "d", "H", "M", "S", "z"], ["F", "X", "z"], ["Y", "j", "H", "M", "S", "z"],
             ["Y", "j", "X", "z"], ["F", "H", "M", "S", "z"], ["Y", "m", "d", "X", "z"]]
NICE = ["%Y-%m-%dT%H:%M:%S%z", "%FT%X%z", "%Y%m%dT%H%M%S%z", "%Y-%jT%X%z", "%Y%j%H%M%S%z", "%s",
        "%d/%m/%Y %H:%M:%S %z", "%z %S %M %H %d %m %Y", "%F %X", "%Y", "%j", "%z", "%F", "%X",
        "epoch %s.", "%Y%m%d%H%M%S%z", "%z%Y%j%X"]


def gen_format(rng, kind=None):
    """kind: 'full' (determined), 'partial', 'free', 'unix', 'dup', 'bad'."""
    if kind is None:
        kind = rng.choice(["full", "full", "partial", "free", "free", "unix"])
    if kind == "nice":
        return rng.choice(NICE)
    if kind == "unix":
        return _interleave(rng, ["s"], 0.5)
    if kind == "full":
        dirs = list(rng.choice(FULL_SETS))
        if rng.random() < 0.6:
            rng.shuffle(dirs)
        return _interleave(rng, dirs, rng.choice([0.0, 0.5, 0.9]))
    if kind == "partial":
        dirs = list(rng.choice(FULL_SETS))
        rng.shuffle(dirs)
        dirs = dirs[:rng.randint(0, len(dirs) - 1)]
        if rng.random() < 0.3:
            rng.shuffle(dirs)
        return _interleave(rng, dirs, rng.choice([0.0, 0.5, 0.9]))
    if kind == "dup":
        dirs = list(rng.choice(FULL_SETS))
        extra = rng.choice(dirs + ["F", "X", "j", "s"])
        dirs.insert(rng.randint(0, len(dirs)), extra)
        return _interleave(rng, dirs, 0.5)
    if kind == "bad":
        dirs = ["%" + c for c in rng.choice(FULL_SETS)][:rng.randint(0, 4)]
        dirs.insert(rng.randint(0, len(dirs)), "%" + rng.choice(UNSUPPORTED))
        return "".join(d + (gen_literal(rng) if rng.random() < 0.4 else "") for d in dirs)
    n = rng.randint(0, 7)
    return _interleave(rng, [rng.choice(SUPPORTED) for _ in range(n)], 0.5)


def _interleave(rng, dirs, plit):
    out = []
    if rng.random() < plit * 0.6:
        out.append(gen_literal(rng))
    for c in dirs:
        out.append("%" + c)
        if rng.random() < plit:
            out.append(gen_literal(rng))
    return "".join(out)


def gen_cfg(rng):
    """(loc_h, loc_m, assumed_h|None, assumed_m|None, unk)"""
    loc = rng.choice([(0, 0), (0, 0), (1, 0), (-5, 0), (5, 30), (-3, -30), (0, -30), (0, 45), (12, 0),
                      (-12, 0), (13, 45), (-9, -30)])
    r = rng.random()
    if r < 0.45:
        assumed = gens.offset(rng)
    else:
        assumed = (None, None)
    return loc + assumed + (1 if rng.random() < 0.15 else 0,)


def off_str(h, mi):
    return "%s%02d:%02d" % ("-" if (h < 0 or mi < 0) else "+", abs(h), abs(mi))


def cfg_words(c):
    return "local zone %s, assumed %s%s" % (off_str(c[0], c[1]), "none" if c[2] is None else off_str(c[2], c[3]),
                                           ", default-to-unknown" if c[4] else "")


def cfg_str(c):
    return "%d %d %s %s %d" % (c[0], c[1], "_" if c[2] is None else c[2], "_" if c[3] is None else c[3], c[4])


_PARSERS = {}


def get_parser(c):
    from metomi.isodatetime.parsers import TimePointParser
    key = (c[2], c[3], c[4], id(TimePointParser))
    if key not in _PARSERS:
        kw = {}
        if c[2] is not None:
            kw["assumed_time_zone"] = (c[2], c[3])
        if c[4]:
            kw["default_to_unknown_time_zone"] = True
        _PARSERS[key] = TimePointParser(**kw)
    return _PARSERS[key]


class LocalZone:
    def __init__(self, h, mi):
        self.zone = (h, mi)

    def __enter__(self):
        from metomi.isodatetime import timezone as tzmod
        self.saved = tzmod.get_local_time_zone
        zone = self.zone
        tzmod.get_local_time_zone = lambda: zone

    def __exit__(self, *exc):
        from metomi.isodatetime import timezone as tzmod
        tzmod.get_local_time_zone = self.saved


def do_strftime(t, fmt):
    try:
        return "ok " + hx(T.mk_tp(t).strftime(fmt))
    except Exception as exc:  # noqa
        return classify(exc)


def do_strptime(c, data, fmt):
    try:
        with LocalZone(c[0], c[1]):
            q = get_parser(c).strptime(data, fmt)
        return "ok " + T.canon_tp(q)
    except Exception as exc:  # noqa
        return classify(exc)


def fmt_class(fmt):
    dirs = directives(fmt)
    if any(c not in SUPPORTED for c in dirs):
        return "unsupported"
    n = field_counts(fmt)
    if any(v > 1 for v in n.values()):
        return "dup"
    if determined(fmt):
        return "unix-only" if "s" in dirs else "determined"
    if "s" in dirs:
        return "unix-mixed"
    return "partial" if dirs else "literal-only"


def point_class(m, t):
    """One tag per point, the most interesting boundary it sits on."""
    civ = civil(m, t)
    if not 0 <= civ["year"] <= 9999:
        return "year-out"
    if civ["year"] != t[1]:
        return "civil-year-differs"
    if t[4] == 24:
        return "24h"
    if civ["off"] < 0:
        return "neg-off-zeroH" if t[7] == 0 else "neg-off"
    if civ["year"] < 1000:
        return "short-year"
    return "plain"


# ---------------------------------------------------------------------------------------------------------
# operations

class Strftime(Op):
    prop = PROP
    name = "strftime"
    shard = None

    def gen(self, rng, tier, boost):
        n = (6000 if tier == "quick" else 600000) * boost
        if self.shard:
            n = n // self.shard[1] + 1
        for _ in range(n):
            m = gens.mode(rng)
            kind = rng.choice(["nice", "full", "partial", "free", "free", "free", "unix"])
            fmt = gen_format(rng, kind)
            t = gen_point(rng, m, unixy=False)
            yield (m, t, fmt)
        # the days on which the week-year differs from the calendar year, all three views of each
        for y in gens.shard_filter(YEARS + [9999], self.shard):
            for m in oracle.MODES:
                first = oracle.dby(m, y)
                for n_ in (first - 3, first - 2, first - 1, first, first + 1, first + 2, first + 3):
                    for rep in "cow":
                        t = T.tp_from_inst(m, 86400 * n_ + rng.randint(0, 86399), rep, 0, 0)
                        # %Y alone (no month/day directive forces a calendar view), with the day of
                        # the year, with a full date, with time and zone only
                        for fmt in ("%Y", "%Y%j", rng.choice(["%Y-%m-%d %j", "%F"]), "%Y %X %z"):
                            yield (m, t, fmt)

    sibling = T.tp_sibling(1, ymin=1, ymax=9998)
    sibling_rate = 0.25

    def line(self, a):
        return "strftime %s %s %s" % (a[0], T.tp_str(a[1]), hx(a[2]))

    def impl(self, a):
        set_mode(a[0])
        return do_strftime(a[1], a[2])

    def oracle(self, a, out):
        m, t, fmt = a
        what = "%s.strftime(%r) in %s" % (T.describe_tp(t), fmt, m)
        if out.startswith("EXC:"):
            return "%s raised %s, which is not a ValueError" % (what, out[4:])
        dirs = directives(fmt)
        if any(c not in SUPPORTED for c in dirs):
            if out != "err:syntax":
                return "%s: a directive outside the supported set must be refused with StrftimeSyntaxError, got %s" % (
                    what, show(out))
            return None
        civ = civil(m, t)
        if not 0 <= civ["year"] <= 9999:
            # outside the property's quantifier; the library documents a refusal when the year is printed
            if out.startswith("ok") and ("Y" in dirs or "F" in dirs):
                return "%s printed a civil year outside 0000-9999: %s" % (what, show(out))
            return None
        want = posix(fmt, civ)
        if out != "ok " + hx(want):
            return "%s = %s, POSIX gives %r for the civil date-time %04d-%02d-%02d (day %d) %02d:%02d:%02d %+d min" % (
                what, show(out), want, civ["year"], civ["month"], civ["day"], civ["yday"], civ["hour"],
                civ["minute"], civ["second"], civ["off"])
        if m == "greg":
            ref = datetime_reference(fmt, t)
            if ref is not None and ref != want:
                return "%s: harness self-check failed, CPython datetime prints %r, the oracle %r" % (what, ref, want)

    def label(self, a):
        return "strftime/%s/%s/%s" % (a[1][0], fmt_class(a[2]), point_class(a[0], a[1]))

    def nontrivial(self, a):
        return point_class(a[0], a[1]) != "plain" or fmt_class(a[2]) != "literal-only"


class StrfDerived(Strftime):
    """strftime of the SAME value obtained through arithmetic: (p + d) - d with durations as the duration parser
    builds them (their components - and then the point's hour / minute / second - are floats), and p re-zoned
    there and back.  The text must be what the freshly built point prints (the driver line is the `strftime` one)."""
    name = "strfderived"
    sibling = None        # (a respelled sibling may be a 24:00 spelling, which arithmetic normalises)

    def gen(self, rng, tier, boost):
        n = (1200 if tier == "quick" else 20000) * boost
        if self.shard:
            n = n // self.shard[1] + 1
        for _ in range(n):
            m = gens.mode(rng)
            kind = rng.choice(["nice", "full", "unix", "unix", "free"])
            t = gen_point(rng, m, unixy=False)
            if t[4] == 24:
                continue      # arithmetic turns the 24:00 spelling into the next day's 00:00, which prints differently
            yield (m, t, gen_format(rng, kind))

    def impl(self, a):
        from metomi.isodatetime.parsers import DurationParser
        from metomi.isodatetime.data import TimeZone
        set_mode(a[0])
        try:
            p = T.mk_tp(a[1])
            d = DurationParser().parse("P1DT1H30M15S")
            q = (p + d) - d
            q = q.to_time_zone(TimeZone(hours=3, minutes=30)).to_time_zone(p.time_zone)
            return "ok " + hx(q.strftime(a[2]))
        except Exception as exc:  # noqa
            return classify(exc)


class StrfBad(Strftime):
    """Every other %-letter (exhaustive over ASCII word characters), alone and inside a format."""
    name = "strfbad"

    def gen(self, rng, tier, boost):
        for c in gens.shard_filter(UNSUPPORTED, self.shard):
            for m in (["greg"] if tier == "quick" else oracle.MODES):
                t = gen_point(rng, m)
                yield (m, t, "%" + c)
                yield (m, t, "%Y-%m" + "%" + c + " %d")
                yield (m, t, gen_format(rng, "full") + "%" + c)
        for _ in range(200 * boost):
            m = gens.mode(rng)
            yield (m, gen_point(rng, m), gen_format(rng, "bad"))

    def label(self, a):
        return "strfbad/%s" % ("digit" if any(c in "0123456789_" for c in directives(a[2])) else "letter")


class Strptime(Op):
    """strptime on texts that mostly come from a POSIX rendering, partly mutated or out of range."""
    prop = PROP
    name = "strptime"
    shard = None

    def gen(self, rng, tier, boost):
        n = (6000 if tier == "quick" else 600000) * boost
        if self.shard:
            n = n // self.shard[1] + 1
        for _ in range(n):
            m = gens.mode(rng)
            c = gen_cfg(rng)
            r = rng.random()
            kind = ("bad" if r < 0.04 else "dup" if r < 0.10 else "unix" if r < 0.16 else
                    rng.choice(["nice", "full", "partial", "free"]))
            fmt = gen_format(rng, kind)
            unixy = "s" in directives(fmt)
            t = gen_point(rng, m, unixy=unixy)
            civ = civil(m, t)
            if not 0 <= civ["year"] <= 9999:
                civ["year"] = rng.randint(0, 9999)
            if any(ch not in SUPPORTED for ch in directives(fmt)):
                data = "".join(rng.choice("0123456789-:") for _ in range(rng.randint(0, 12)))
            else:
                clean = posix(fmt, self.perturb(rng, m, civ))
                data = self.mutate(rng, clean)
                if unixy and not self.unix_bounded(fmt, data):
                    data = clean
            yield (m, c, data, fmt)

    @staticmethod
    def unix_bounded(fmt, data):
        """The cost of %s is linear in the days spanned (C09's finding F10): keep |n| below 4e11 s."""
        got = read_fields(fmt, data)
        if not got or "unix" not in got:
            return True
        mt = re.match(r"-?([0-9]+)", got["unix"])
        return mt is None or int(mt.group(1)) <= 4 * 10 ** 11

    @staticmethod
    def perturb(rng, m, civ):
        """Mostly leave the fields alone; sometimes push one just past its range."""
        civ = dict(civ)
        r = rng.random()
        if r < 0.70:
            return civ
        which = rng.choice(["month", "day", "yday", "hour", "minute", "second", "off", "unixfrac"])
        if which == "month":
            civ["month"] = rng.choice([0, 12, 13, 99])
        elif which == "day":
            civ["day"] = rng.choice([0, 28, 29, 30, 31, 32, oracle.month_len(m, civ["year"], civ["month"]) + 1])
        elif which == "yday":
            civ["yday"] = rng.choice([0, 365, 366, 367, 999])
        elif which == "hour":
            civ["hour"] = rng.choice([23, 24, 25, 99])
        elif which == "minute":
            civ["minute"] = rng.choice([0, 59, 60, 99])
        elif which == "second":
            civ["second"] = rng.choice([0, 59, 60, 61])
        elif which == "off":
            civ["off"] = rng.choice([-1, 1]) * (60 * rng.choice([0, 5, 99]) + rng.choice([0, 59]))
        return civ

    @staticmethod
    def mutate(rng, text):
        r = rng.random()
        if r < 0.80 or not text:
            return text
        i = rng.randrange(len(text))
        how = rng.choice(["drop", "dup", "swap", "junk", "tail", "head", "sep"])
        if how == "drop":
            return text[:i] + text[i + 1:]
        if how == "dup":
            return text[:i] + text[i] + text[i:]
        if how == "swap":
            return text[:i] + rng.choice("0123456789+-:., Zx") + text[i + 1:]
        if how == "junk":
            return text[:i] + rng.choice(["00", "-", "+", ".5", ",5", ".0", " "]) + text[i:]
        if how == "tail":
            return text + rng.choice(["0", " ", "Z", ".0", ".25", ",5", "."])
        if how == "head":
            return rng.choice(["0", " ", "-", "+"]) + text
        return text.replace(":", "-", 1) if ":" in text else text.replace("-", "/", 1)

    sibling_rate = 0.3

    def sibling(self, a, rng):
        """The same text and format read again under another calendar mode (one process, module-level state)."""
        m, c, data, fmt = a
        return [(rng.choice(T.OTHER_MODES[m]), c, data, fmt)]

    def line(self, a):
        return "strptime %s %s %s %s" % (a[0], cfg_str(a[1]), hx(a[2]), hx(a[3]))

    def impl(self, a):
        set_mode(a[0])
        return do_strptime(a[1], a[2], a[3])

    def oracle(self, a, out):
        m, c, data, fmt = a
        what = "strptime(%r, %r) in %s (%s)" % (data, fmt, m, cfg_words(c))
        if out.startswith("EXC:"):
            return "%s raised %s, which is not a ValueError" % (what, out[4:])
        kind, want = expected_parse(m, (c[0], c[1]), None if c[2] is None else (c[2], c[3]), c[4], fmt, data)
        if kind == "any":
            return None
        if kind == "err:syntax":
            if out != "err:syntax":
                return "%s: %s, must be refused with StrftimeSyntaxError, got %s" % (what, want, out)
            return None
        if kind == "err":
            if not out.startswith("err:"):
                return "%s: %s, yet it was accepted as %s" % (what, want, out)
            return None
        if out != "ok " + T.tp_str(want):
            return "%s gave %s, the text and the defaults determine %s" % (what, out, T.describe_tp(want))

    def label(self, a):
        m, c, data, fmt = a
        kind, _ = expected_parse(m, (c[0], c[1]), None if c[2] is None else (c[2], c[3]), c[4], fmt, data)
        return "strptime/%s/%s" % (fmt_class(fmt), kind.split(":")[0])

    def nontrivial(self, a):
        return fmt_class(a[3]) != "literal-only"


F14 = "unix_time_with_negative_zone_sign"
_F14_REGISTERED = any(f.get("property") == PROP and f.get("predicate") == F14
                      for f in engine.load_known().get("findings", []))


def f14_applies(m, c, t, fmt):
    """%s together with %z: the %s translator overwrites the captured offset with the local zone's but
    the captured sign is still applied to it."""
    dirs = directives(fmt)
    n = field_counts(fmt)
    return ("s" in dirs and "z" in dirs and all(ch in SUPPORTED for ch in dirs)
            and not any(v > 1 for v in n.values())
            and (t[7] < 0 or t[8] < 0) and (c[0], c[1]) != (0, 0))


class RoundTrip(Op):
    """strptime(strftime(p, fmt), fmt): an equal point for a determined format, the defaults otherwise."""
    prop = PROP
    name = "strfp"
    shard = None

    def gen(self, rng, tier, boost):
        n = (6000 if tier == "quick" else 600000) * boost
        nunix = (400 if tier == "quick" else 24000) * boost
        if self.shard:
            n = n // self.shard[1] + 1
            nunix = nunix // self.shard[1] + 1
        for _ in range(n):
            m = gens.mode(rng)
            kind = rng.choice(["nice", "full", "full", "full", "partial", "partial", "dup"])
            fmt = gen_format(rng, kind)
            if "s" in directives(fmt):
                continue
            yield (m, gen_cfg(rng), gen_point(rng, m), fmt)
        for k in range(nunix):
            m = gens.mode(rng)
            fmt = gen_format(rng, "unix")
            if k % 5 == 0:
                extra = rng.choice(["%z", "%Y", " %F", "%X", "%z "])
                fmt = fmt + extra if rng.random() < 0.5 else extra + fmt
            yield (m, gen_cfg(rng), gen_point(rng, m, unixy=True), fmt)

    def line(self, a):
        return "strfp %s %s %s %s" % (a[0], cfg_str(a[1]), T.tp_str(a[2]), hx(a[3]))

    def impl(self, a):
        set_mode(a[0])
        first = do_strftime(a[2], a[3])
        if not first.startswith("ok "):
            return first
        return first + " > " + do_strptime(a[1], unhx(first[3:]), a[3])

    def oracle(self, a, out):
        m, c, t, fmt = a
        what = "%s dumped and read back with %r in %s (%s)" % (T.describe_tp(t), fmt, m, cfg_words(c))
        if "EXC:" in out:
            return "%s raised %s, which is not a ValueError" % (what, out)
        civ = civil(m, t)
        cls = fmt_class(fmt)
        if not 0 <= civ["year"] <= 9999:
            return None
        if " > " not in out:
            return "%s: strftime failed: %s" % (what, out)
        text = unhx(out.split(" ")[1])
        back = out.split(" > ")[1]
        if text != posix(fmt, civ):
            return "%s: strftime gave %r, POSIX gives %r" % (what, text, posix(fmt, civ))
        if cls in ("determined", "unix-only"):
            if not back.startswith("ok "):
                return "%s: %r is refused (%s) although the format determines date, time and zone" % (
                    what, text, back)
            r = T.parse_tp(back[3:])
            if not T.valid(m, r):
                return "%s: %r read back as the invalid point %s" % (what, text, back[3:])
            if T.inst(m, r) != T.inst(m, t):
                return "%s: %r read back as %s, a different instant (off by %d s)" % (
                    what, text, T.describe_tp(r), T.inst(m, r) - T.inst(m, t))
            if cls == "determined" and (r[7], r[8]) != (t[7], t[8]):
                return "%s: %r read back with offset %s" % (what, text, off_str(r[7], r[8]))
            if cls == "unix-only" and (r[7], r[8]) != (c[0], c[1]):
                return "%s: %r read back in offset %s, not the local zone" % (what, text, off_str(r[7], r[8]))
            return None
        if cls == "unix-mixed":
            if not back.startswith("ok "):
                return None
            r = T.parse_tp(back[3:])
            if T.inst(m, r) != T.inst(m, t):
                if f14_applies(m, c, t, fmt):
                    if _F14_REGISTERED:
                        return "F14: %s: %r read back as %s, a different instant" % (what, text, T.describe_tp(r))
                    return None
                return "%s: %r read back as %s, a different instant although %%s fixes it (off by %d s)" % (
                    what, text, T.describe_tp(r), T.inst(m, r) - T.inst(m, t))
            return None
        # partial / duplicate formats: the defaults clause, judged on the text strftime produced
        kind, want = expected_parse(m, (c[0], c[1]), None if c[2] is None else (c[2], c[3]), c[4], fmt, text)
        if kind == "err":
            if not back.startswith("err:"):
                return "%s: %s, yet %r was accepted as %s" % (what, want, text, back)
            return None
        if kind == "ok" and back != "ok " + T.tp_str(want):
            return "%s: %r read back as %s; omitted parts must default to the start of the period and the " \
                   "assumed zone: %s" % (what, text, back, T.describe_tp(want))

    def label(self, a):
        return "strfp/%s/%s/%s" % (a[2][0], fmt_class(a[3]), point_class(a[0], a[2]))

    def nontrivial(self, a):
        return True


class Sweep(Op):
    """Thorough tier: every day of a set of years in all three representations, fixed formats."""
    prop = PROP
    name = "strfsweep"
    shard = None

    def gen(self, rng, tier, boost):
        if tier == "quick":
            years = [("greg", 2004), ("d360", 1970)]
            stride = 7
        else:
            years = [(m, y) for m in oracle.MODES for y in (0, 1, 1969, 1970, 2000, 2004, 2100, 9999)]
            stride = 1
        k = 0
        for m, y in years:
            for doy in range(1, oracle.year_len(m, y) + 1, stride):
                k += 1
                if self.shard and k % self.shard[1] != self.shard[0]:
                    continue
                n = oracle.day_num_ord(m, y, doy)
                sod = rng.choice([0, 86399, rng.randint(0, 86399)])
                off = rng.choice(gens.OFFSETS)
                for rep in "cow":
                    t = T.tp_from_inst(m, 86400 * n + sod - 3600 * off[0] - 60 * off[1], rep, off[0], off[1])
                    yield (m, t, "%F %j %X %z")

    line = Strftime.line
    impl = Strftime.impl
    oracle = Strftime.oracle

    def label(self, a):
        return "strfsweep/%s/%s" % (a[0], a[1][0])


def _f14(op, a, out, msg):
    return (op.name == "strfp" and msg.startswith("F14:") and f14_applies(a[0], a[1], a[2], a[3]))


KNOWN_PREDICATES = {F14: _f14}


def ops():
    import common
    common.foreign_configurations()
    import strf2ops
    return [Strftime(), StrfDerived(), StrfBad(), Strptime(), RoundTrip(), Sweep(), strf2ops.Strftime2Op()]
