"""C11 — duration arithmetic, equality, ordering and hashing are coherent."""
from fractions import Fraction

import oracle
import gens
import tpcommon as T
from engine import Op, set_mode

PROP = "C11"
QUICK_BOOST = 3
LEAN_MODULES = ["IsoDT.Props.C11", "IsoDT.Props.C11q", "IsoDT.Props.C11ord"]
RULE = ("pairs / triples of Durations in week form and unit form, mixed signs, unit-boundary magnitudes "
        "(7 d, 24 h, 60 min, 60 s, 365/360 d, 30 d) and integer multipliers; non-trivial when the operands "
        "spell their length in different units or forms; distinct by (op, arguments)")
ASSUMPTIONS = ["integer components are proved (Props/C11); fractional hours / minutes / seconds are proved over exact "
               "rationals (Props/C11q) and that model is tied to the float implementation on dyadic inputs, where binary64 "
               "is exact (op durq); other decimal components are observed within float tolerance (op dfloat)"]

UNIT_SEC = {"d": 86400, "h": 3600, "m": 60, "s": 1}


def gen_dur(rng, nominal=0.35):
    r = rng.random()
    if r < 0.15:
        w = rng.choice([1, -1, 2, 52, -3, 7, rng.randint(-100, 100)])
        return ("W", w if w else 1)
    if r < 0.25 and nominal:
        # nominal durations whose rough length (year = common year, month = 30 d) is zero or one
        # unit away from it: falsy-by-length but not empty
        y = rng.choice([1, -1, 2, -2, 0, 0])
        mo = rng.choice([0, 0, 1, -1, 12, -5]) if y else rng.choice([1, -1, 12, -5])
        days = -(y * rng.choice([365, 365, 360, 366]) + mo * 30) + rng.choice([0, 0, 0, 1, -1])
        h = rng.choice([0, 0, 24, -24, 1])
        if h in (24, -24):
            days -= h // 24
        return ("U", y, mo, days, h, 0, 0)
    y = mo = 0
    if rng.random() < nominal:
        y = rng.choice([0, 0, 1, -1, 2, 10])
        mo = rng.choice([0, 1, -1, 12, 13, -5])
        if rng.random() < 0.25:
            # long nominal durations: whole leap cycles of years (the rough length stays 365 d a year, 30 d a month
            # however many), many months
            y = rng.choice([100, 399, 400, 401, 800, -400, -401, 1000, 1200, 9999, rng.randint(-5000, 5000)])
            mo = rng.choice([0, 0, 1, -1, 4800, -4800, 120, rng.randint(-6000, 6000)])
    vals = []
    for table in ([0, 0, 1, -1, 7, -7, 14, 30, 31, 360, 365, 366], [0, 0, 1, -1, 23, 24, 25, 48, 168],
                  [0, 0, 1, 59, 60, 61, -60, 1440], [0, 0, 1, 59, 60, -61, 3600, 86400, -86400]):
        vals.append(rng.choice(table) if rng.random() < 0.8 else rng.randint(-100000, 100000))
    return ("U", y, mo) + tuple(vals)


def respell(rng, d):
    """Another spelling of the same exact length (different units / week form), if d is exact."""
    if d[0] == "U" and (d[1] or d[2]):
        return d
    total = T.dur_seconds(d) if d[0] == "U" else d[1] * 7 * 86400
    if total % (7 * 86400) == 0 and total != 0 and rng.random() < 0.4:
        return ("W", total // (7 * 86400))
    dd = rng.choice([0, total // 86400, total // 86400 - 1])
    rest = total - dd * 86400
    hh = rng.choice([0, rest // 3600])
    rest -= hh * 3600
    mm = rng.choice([0, rest // 60])
    rest -= mm * 60
    return ("U", 0, 0, dd, hh, mm, rest)


def spec_days_and_seconds(m, d):
    if d[0] == "W":
        return (7 * d[1], 0)
    _, y, mo, dd, h, mi, s = d
    secs = h * 3600 + mi * 60 + s
    return (y * oracle.year_len(m, 1) + mo * 30 + dd + secs // 86400, secs % 86400)
    # year_len(m, 1): year 1 is a common year in every mode = the calendar's common-year length


def is_exact(d):
    return d[0] == "W" or (d[1] == 0 and d[2] == 0)


def exact_seconds(d):
    if d[0] == "W":
        return d[1] * 7 * 86400
    return d[3] * 86400 + d[4] * 3600 + d[5] * 60 + d[6]


def spec_eq(a, b):
    if is_exact(a) != is_exact(b):
        return False
    if is_exact(a):
        return exact_seconds(a) == exact_seconds(b)
    return a[1] == b[1] and a[2] == b[2] and exact_seconds(a) == exact_seconds(b)


class DurBin(Op):
    prop = PROP
    name = "dadd"

    def pairs(self, rng, n):
        for _ in range(n):
            a = gen_dur(rng)
            b = respell(rng, a) if rng.random() < 0.4 else gen_dur(rng)
            yield gens.mode(rng), a, b

    def gen(self, rng, tier, boost):
        for m, a, b in self.pairs(rng, 1200 * boost if tier == "quick" else 5000 * boost):
            yield (m, a, b)

    def line(self, a):
        return "%s %s %s %s" % (self.name, a[0], T.dur_str(a[1]), T.dur_str(a[2]))

    def label(self, a):
        return "%s/%s/%s%s" % (self.name, a[0], a[1][0], a[2][0])


class DAdd(DurBin):
    name = "dadd"

    def impl(self, a):
        set_mode(a[0])
        return T.canon_dur(T.mk_dur(a[1]) + T.mk_dur(a[2]))

    def oracle(self, a, out):
        m, x, y = a
        set_mode(m)
        dx, dy = T.mk_dur(x), T.mk_dur(y)
        problems = []
        if not (dx + dy) == (dy + dx):
            problems.append("a + b != b + a")
        from metomi.isodatetime.data import Duration
        if not (dx + Duration()) == dx or not (Duration() + dx) == dx:
            problems.append("the empty duration is not an identity")
        z = dx + (-1 * dx)
        if z or not z == Duration():
            problems.append("d + (-1 * d) is not empty: %s" % z)
        if not (dx - dy) == (dx + (-1 * dy)):
            problems.append("a - b != a + (-b)")
        if out.startswith(("U", "W")):
            r = T.dur_tuple(dx + dy)
            want_secs = exact_seconds(x) + exact_seconds(y)
            if exact_seconds(r) != want_secs:
                problems.append("exact part of the sum is %d s, should be %d s" % (exact_seconds(r), want_secs))
            yx = (x[1], x[2]) if x[0] == "U" else (0, 0)
            yy = (y[1], y[2]) if y[0] == "U" else (0, 0)
            yr = (r[1], r[2]) if r[0] == "U" else (0, 0)
            if yr != (yx[0] + yy[0], yx[1] + yy[1]):
                problems.append("years/months of the sum are %r" % (yr,))
        else:
            problems.append("sum failed: %s" % out)
        if problems:
            return "%s + %s in %s: %s" % (T.dur_str(x), T.dur_str(y), m, "; ".join(problems))


class DAssoc(Op):
    prop = PROP
    name = "dassoc"
    model = False

    def gen(self, rng, tier, boost):
        for _ in range(500 * boost):
            yield (gens.mode(rng), gen_dur(rng), gen_dur(rng), gen_dur(rng))

    def line(self, a):
        return "dassoc %s %s | %s | %s" % (a[0], T.dur_str(a[1]), T.dur_str(a[2]), T.dur_str(a[3]))

    def impl(self, a):
        set_mode(a[0])
        x, y, z = (T.mk_dur(d) for d in a[1:])
        l, r = (x + y) + z, x + (y + z)
        return "ok" if (l == r and hash(l) == hash(r)) else "(a+b)+c = %s, a+(b+c) = %s" % (l, r)

    def oracle(self, a, out):
        if out != "ok":
            return "associativity fails for %s in %s: %s" % ([T.dur_str(d) for d in a[1:]], a[0], out)


class DMul(Op):
    prop = PROP
    name = "dmul"

    def gen(self, rng, tier, boost):
        for _ in range(700 * boost):
            yield (gens.mode(rng), gen_dur(rng), rng.choice([0, 1, -1, 2, 3, 7, -4, rng.randint(-50, 50)]))

    def line(self, a):
        return "dmul %s %s %d" % (a[0], T.dur_str(a[1]), a[2])

    def impl(self, a):
        set_mode(a[0])
        return T.canon_dur(T.mk_dur(a[1]) * a[2])

    def oracle(self, a, out):
        from metomi.isodatetime.data import Duration
        m, d, n = a
        set_mode(m)
        dd = T.mk_dur(d)
        prod = dd * n
        if not (n * dd) == prod:
            return "n * d != d * n for %s, %d" % (T.dur_str(d), n)
        if n >= 0 and n <= 12:
            acc = Duration()
            for _ in range(n):
                acc = acc + dd
            if not acc == prod or hash(acc) != hash(prod):
                return "%d * %s = %s but %d-fold addition gives %s" % (n, T.dur_str(d), prod, n, acc)

    def label(self, a):
        return "dmul/%s/%s" % (a[0], a[1][0])


class DEq(DurBin):
    name = "deq"

    def impl(self, a):
        set_mode(a[0])
        x, y = T.mk_dur(a[1]), T.mk_dur(a[2])
        e = x == y
        if e != (y == x) or (x != y) == e:
            return "ASYMMETRIC"
        return "1" if e else "0"

    def oracle(self, a, out):
        want = "1" if spec_eq(a[1], a[2]) else "0"
        if out != want:
            return "%s == %s gives %s, the rule (exact: total length; nominal: years, months and exact remainder) says %s" % (
                T.dur_str(a[1]), T.dur_str(a[2]), out, want)

    def nontrivial(self, a):
        return a[1] != a[2]


class DHashEq(DurBin):
    name = "dhasheq"

    def gen(self, rng, tier, boost):
        for m, a, b in self.pairs(rng, 800 * boost):
            if spec_eq(a, b):
                yield (m, a, b)

    def impl(self, a):
        set_mode(a[0])
        return "1" if hash(T.mk_dur(a[1])) == hash(T.mk_dur(a[2])) else "0"

    def oracle(self, a, out):
        if out != "1":
            return "%s and %s are equal but hash differently" % (T.dur_str(a[1]), T.dur_str(a[2]))


class DCmp(DurBin):
    name = "dcmp"

    def impl(self, a):
        set_mode(a[0])
        x, y = T.mk_dur(a[1]), T.mk_dur(a[2])
        return "%d %d %d %d" % (x < y, x <= y, x > y, x >= y)

    def oracle(self, a, out):
        m, x, y = a
        sx, sy = spec_days_and_seconds(m, x), spec_days_and_seconds(m, y)
        tx, ty = sx[0] * 86400 + sx[1], sy[0] * 86400 + sy[1]
        want = "%d %d %d %d" % (tx < ty, tx <= ty, tx > ty, tx >= ty)
        if out != want:
            return "ordering of %s vs %s in %s is %s, by rough length (%d s vs %d s) it is %s" % (
                T.dur_str(x), T.dur_str(y), m, out, tx, ty, want)


class DUnary(Op):
    prop = PROP
    name = "ddas"

    def gen(self, rng, tier, boost):
        for _ in range(500 * boost):
            yield (gens.mode(rng), gen_dur(rng))

    def line(self, a):
        return "%s %s %s" % (self.name, a[0], T.dur_str(a[1]))

    def impl(self, a):
        set_mode(a[0])
        r = T.mk_dur(a[1]).get_days_and_seconds()
        return "%d %d" % (T._int(r[0]), T._int(r[1]))

    def oracle(self, a, out):
        want = "%d %d" % spec_days_and_seconds(a[0], a[1])
        if out != want:
            return "get_days_and_seconds of %s in %s = %s, expected %s" % (T.dur_str(a[1]), a[0], out, want)

    def label(self, a):
        return "%s/%s/%s" % (self.name, a[0], a[1][0])


class DSecs(DUnary):
    name = "dsecs"

    def impl(self, a):
        set_mode(a[0])
        return str(T._int(T.mk_dur(a[1]).get_seconds()))

    def oracle(self, a, out):
        d = a[1]
        if is_exact(d):
            want = exact_seconds(d)
        else:
            s = spec_days_and_seconds(a[0], d)
            want = s[0] * 86400 + s[1]
        if out != str(want):
            return "get_seconds of %s in %s = %s, expected %d" % (T.dur_str(d), a[0], out, want)


class DMisc(DUnary):
    """abs, to_days, to_weeks, bool: model correspondence; oracle: unit relations."""
    name = "dabs"

    def impl(self, a):
        set_mode(a[0])
        return T.canon_dur(abs(T.mk_dur(a[1])))

    def oracle(self, a, out):
        d = a[1]
        want = (d[0],) + tuple(abs(x) for x in d[1:])
        if out != T.dur_str(want):
            return "abs(%s) = %s" % (T.dur_str(d), out)


class DToDays(DUnary):
    name = "dtodays"

    def impl(self, a):
        set_mode(a[0])
        return T.canon_dur(T.mk_dur(a[1]).to_days())

    def oracle(self, a, out):
        d = a[1]
        if d[0] == "W" and out != "U 0 0 %d 0 0 0" % (7 * d[1]):
            return "to_days of %s gives %s: a week is exactly 7 days" % (T.dur_str(d), out)


class DToWeeks(DUnary):
    name = "dtoweeks"

    def impl(self, a):
        set_mode(a[0])
        return T.canon_dur(T.mk_dur(a[1]).to_weeks())

    def oracle(self, a, out):
        return None


class DBool(DUnary):
    name = "dbool"

    def impl(self, a):
        set_mode(a[0])
        return "1" if T.mk_dur(a[1]) else "0"

    def oracle(self, a, out):
        want = "1" if any(a[1][1:]) else "0"
        if out != want:
            return "bool(%s) = %s" % (T.dur_str(a[1]), out)


class DFloorDiv(Op):
    prop = PROP
    name = "dfdiv"

    def gen(self, rng, tier, boost):
        for _ in range(400 * boost):
            yield (gens.mode(rng), gen_dur(rng), rng.choice([1, -1, 2, 3, -3, 7, 60, rng.randint(1, 50)]))

    def line(self, a):
        return "dfdiv %s %s %d" % (a[0], T.dur_str(a[1]), a[2])

    def impl(self, a):
        set_mode(a[0])
        return T.canon_dur(T.mk_dur(a[1]) // a[2])

    def label(self, a):
        return "dfdiv/%s/%s" % (a[0], a[1][0])


class DMk(Op):
    """Constructor: weeks fold into days unless alone."""
    prop = PROP
    name = "dmk"

    def gen(self, rng, tier, boost):
        for _ in range(400 * boost):
            vals = [rng.choice([0, 0, 0, 1, -1, 2, 7]) for _ in range(7)]
            yield ("greg",) + tuple(vals)

    def impl(self, a):
        from metomi.isodatetime.data import Duration
        y, mo, w, d, h, mi, s = a[1:]
        return T.canon_dur(Duration(years=y, months=mo, weeks=w, days=d, hours=h, minutes=mi, seconds=s))

    def oracle(self, a, out):
        y, mo, w, d, h, mi, s = a[1:]
        if out.startswith("U"):
            r = tuple(int(x) for x in out.split()[1:])
            if r != (y, mo, d + 7 * w, h, mi, s):
                return "Duration(%r) = %s: weeks must count as 7 days" % (a[1:], out)
        elif out.startswith("W"):
            if int(out.split()[1]) != w or any([y, mo, d, h, mi, s]):
                return "Duration(%r) = %s" % (a[1:], out)
        else:
            return "Duration(%r) failed: %s" % (a[1:], out)

    def label(self, a):
        return "dmk"


class DFloat(Op):
    """Decimal components (float domain, not modelled): the same identities within tolerance."""
    prop = PROP
    name = "dfloat"
    model = False

    def gen(self, rng, tier, boost):
        for _ in range(400 * boost):
            def fd():
                return dict(days=rng.choice([0, 1, -2, 30]), hours=rng.choice([0, 1.5, -0.25, 23.75]),
                            minutes=rng.choice([0, 0.5, 59.5, -30.25]), seconds=rng.choice([0, 0.125, 59.875, -1.5]))
            yield (gens.mode(rng), tuple(sorted(fd().items())), tuple(sorted(fd().items())),
                   rng.choice([0, 1, 2, -3, 5]))

    def line(self, a):
        return "dfloat %r" % (a,)

    def impl(self, a):
        from metomi.isodatetime.data import Duration
        set_mode(a[0])
        x, y, n = Duration(**dict(a[1])), Duration(**dict(a[2])), a[3]
        problems = []

        def secs(kw):
            kw = dict(kw)
            return (Fraction(kw["days"]) * 86400 + Fraction(kw["hours"]) * 3600 +
                    Fraction(kw["minutes"]) * 60 + Fraction(kw["seconds"]))
        tol = Fraction(1, 10 ** 6)
        if abs(Fraction((x + y).get_seconds()) - (secs(a[1]) + secs(a[2]))) > tol:
            problems.append("length of the sum")
        if abs(Fraction((x + y).get_seconds()) - Fraction((y + x).get_seconds())) > tol:
            problems.append("commutativity")
        if abs(Fraction((x * n).get_seconds()) - n * secs(a[1])) > tol:
            problems.append("n * d")
        if abs(Fraction((x + (-1 * x)).get_seconds())) > tol:
            problems.append("d + (-d)")
        lt = x < y
        if lt != (secs(a[1]) < secs(a[2])) and abs(secs(a[1]) - secs(a[2])) > tol:
            problems.append("ordering")
        return "ok" if not problems else "; ".join(problems)

    def oracle(self, a, out):
        if out != "ok":
            return "decimal durations %r, %r, n=%d in %s: %s off beyond tolerance" % (a[1], a[2], a[3], a[0], out)


class DurQ(Op):
    """The rational model `DurationQ` (Props/C11q) against the implementation on durations whose hours / minutes /
    seconds are dyadic fractions (binary64 is exact there, so the comparison is exact), 18 operations; plus the
    property's own clauses on the implementation's answers, evaluated with exact Fractions."""
    prop = PROP
    name = "durq"

    def gen(self, rng, tier, boost):
        n = (3000 if tier == "quick" else 60000) * boost
        if getattr(self, "shard", None):
            n = n // self.shard[1] + 1
        for _ in range(n):
            yield (gens.mode(rng), rng.getrandbits(40))

    def line(self, a):
        import durq
        return durq.line_of(a[1], a[0])

    def impl(self, a):
        import durq
        set_mode(a[0])
        return durq.evaluate(a[1], a[0])[1]

    @staticmethod
    def _key(m, d):
        """(years, months, exact seconds) and the rough length in seconds."""
        if d[0] == "W":
            y = mo = 0
            secs = Fraction(d[1] * 7 * 86400)
        else:
            _, y, mo, dd, h, mi, sec = d
            secs = Fraction(dd * 86400) + h * 3600 + mi * 60 + sec
        return (y, mo, secs), (y * oracle.year_len(m, 1) + mo * 30) * 86400 + secs

    def oracle(self, a, out):
        import durq
        m = a[0]
        op, args = durq.case(a[1])
        line = self.line(a)
        if out.startswith(("EXC", "Timeout")):
            return "%s raised %s" % (line, out)
        if op in ("deqq", "dhasheqq", "dcmpq"):
            (ka, ra), (kb, rb) = self._key(m, args[0]), self._key(m, args[1])
            if op == "deqq" and out != ("1" if ka == kb else "0"):
                return "%s: == gives %s, (years, months, exact length) are %s" % (line, out, "equal" if ka == kb else "different")
            if op == "dhasheqq" and ka == kb and out != "1":
                return "%s: equal durations hash differently" % line
            if op == "dcmpq":
                want = " ".join("1" if v else "0" for v in (ra < rb, ra <= rb, ra > rb, ra >= rb))
                if out != want:
                    return "%s: < <= > >= give %s, the lengths (year = common year, month = 30 d) say %s" % (line, out, want)
        if op in ("daddq", "dsubq", "dmulq") and out[:1] in "UW":
            f = out.split()
            if f[0] == "W":
                got = ((0, 0, Fraction(f[1]) * 7 * 86400))
            else:
                v = [Fraction(x) for x in f[1:]]
                got = (v[0], v[1], v[2] * 86400 + v[3] * 3600 + v[4] * 60 + v[5])
            ka = self._key(m, args[0])[0]
            if op == "dmulq":
                want = tuple(x * args[1] for x in ka)
            else:
                kb = self._key(m, args[1])[0]
                sg = 1 if op == "daddq" else -1
                want = tuple(x + sg * y for x, y in zip(ka, kb))
            if tuple(got) != tuple(want):
                return "%s: result %s has (years, months, exact seconds) %s, expected %s" % (line, out, got, want)

    def label(self, a):
        import durq
        return "durq/%s/%s" % (a[0], durq.case(a[1])[0])


class DDerived(Op):
    """Durations with a past: a duration is asked for its length, compared, hashed and printed, then others are derived
    from it (+, -, *, //, abs, unary use as an operand on either side).  Each derived value must equal, hash like,
    measure like and order like the same components constructed afresh."""
    prop = PROP
    name = "dderived"
    model = False

    def gen(self, rng, tier, boost):
        for _ in range(500 * boost if tier == "quick" else 5000 * boost):
            yield (gens.mode(rng), gen_dur(rng), gen_dur(rng), rng.choice([2, 3, -1, 0, 7]))

    def line(self, a):
        return "dderived %s %s %s %d" % (a[0], T.dur_str(a[1]), T.dur_str(a[2]), a[3])

    def impl(self, a):
        from metomi.isodatetime.data import Duration
        set_mode(a[0])
        x, y, k = T.mk_dur(a[1]), T.mk_dur(a[2]), a[3]
        x.get_seconds(), x.get_days_and_seconds(), hash(x), str(x), x == y, x.is_exact(), bool(x)
        try:
            x < y
        except Exception:
            pass
        problems = []
        derived = [("x + y", lambda: x + y), ("y + x", lambda: y + x), ("x - y", lambda: x - y),
                   ("x * k", lambda: x * k), ("abs(x)", lambda: abs(x)), ("x + x", lambda: x + x)]
        if k:
            derived.append(("x // k", lambda: x // k))
        for name, make in derived:
            d = make()
            if d.weeks is not None:
                fresh = Duration(weeks=d.weeks)
            else:
                fresh = Duration(years=d.years, months=d.months, days=d.days, hours=d.hours, minutes=d.minutes,
                                 seconds=d.seconds)
            facts_d = (d.get_seconds(), d.get_days_and_seconds(), d.is_exact(), bool(d), str(d))
            facts_f = (fresh.get_seconds(), fresh.get_days_and_seconds(), fresh.is_exact(), bool(fresh), str(fresh))
            if facts_d != facts_f or not (d == fresh) or hash(d) != hash(fresh) or d < fresh or d > fresh:
                problems.append("%s: derived %r, the same components afresh %r" % (name, facts_d, facts_f))
        return "ok" if not problems else "PROBLEMS " + "; ".join(problems)

    def oracle(self, a, out):
        if out != "ok":
            return "%s: %s" % (self.line(a), out)

    def label(self, a):
        return "dderived/%s/%s" % (a[0], a[1][0])


def ops():
    return [DurQ(), DDerived(), DAdd(), DAssoc(), DMul(), DEq(), DHashEq(), DCmp(), DUnary(), DSecs(), DMisc(), DToDays(),
            DToWeeks(), DBool(), DFloorDiv(), DMk(), DFloat()]
