"""C09 — impossible dates and malformed text are rejected, cleanly."""
import random

import oracle
import gens
import tpcommon as T
import engine
from engine import Op, set_mode

PROP = "C09"
LEAN_MODULES = ["IsoDT.Props.C09", "IsoDT.Props.C09b", "IsoDT.Props.C09c"]
RULE = ("constructor: keyword tuples in and around every legal range (month 0/1/12/13, day 0/1/last/last+1 per "
        "month and year type, ordinal 0/1/365/366/367, week 0/1/52/53/54, weekday 0/1/7/8, hour 23/24/25, 24:xx, "
        "minute/second 59/60, zone parts around +-99/+-59 and of conflicting sign), every mode and year type, "
        "exhaustive in the thorough tier; text: the same tuples spelled in each notation; garbage: mutations "
        "and splices of valid expressions, arbitrary characters incl. non-ASCII digits, through the three "
        "parsers in each configuration; distinct by (op, arguments)")
ASSUMPTIONS = ["'never another exception type, never a hang' is observed on the generated strings, not proved",
               "non-integral constructor arguments (float/str casting) are outside the model"]

FIELDS = ["year", "month_of_year", "week_of_year", "day_of_year", "day_of_month", "day_of_week", "hour_of_day",
          "minute_of_hour", "second_of_minute", "time_zone_hour", "time_zone_minute"]


def spec_accept(m, a):
    """The property's rule, written independently of the code: returns the point tuple or None."""
    y, mo, w, doy, dom, dow, hh, mi, ss, tzh, tzm = a
    if y is None:
        return None
    hh = 0 if hh is None else hh
    mi = 0 if mi is None else mi
    ss = 0 if ss is None else ss
    zh = 0 if tzh is None else tzh
    zm = 0 if tzm is None else tzm
    if not oracle.tz_valid(zh, zm):
        return None
    if tzh is None and tzm is not None and not -59 <= tzm <= 59:
        return None
    given = {"cal": (mo is not None) or (dom is not None), "week": (w is not None) or (dow is not None),
             "ord": doy is not None}
    # a field given as 0 is never legal; two representations at once are refused
    if sum(bool(v) for v in given.values()) > 1:
        return None
    if not (0 <= hh <= 24 and 0 <= mi < 60 and 0 <= ss < 60) or (hh == 24 and (mi or ss)):
        return None
    if given["ord"]:
        return ("o", y, doy, 0, hh, mi, ss, zh, zm) if oracle.valid_ord(m, y, doy) else None
    if given["week"]:
        w = 1 if w is None else w
        dow = 1 if dow is None else dow
        return ("w", y, w, dow, hh, mi, ss, zh, zm) if oracle.valid_week(m, y, w, dow) else None
    mo = 1 if mo is None else mo
    dom = 1 if dom is None else dom
    return ("c", y, mo, dom, hh, mi, ss, zh, zm) if oracle.valid_cal(m, y, mo, dom) else None


class MkTP(Op):
    prop = PROP
    name = "mktp"
    shard = None

    def years(self, m):
        return [2000, 2001, 2004, 1900, 2020, 2015, 0, -1, -4, 9999, 12345]

    def gen(self, rng, tier, boost):
        modes = oracle.MODES
        for m in gens.shard_filter(modes, self.shard):
            ys = self.years(m) if tier != "quick" else [2000, 2001, 2004, 1900, 2015, 0, -1]
            for y in ys:
                base = [y] + [None] * 10
                # calendar
                for mo in (0, 1, 2, 3, 4, 11, 12, 13, -1):
                    ml = oracle.month_len(m, y, mo) if 1 <= mo <= 12 else 30
                    for d in (None, 0, 1, ml - 1, ml, ml + 1, 28, 29, 30, 31, 32):
                        a = list(base)
                        a[1], a[4] = mo, d
                        yield (m,) + tuple(a)
                for d in (0, 1, 30, 31, 32):
                    a = list(base)
                    a[4] = d
                    yield (m,) + tuple(a)
                # ordinal
                yl = oracle.year_len(m, y)
                for n in (0, 1, 59, 60, 359, 360, 361, 365, 366, 367, yl, yl + 1, -1):
                    a = list(base)
                    a[3] = n
                    yield (m,) + tuple(a)
                # week
                wiy = oracle.weeks_in_year(m, y)
                for w in (None, 0, 1, 51, 52, 53, 54, wiy, wiy + 1):
                    for d in (None, 0, 1, 7, 8):
                        if w is None and d is None:
                            continue
                        a = list(base)
                        a[2], a[5] = w, d
                        yield (m,) + tuple(a)
            # time of day and zone, one year
            y = 2000
            for hh in (None, -1, 0, 23, 24, 25):
                for mi in (None, -1, 0, 1, 59, 60):
                    for ss in (None, -1, 0, 1, 59, 60):
                        yield (m, y, None, None, None, None, None, hh, mi, ss, None, None)
            for zh in (None, -100, -99, -1, 0, 1, 99, 100):
                for zm in (None, -60, -59, -1, 0, 1, 59, 60):
                    yield (m, y, None, None, None, None, None, None, None, None, zh, zm)
            # conflicting representations and missing year
            for combo in [(1, 1, None, None, None), (1, None, 5, None, None), (None, 1, 5, None, None),
                          (None, None, 5, 5, None), (None, None, 5, None, 3), (0, None, 5, None, None),
                          (None, 0, 5, None, None), (None, None, 5, 0, None), (0, 1, None, None, None)]:
                mo, w, doy, dom, dow = combo
                yield (m, y, mo, w, doy, dom, dow, None, None, None, None, None)
            yield (m, None, 1, None, None, 1, None, None, None, None, None, None)
        # random tuples near the ranges
        n = 1500 * boost if tier == "quick" else 6000 * boost
        for _ in range(n):
            m = gens.mode(rng)
            y = gens.year(rng)
            kind = rng.choice("cow")
            a = [y] + [None] * 10
            if kind == "c":
                a[1] = rng.choice([None, rng.randint(0, 13)])
                a[4] = rng.choice([None, rng.randint(0, 32)])
            elif kind == "o":
                a[3] = rng.randint(0, 367)
            else:
                a[2] = rng.choice([None, rng.randint(0, 54)])
                a[5] = rng.choice([None, rng.randint(0, 8)])
                if a[2] is None and a[5] is None:
                    a[2] = 1
            a[6] = rng.choice([None, rng.randint(0, 25)])
            a[7] = rng.choice([None, rng.randint(0, 60)])
            a[8] = rng.choice([None, rng.randint(0, 60)])
            a[9] = rng.choice([None, rng.randint(-100, 100)])
            a[10] = rng.choice([None, rng.randint(-60, 60)])
            yield (m,) + tuple(a)

    def line(self, a):
        return "mktp " + a[0] + " " + " ".join("_" if x is None else str(x) for x in a[1:])

    def impl(self, a):
        from metomi.isodatetime.data import TimePoint
        set_mode(a[0])
        kw = {k: v for k, v in zip(FIELDS, a[1:]) if v is not None}
        if a[1] is not None and not 0 <= a[1] <= 9999:
            kw["num_expanded_year_digits"] = 3
        return T.canon_tp(TimePoint(**kw))

    def oracle(self, a, out):
        want = spec_accept(a[0], a[1:])
        kw = {k: v for k, v in zip(FIELDS, a[1:]) if v is not None}
        if out.startswith("EXC") or out == "Timeout":
            return "TimePoint(%r) in %s raised %s, which is not derived from ValueError" % (kw, a[0], out)
        if want is None and out != "err":
            return "TimePoint(%r) in %s is not a possible date-time but was accepted as %s" % (kw, a[0], out)
        if want is not None and out == "err":
            return "TimePoint(%r) in %s is a legal date-time but was refused" % (kw, a[0])
        if want is not None and out != T.tp_str(want):
            return "TimePoint(%r) in %s holds %s, expected %s" % (kw, a[0], out, T.tp_str(want))

    def label(self, a):
        want = spec_accept(a[0], a[1:])
        kind = "ord" if a[4] is not None else ("week" if (a[3] is not None or a[6] is not None) else "cal")
        return "mktp/%s/%s/%s" % (a[0], kind, "legal" if want else "illegal")


# ---------------------------------------------------------------------------
# text: the same decisions through each notation, and garbage through the three parsers

VALID_SEEDS = ["2000-01-01T00:00:00Z", "20000101T000000Z", "2000-001T12:30+05:30", "2000-W01-1T23:59:59-00:30",
               "+0020000101T00Z", "-002000-12-31T24:00Z", "2000", "2000-02", "20", "2000-W52", "2000-02-29T06,5Z",
               "2000-02-29T06:30,25Z", "20000229T063015.125+0100", "1999-365T00Z", "2004-W53-7", "T06", "-W-3",
               "--0229", "P1Y2M3DT4H5M6S", "P3W", "-PT1,5H", "P0001-02-03T04:05:06", "P00010203T040506", "PT0S",
               "R/2000/P1D", "R5/2000-01-01T00Z/PT6H", "R3/P1M/2000-03-31T00Z", "R2/2000/2001", "R1/2000/P0Y"]
ALPHABET = list("0123456789TZWPRYMDHS+-:,./ ") + ["٣", "７", "²", "\u0000", "é", "\n", "%", "T", "Z", "-", "+"]


def mutate(rng, s):
    r = rng.random()
    s = list(s)
    if r < 0.25 and s:
        del s[rng.randrange(len(s))]
    elif r < 0.5:
        s.insert(rng.randint(0, len(s)), rng.choice(ALPHABET))
    elif r < 0.75 and s:
        s[rng.randrange(len(s))] = rng.choice(ALPHABET)
    elif r < 0.85:
        other = rng.choice(VALID_SEEDS)
        i, j = rng.randint(0, len(s)), rng.randint(0, len(other))
        s = s[:i] + list(other[j:])
    elif r < 0.92:
        s = s + s
    elif r < 0.96:
        k = rng.randint(0, len(s))
        s[k:k] = list("9" * rng.choice([5, 20, 200]))
    else:
        s = [rng.choice(ALPHABET) for _ in range(rng.randint(0, 12))]
    return "".join(s)


def parser_configs():
    from metomi.isodatetime.parsers import TimePointParser, DurationParser, TimeRecurrenceParser
    cfgs = []
    for ned in (0, 2):
        for trunc in (False, True):
            for basic in (False, True):
                cfgs.append(("tp/ned%d/%s/%s" % (ned, "trunc" if trunc else "full", "basic" if basic else "any"),
                             TimePointParser(num_expanded_year_digits=ned, allow_truncated=trunc,
                                             allow_only_basic=basic, assumed_time_zone=(0, 0)).parse))
    cfgs.append(("dur", DurationParser().parse))
    cfgs.append(("rec", TimeRecurrenceParser().parse))
    cfgs.append(("rec/trunc", TimeRecurrenceParser(
        TimePointParser(allow_truncated=True, assumed_time_zone=(0, 0))).parse))
    return cfgs


class Garbage(Op):
    prop = PROP
    name = "garbage"
    model = False
    _cfgs = None
    retry_scale = 3      # a parse that needs more than 15 s on a short text counts as a hang

    def gen(self, rng, tier, boost):
        n = 2500 * boost if tier == "quick" else 12000 * boost
        names = [c[0] for c in self.configs()]
        for _ in range(n):
            s = rng.choice(VALID_SEEDS)
            for _ in range(rng.choice([0, 1, 1, 2, 3])):
                s = mutate(rng, s)
            yield (rng.choice(names), s)
        # long digit runs in every numeric position of each notation, well-formed and not (a pattern that
        # backtracks exponentially on them is a hang within a few dozen digits)
        digits = "14285714285714285714285714285714285714285714285714"
        # ... and runs beyond what a binary64 holds (10**309 and up overflow float conversion and division: an
        # OverflowError is not a ValueError)
        for k in (22, 30, 48, 310, 400):
            run = (digits * 9)[:k]
            for tmpl in ("PT%sS", "PT%sM", "PT%sH", "PT0.%sS", "PT0,%sM", "PT%s", "PT%sx", "PT%sSM", "P%sD", "P%sY",
                         "P%sW", "P%s", "P1Y%sM", "PT1.%s.1S", "PT%s,%sS", "P0001-01-01T%s", "-P%sDT%sS"):
                yield ("dur", tmpl.replace("%s", run))
            for tmpl in ("2000-01-01T%sZ", "2000-01-01T00:00:00,%sZ", "%s", "2000%s", "2000-01-01T00Z%s",
                         "+%s-01-01", "2000-01-01T00:00:00+%s", "T%s", "2000-W%s", "2000-%s"):
                yield (rng.choice([n_ for n_ in names if n_.startswith("tp/")]), tmpl.replace("%s", run))
            for tmpl in ("R5/2000-01-01T00Z/PT0.%sS", "R2/2000-01-01T00Z/PT%sx", "R/PT%sZ/2000",
                         "R2/2000/2000-01-01T00:00:00,%s", "R2/%s/P1D", "R2/P1D/%s"):
                yield ("rec", tmpl.replace("%s", run))
        # bounded recurrences with huge repetition counts are the cost finding F10: keep a witness
        yield ("rec", "R99999999999999/2000/P1D")
        yield ("rec/trunc", "R5/T00Z/P1D")      # known finding F11 witness

    def configs(self):
        if Garbage._cfgs is None:
            Garbage._cfgs = parser_configs()
        return Garbage._cfgs

    def line(self, a):
        return "garbage %s %r" % a

    def impl(self, a):
        set_mode("greg")
        func = dict(self.configs())[a[0]]
        try:
            obj = engine.guarded(func, a[1])
        except ValueError as exc:
            return "ValueError:" + type(exc).__name__
        except engine.OpTimeout:
            return "Timeout"
        except BaseException as exc:
            return "OTHER:" + type(exc).__name__
        # a returned object must be usable: iterate a little / print
        try:
            if a[0].startswith("rec"):
                for i, _p in enumerate(obj):
                    if i > 3:
                        break
            return "object:" + type(obj).__name__
        except engine.OpTimeout:
            return "Timeout"
        except ValueError as exc:
            return "object-then-ValueError:" + type(exc).__name__
        except BaseException as exc:
            return "object-then-OTHER:" + type(exc).__name__

    def oracle(self, a, out):
        if out.startswith(("ValueError:", "object:", "object-then-ValueError")):
            return None
        if out == "Timeout":
            return "parser %s did not finish on %r within the time budget" % a
        return "parser %s on %r ended with %s, which is neither a valid object nor a ValueError" % (a[0], a[1], out)

    def label(self, a):
        return "garbage/%s" % a[0].split("/")[0]


def _f10(op, a, out, msg):
    import re
    if op.name != "garbage" or out != "Timeout" or not a[0].startswith("rec"):
        return False
    mt = re.match(r"^R(\d*)/", a[1])
    if not mt:
        return False
    # an unbounded recurrence derives no far bound, but stepping it once already spans its interval
    reps = int(mt.group(1)) if mt.group(1) else 2
    if reps > 10 ** 6:
        return True
    # ... or two given anchors (start/second-point notation) more than 1e7 days apart
    parts = a[1].split("/")
    if len(parts) == 3 and not parts[1].startswith(("P", "-P")) and not parts[2].startswith(("P", "-P")):
        try:
            from metomi.isodatetime.parsers import TimePointParser
            tp = TimePointParser(allow_truncated=a[0].endswith("trunc"), assumed_time_zone=(0, 0))
            y1, y2 = tp.parse(parts[1]).year, tp.parse(parts[2]).year
            if y1 is not None and y2 is not None and abs(y2 - y1) * 365 * max(reps - 1, 1) > 10 ** 7:
                return True
        except Exception:
            pass
    # ... or a derived far bound more than 1e7 days from the anchor: (reps - 1) x a huge interval
    days = 0.0
    for part in a[1].split("/")[1:]:
        if part.startswith(("P", "-P")):
            date, _, time = part.partition("T")
            for num, unit in re.findall(r"(\d+(?:[.,]\d+)?)([YMWD])", date):
                days += float(num.replace(",", ".")) * {"Y": 365, "M": 30, "W": 7, "D": 1}[unit]
            for num, unit in re.findall(r"(\d+(?:[.,]\d+)?)([HMS])", time):
                days += float(num.replace(",", ".")) / {"H": 24, "M": 1440, "S": 86400}[unit]
    return max(reps - 1, 1) * days > 10 ** 7


def _f11(op, a, out, msg):
    return (op.name == "garbage" and a[0] == "rec/trunc" and out in ("OTHER:TypeError", "object-then-OTHER:TypeError")
            and a[1].startswith("R"))


KNOWN_PREDICATES = {"cost_linear_in_days_spanned": _f10, "bounded_recurrence_truncated_anchor_typeerror": _f11}


class TextAccept(Op):
    """The constructor's decisions reached through text: a valid/invalid field tuple spelled in
    extended, basic, ordinal and week notation is accepted iff the tuple is a possible date-time."""
    prop = PROP
    name = "textaccept"
    model = False

    def gen(self, rng, tier, boost):
        n = 4000 * boost if tier == "quick" else 40000 * boost
        for _ in range(n):
            m = gens.mode(rng)
            y = rng.choice([2000, 2001, 2004, 1900, 2015, 1, 9999])
            kind = rng.choice("cow")
            hh, mi, ss = rng.choice([(0, 0, 0), (23, 59, 59), (24, 0, 0), (24, 0, 1), (24, 1, 0), (25, 0, 0),
                                     (12, 60, 0), (12, 0, 60), (12, 30, 30), (24, 30, 0), (24, 59, 0), (23, 59, 0),
                                     (24, 0, 0), (12, 30, 0), (7, 0, 0)])
            ext = rng.random() < 0.5
            # the time in every precision that can spell it, the zone in every spelling of UTC
            times = [("T%02d:%02d:%02d" if ext else "T%02d%02d%02d") % (hh, mi, ss)]
            if ss == 0:
                times.append(("T%02d:%02d" if ext else "T%02d%02d") % (hh, mi))
                if mi == 0:
                    times.append("T%02d" % hh)
            tail = rng.choice(times) + rng.choice(["Z", "Z", "+00:00" if ext else "+0000", "+00"])
            if kind == "c":
                mo = rng.choice([0, 1, 2, 4, 12, 13])
                d = rng.choice([0, 1, 28, 29, 30, 31, 32])
                text = ("%04d-%02d-%02d" if ext else "%04d%02d%02d") % (y, mo, d) + tail
                args = (y, mo, None, None, d, None, hh, mi, ss, 0, 0)
            elif kind == "o":
                n_ = rng.choice([0, 1, 60, 360, 361, 365, 366, 367])
                text = ("%04d-%03d" if ext else "%04d%03d") % (y, n_) + tail
                args = (y, None, None, n_, None, None, hh, mi, ss, 0, 0)
            else:
                w = rng.choice([0, 1, 51, 52, 53, 54])
                d = rng.choice([0, 1, 7, 8])
                text = ("%04d-W%02d-%d" if ext else "%04dW%02d%d") % (y, w, d) + tail
                args = (y, None, w, None, None, d, hh, mi, ss, 0, 0)
            yield (m, text) + args

    def line(self, a):
        return "textaccept %s %s" % (a[0], a[1])

    def impl(self, a):
        from metomi.isodatetime.parsers import TimePointParser
        set_mode(a[0])
        try:
            return T.canon_tp(TimePointParser().parse(a[1]))
        except ValueError:
            return "err"

    def oracle(self, a, out):
        want = spec_accept(a[0], a[2:])
        if out.startswith("EXC") or out == "Timeout":
            return "parsing %s in %s raised %s" % (a[1], a[0], out)
        if want is None and out != "err":
            return "%s in %s is not a possible date-time but parsed as %s" % (a[1], a[0], out)
        if want is not None and out != T.tp_str(want):
            return "%s in %s is a legal date-time but parsing gave %s" % (a[1], a[0], out)

    def label(self, a):
        return "textaccept/%s/%s" % (a[0], "legal" if spec_accept(a[0], a[2:]) else "illegal")


class DecAccept(Op):
    """Decimal fractions on the last time unit, through the constructor and through text: legal iff every field
    is in range and the time of day does not exceed 24:00 (hour 24 only as exactly 24:00:00, fraction 0)."""
    prop = PROP
    name = "decaccept"
    model = False

    def gen(self, rng, tier, boost):
        n = 600 * boost if tier == "quick" else 5000 * boost
        fracs = ["0", "5", "25", "999999", "000001", "0000", "1", "50", "000"]
        for _ in range(n):
            m = gens.mode(rng)
            hh, mi, ss = rng.choice([(24, 0, 0), (24, 0, 0), (23, 59, 59), (0, 0, 0), (12, 30, 30), (24, 0, 1),
                                     (24, 1, 0), (23, 0, 0), (23, 59, 0), (12, 60, 0), (12, 0, 60), (25, 0, 0)])
            unit = rng.choice("hms")
            if unit == "h" and (mi or ss):
                mi = ss = 0
            if unit == "m" and ss:
                ss = 0
            frac = rng.choice(fracs)
            how = rng.choice(["ext", "basic", "ctor"])
            sep = rng.choice(",.")
            yield (m, hh, mi, ss, unit, frac, how, sep)

    def line(self, a):
        return "decaccept " + " ".join(str(x) for x in a)

    def text(self, a):
        m, hh, mi, ss, unit, frac, how, sep = a
        ext = how == "ext"
        c = ":" if ext else ""
        t = "%02d" % hh
        if unit in "ms":
            t += c + "%02d" % mi
        if unit == "s":
            t += c + "%02d" % ss
        return ("2001-03-04T" if ext else "20010304T") + t + sep + frac + "Z"

    def impl(self, a):
        from metomi.isodatetime.parsers import TimePointParser
        from metomi.isodatetime.data import TimePoint
        m, hh, mi, ss, unit, frac, how, sep = a
        set_mode(m)
        try:
            if how == "ctor":
                kw = dict(year=2001, month_of_year=3, day_of_month=4, hour_of_day=hh)
                f = float("0." + frac)
                if unit == "h":
                    kw["hour_of_day_decimal"] = f
                elif unit == "m":
                    kw.update(minute_of_hour=mi, minute_of_hour_decimal=f)
                else:
                    kw.update(minute_of_hour=mi, second_of_minute=ss, second_of_minute_decimal=f)
                p = TimePoint(**kw)
            else:
                p = TimePointParser().parse(self.text(a))
        except ValueError:
            return "err"
        return "ok %r %r %r" % (p.hour_of_day, p.minute_of_hour, p.second_of_minute)

    def oracle(self, a, out):
        from fractions import Fraction
        m, hh, mi, ss, unit, frac, how, sep = a
        f = Fraction(int(frac), 10 ** len(frac))
        total = Fraction(hh * 3600 + mi * 60 + ss) + f * {"h": 3600, "m": 60, "s": 1}[unit]
        legal = (0 <= hh <= 24 and 0 <= mi < 60 and 0 <= ss < 60 and total <= 86400
                 and (hh < 24 or total == 86400))
        what = "TimePoint(hour=%d, minute=%d, second=%d, decimal on %s = 0.%s)" % (hh, mi, ss, unit, frac) \
            if how == "ctor" else repr(self.text(a))
        if out.startswith("EXC") or out == "Timeout":
            return "%s in %s raised %s" % (what, m, out)
        if legal and out == "err":
            return "%s in %s is a legal time of day but was refused" % (what, m)
        if not legal and out != "err":
            return "%s in %s is not a possible time of day (24:00 is the only time with hour 24) but was accepted: %s" % (
                what, m, out)

    def label(self, a):
        return "decaccept/%s/%s/h%s" % (a[6], a[4], "24" if a[1] == 24 else "<24" if a[1] < 24 else ">24")


class ExcClasses(Op):
    """Every exception class the package defines derives from ValueError (live MRO)."""
    prop = PROP
    name = "excmro"
    model = False

    def gen(self, rng, tier, boost):
        yield ("exceptions",)

    def line(self, a):
        return "excmro"

    def impl(self, a):
        from metomi.isodatetime import exceptions as ex
        classes = [c for c in vars(ex).values()
                   if isinstance(c, type) and issubclass(c, BaseException) and c.__module__ == ex.__name__]
        # the generic base class is never raised itself (Gen.Exceptions lists what is raised): leaves only
        bad = [c.__name__ for c in classes
               if not any(o is not c and issubclass(o, c) for o in classes) and not issubclass(c, ValueError)]
        return "ok" if not bad else "not ValueError: " + ",".join(sorted(bad))

    def oracle(self, a, out):
        if out != "ok":
            return "exception classes " + out


class TruncAccept(Op):
    """Truncated points (allow_truncated parsers and the constructor with truncated=True): whatever is accepted
    must have every specified field inside its basic legal range - "no entry point admits an impossible
    date-time" holds for the year-less forms too."""
    prop = PROP
    name = "truncaccept"
    model = False

    RANGES = {"month_of_year": (1, 12), "week_of_year": (1, 53), "day_of_year": (1, 366), "day_of_month": (1, 31),
              "day_of_week": (1, 7), "hour_of_day": (0, 24), "minute_of_hour": (0, 60), "second_of_minute": (0, 60),
              "year_of_century": (0, 99), "year_of_decade": (0, 9)}

    def gen(self, rng, tier, boost):
        import tprops
        n = (2500 if tier == "quick" else 30000) * boost
        for _ in range(n):
            mode, cfg, text = tprops.gen_case(rng)
            if cfg[2]:
                yield ("text", mode, cfg, text)
        # a short year (year of century / of decade) with a year-dependent upper bound: 29 Feb, day 366, week 53
        for _ in range(n // 3):
            m = gens.mode(rng)
            ned = rng.choice([0, 0, 2])
            cfg = (ned, False, True, ("u",))
            yy = rng.choice([0, 1, 3, 4, 5, 15, 16, 20, 26, 96, 99, rng.randint(0, 99)])
            z = rng.randint(0, 9)
            form = rng.choice(["%02d-02-%02d" % (yy, rng.choice([28, 29, 29, 30])),
                               "%02d02%02d" % (yy, rng.choice([28, 29, 29, 30])),
                               "%02d-%03d" % (yy, rng.choice([360, 361, 365, 366, 366, 367])),
                               "%02d%03d" % (yy, rng.choice([360, 361, 365, 366, 366, 367])),
                               "%02dW%02d" % (yy, rng.choice([51, 52, 53, 53, 54])),
                               "%02d-W%02d-%d" % (yy, rng.choice([52, 53, 53, 54]), rng.randint(1, 7)),
                               "%02dW%02d%d" % (yy, rng.choice([52, 53, 53, 54]), rng.randint(1, 7)),
                               "-%dW%02d" % (z, rng.choice([52, 53, 53, 54])),
                               "-%d-W%02d-%d" % (z, rng.choice([52, 53, 53, 54]), rng.randint(1, 7)),
                               "-%dW%02d%d" % (z, rng.choice([52, 53, 53, 54]), rng.randint(1, 7))])
            if rng.random() < 0.3:
                form += rng.choice(["T06", "T0630", "T24", "T-30"])
            yield ("text", m, cfg, form)
            if rng.random() < 0.4:
                nm, v = rng.choice([("year_of_century", yy), ("year_of_decade", z)])
                kw = rng.choice([(("day_of_month", rng.choice([28, 29, 30])), ("month_of_year", 2)),
                                 (("day_of_year", rng.choice([360, 361, 365, 366, 367])),),
                                 (("week_of_year", rng.choice([52, 53, 54])),)])
                yield ("ctor", m, tuple(sorted(kw + (("truncated_property", nm), ("year", v)))), "")
        fields = list(self.RANGES)
        for _ in range(n // 3):
            m = gens.mode(rng)
            k = rng.choice([1, 1, 2, 2, 3])
            names = rng.sample(["month_of_year", "day_of_month", "hour_of_day", "minute_of_hour", "second_of_minute",
                                "day_of_year", "week_of_year", "day_of_week"], k)
            vals = []
            for nm in names:
                lo, hi = self.RANGES[nm]
                vals.append((nm, rng.choice([lo - 1, lo, hi - 1, hi, hi + 1, rng.randint(lo, hi)])))
            yield ("ctor", m, tuple(sorted(vals)), "")

    def line(self, a):
        return "truncaccept %s %s %r %r" % (a[0], a[1], a[2], a[3])

    def impl(self, a):
        import tprops
        from metomi.isodatetime.data import TimePoint
        kind, m = a[0], a[1]
        set_mode(m)
        if kind == "text":
            return tprops.impl(m, a[2], a[3])
        try:
            p = TimePoint(truncated=True, **dict(a[2]))
        except ValueError:
            return "err"
        props = p.get_truncated_properties()
        return "D " + ";".join("%s=%s" % (k, tprops.unit(v)) for k, v in props.items())

    def oracle(self, a, out):
        if out.startswith(("EXC", "Timeout")):
            return "%s raised %s" % (self.line(a), out)
        if not out.startswith("D "):
            return None
        short = self.short_year(a, out)
        if short:
            return short
        for item in out[2:].split(";"):
            if not item:
                continue
            name, _, val = item.partition("=")
            whole, _, frac = val.partition("+")
            lo, hi = self.RANGES.get(name, (None, None))
            if lo is None:
                continue
            v = int(whole)
            has_frac = bool(frac.strip("0"))
            upper_open = name in ("minute_of_hour", "second_of_minute")
            bad = v < lo or v > hi or (upper_open and v >= hi) or (name == "hour_of_day" and v == 24 and has_frac)
            if bad:
                return "%s: accepted with %s = %s, outside its legal range" % (self.line(a), name, val)
        return None

    def short_year(self, a, out):
        """A point holding only the year of its century / decade is possible only if SOME year with those last
        digits has the month length, the day of the year or the week of the year that it names."""
        props = {}
        for item in out[2:].split(";"):
            name, _, val = item.partition("=")
            if name:
                props[name] = int(val.partition("+")[0])
        if "year_of_century" in props:
            years = [y for y in range(0, 2800) if y % 100 == props["year_of_century"]]
        elif "year_of_decade" in props:
            years = [y for y in range(0, 2800) if y % 10 == props["year_of_decade"]]
        else:
            return None
        m = a[1]

        def possible(y):
            if "month_of_year" in props and "day_of_month" in props and 1 <= props["month_of_year"] <= 12:
                if props["day_of_month"] > oracle.month_len(m, y, props["month_of_year"]):
                    return False
            if "day_of_year" in props and props["day_of_year"] > oracle.year_len(m, y):
                return False
            if "week_of_year" in props and props["week_of_year"] > oracle.weeks_in_year(m, y):
                return False
            return True
        if not any(possible(y) for y in years):
            return "%s: accepted (%s) though no year ending in those digits has such a date" % (self.line(a), out)
        return None

    def label(self, a):
        return "truncaccept/%s/%s" % (a[0], a[1])


class MkTrunc(Op):
    """`TimePoint(truncated=True, ...)` with integral arguments against the model `mkTruncTP`
    (lean/IsoDT/Model/ConstructTrunc.lean; theorems Props/C09c): refused or not, the slots kept, what
    `get_truncated_properties()` reports, the zone.  The oracle is the property's own clause read for truncated
    points: every kept field legal, at most one date notation, and with a year (short or not) the date possible
    in some year ending in the same digits."""
    prop = PROP
    name = "mktrunc"

    KEYS = ["year", "month_of_year", "day_of_month", "day_of_year", "week_of_year", "day_of_week",
            "hour_of_day", "minute_of_hour", "second_of_minute", "time_zone_hour", "time_zone_minute"]
    TPROPS = {"-": None, "c": "year_of_century", "d": "year_of_decade"}
    POOLS = [[0, 1, 3, 4, 5, 9, 10, 15, 16, 20, 26, 96, 99, 100, 2000, 2001, 2015, -1, -4],
             [-1, 0, 1, 2, 2, 2, 3, 4, 11, 12, 13], [-1, 0, 1, 28, 29, 29, 30, 31, 32],
             [-1, 0, 1, 59, 60, 359, 360, 361, 365, 366, 366, 367], [-1, 0, 1, 51, 52, 53, 53, 54],
             [-1, 0, 1, 7, 8], [-1, 0, 1, 23, 24, 24, 25], [-1, 0, 0, 1, 59, 60], [-1, 0, 0, 1, 59, 60],
             [-100, -99, -12, -1, 0, 1, 12, 99, 100], [-60, -59, -30, -1, 0, 1, 30, 59, 60]]

    def gen(self, rng, tier, boost):
        n = (3000 if tier == "quick" else 40000) * boost
        N = None
        for _ in range(n):
            m = gens.mode(rng)
            tp = rng.choice("-ccdd")
            r = rng.random()
            if r < 0.45:      # one date notation with a year-dependent limit, maybe a time
                y = N if tp == "-" and rng.random() < 0.7 else rng.choice(self.POOLS[0] + [rng.randint(0, 99)])
                kind = rng.randint(0, 2)
                v = [y, N, N, N, N, N, N, N, N, N, N]
                if kind == 0:
                    v[1] = rng.choice([N, 2, 2, rng.randint(1, 12)])
                    v[2] = rng.choice([N, 28, 29, 29, 30, 31, rng.randint(1, 31)])
                elif kind == 1:
                    v[3] = rng.choice([359, 360, 361, 365, 366, 366, 367, rng.randint(1, 366)])
                else:
                    v[4] = rng.choice([N, 52, 53, 53, 54, rng.randint(1, 53)])
                    v[5] = rng.choice([N, rng.randint(1, 7)])
                if rng.random() < 0.4:
                    v[6] = rng.choice([N, 0, 6, 23, 24])
                    v[7] = rng.choice([N, 0, 30])
                    v[8] = rng.choice([N, 0, 59])
                if rng.random() < 0.2:
                    v[9] = rng.choice([N, 0, 5, -3])
                    v[10] = rng.choice([N, 0, 30 if (v[9] or 0) >= 0 else -30])
            else:             # any mixture, conflicts included
                v = []
                for i, pool in enumerate(self.POOLS):
                    absent = 0.35 if i == 0 else 0.6
                    v.append(N if rng.random() < absent else rng.choice(pool))
            yield (m, tp) + tuple(v)

    def line(self, a):
        return "mktrunc %s %s %s" % (a[0], a[1], " ".join("_" if x is None else str(x) for x in a[2:]))

    def impl(self, a):
        from metomi.isodatetime.data import TimePoint
        set_mode(a[0])
        kw = {k: v for k, v in zip(self.KEYS, a[2:]) if v is not None}
        if self.TPROPS[a[1]] is not None:
            kw["truncated_property"] = self.TPROPS[a[1]]
        try:
            p = TimePoint(truncated=True, **kw)
        except ValueError:
            return "err"
        try:
            d = p.get_truncated_properties()
            items = ";".join("%s=%d" % (k, v) for k, v in d.items())
            props = "D " + items if items else "D"
        except TypeError:
            props = "EXC"
        z = p._time_zone
        return "%s | Y=%s | tz=%s" % (props, "_" if p._year is None else str(p._year),
                                     "unknown" if z.unknown else "%d %d" % (z.hours, z.minutes))

    def oracle(self, a, out):
        if out.startswith(("EXC:", "Timeout", "OTHER")):
            return "%s raised %s" % (self.line(a), out)
        if out == "err":
            return None
        m = a[0]
        y, mo, dom, doy, wk, dow, hh, mi, ss, tzh, tzm = a[2:]
        bad = None
        if sum([mo is not None or dom is not None, doy is not None, wk is not None or dow is not None]) > 1:
            bad = "two date notations at once"
        elif mo is not None and not 1 <= mo <= 12:
            bad = "month %d" % mo
        elif dow is not None and not 1 <= dow <= 7:
            bad = "weekday %d" % dow
        elif hh is not None and not 0 <= hh <= 24:
            bad = "hour %d" % hh
        elif (mi is not None and not 0 <= mi < 60) or (ss is not None and not 0 <= ss < 60):
            bad = "minute / second out of range"
        elif hh == 24 and (mi or ss):
            bad = "24:xx other than 24:00"
        elif not oracle.tz_valid(tzh or 0, tzm or 0):
            bad = "zone %r:%r" % (tzh, tzm)
        else:
            # (every calendar repeats after 2800 years: 400-year leap cycle x 7-year drift of the 360-day weeks)
            if y is None:
                years = range(0, 2800)
            else:
                years = [k for k in range(0, 2800) if k % 100 == y % 100]

            def possible(k):
                if dom is not None and dom < 1 or doy is not None and doy < 1 or wk is not None and wk < 1:
                    return False
                if dom is not None and dom > (oracle.month_len(m, k, mo) if mo is not None else 31 if m != "d360" else 30):
                    return False
                if doy is not None and doy > oracle.year_len(m, k):
                    return False
                if wk is not None and wk > oracle.weeks_in_year(m, k):
                    return False
                return True
            if not any(possible(k) for k in years):
                bad = "no year%s has such a date" % ("" if y is None else " ending like %d" % y)
        if bad:
            return "%s was accepted (%s): %s" % (self.line(a), out, bad)
        return None

    def label(self, a):
        return "mktrunc/%s/%s" % (a[0], a[1])


class RecAccept(Op):
    """Recurrence texts whose start, end or second point is an impossible date-time (or whose interval is malformed)
    are refused whatever the repetition count and notation - no slot of the expression goes unread; the same
    expression with the nearest valid twin in that slot is accepted."""
    prop = PROP
    name = "recaccept"
    model = False

    # (impossible, valid twin, the calendar modes in which the first is impossible)
    ALL = ("greg", "d360", "d365", "d366")
    TWINS = [("2000-02-30T00Z", "2000-02-28T00Z", ("greg", "d365", "d366")),
             ("2001-02-29T00Z", "2001-02-28T00Z", ("greg", "d365")),
             ("2000-13-01T00Z", "2000-12-01T00Z", ALL), ("2000-00-10T00Z", "2000-01-10T00Z", ALL),
             ("2000-01-01T24:30Z", "2000-01-01T23:30Z", ALL), ("2000-01-01T25Z", "2000-01-01T23Z", ALL),
             ("2000-01-01T00:60Z", "2000-01-01T00:59Z", ALL), ("2000-01-01T00:00:60Z", "2000-01-01T00:00:59Z", ALL),
             ("2000-01-01T00+01:75", "2000-01-01T00+01:45", ALL), ("2000-367T00Z", "2000-360T00Z", ALL),
             ("2001-366T00Z", "2001-360T00Z", ("greg", "d365", "d360")), ("2000-W54-1T00Z", "2000-W51-1T00Z", ALL),
             ("2000-W10-8T00Z", "2000-W10-7T00Z", ALL), ("2000-01-31T00Z", "2000-01-30T00Z", ("d360",)),
             ("20000230T00Z", "20000228T00Z", ("greg", "d365", "d366")), ("2000-02-30", "2000-02-28", ("greg", "d365", "d366"))]
    DURS = ["P1D", "PT6H", "P1M", "P1Y", "P1W"]
    BAD_DURS = ["P1", "PT6", "P1H", "PxD", "P-1D"]

    def gen(self, rng, tier, boost):
        n = 600 * boost if tier == "quick" else 6000 * boost
        for _ in range(n):
            m = gens.mode(rng)
            bad, good, only = rng.choice(self.TWINS)
            if m not in only:
                continue
            reps = rng.choice(["", "1", "1", "2", "3", "10"])
            other = rng.choice(["1999-06-01T00Z", "1999-06-01T00Z", "1999-001T00Z", "1999-W10-1T00Z"])
            late = rng.choice(["2030-06-01T00Z", "2030-152T00Z"])
            form = rng.choice(["start/end:end", "start/end:start", "start/dur", "dur/end", "start/baddur"])
            for point, impossible in ((bad, True), (good, False)):
                if form == "start/end:end":
                    text = "R%s/%s/%s" % (reps, other, point)
                elif form == "start/end:start":
                    text = "R%s/%s/%s" % (reps, point, late)
                elif form == "start/dur":
                    text = "R%s/%s/%s" % (reps, point, rng.choice(self.DURS))
                elif form == "dur/end":
                    text = "R%s/%s/%s" % (reps, rng.choice(self.DURS), point)
                else:
                    text = "R%s/%s/%s" % (reps, good, rng.choice(self.BAD_DURS) if impossible else rng.choice(self.DURS))
                yield (m, text, impossible)

    def line(self, a):
        return "recaccept %s %r %s" % (a[0], a[1], "impossible" if a[2] else "valid")

    def impl(self, a):
        from metomi.isodatetime.parsers import TimeRecurrenceParser
        set_mode(a[0])
        try:
            r = TimeRecurrenceParser().parse(a[1])
        except ValueError:
            return "err"
        return "ok " + str(r)

    def oracle(self, a, out):
        if out.startswith(("EXC", "Timeout")):
            return "%s: %s" % (self.line(a), out)
        if a[2] and out != "err":
            return "%s: a recurrence naming an impossible date-time / a malformed interval was accepted as %s" % (
                self.line(a), out)
        if not a[2] and out == "err":
            return "%s: a well-formed recurrence over valid date-times was refused" % self.line(a)

    def label(self, a):
        return "recaccept/%s/%s" % (a[0], "impossible" if a[2] else "valid")


def ops():
    import common
    common.foreign_configurations()
    return [MkTP(), MkTrunc(), RecAccept(), TextAccept(), DecAccept(), TruncAccept(), Garbage(), ExcClasses()]
