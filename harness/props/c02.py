"""C02 — comparison and hashing of time points follow the timeline."""
import itertools
from fractions import Fraction

import oracle
import gens
import tpcommon as T
from engine import Op, set_mode

PROP = "C02"
QUICK_BOOST = 2
LEAN_MODULES = ["IsoDT.Props.C02", "IsoDT.Props.C02b", "IsoDT.Props.C02q"]
RULE = ("ordered pairs built from a target instant distance (0, +-1 s, +-1 min, +-1 h, +-1 d, large) "
        "re-expressed in another representation / offset / the 24:00 form; non-trivial when the operands "
        "differ in representation, offset or 24:00 spelling; distinct by (op, arguments)")


class Cmp(Op):
    prop = PROP
    name = "cmp"

    def gen(self, rng, tier, boost):
        n = 3000 * boost if tier == "quick" else 12000 * boost
        for _ in range(n):
            m = gens.mode(rng)
            a, b = T.gen_pair(rng, m)
            yield (m, a, b)
        for _ in range(n // 4):       # both operands near (possibly different) year boundaries
            m = gens.mode(rng)
            a, b, _d = T.gen_year_edge_pair(rng, m)
            if rng.random() < 0.35:   # ... or the same instant written twice
                b = T.respell(rng, m, a, keep_rep=0.3)
            yield (m, a, b)
        # re-zoning across 1 January in both directions, every representation pair, leap/common neighbours
        for m in oracle.MODES:
            for y in (2019, 2020, 2021, 2024, 2025, 2100, 2101, 0, 1, -4, -3):
                n0 = 86400 * oracle.dby(m, y)
                for rep1 in "cow":
                    for rep2 in "cow":
                        for (z1, z2, off) in (((1, 0), (0, 0), 1800), ((0, 0), (-1, 0), 1800), ((0, 0), (1, 0), -1800),
                                              ((13, 45), (-12, 0), 3600)):
                            i0 = n0 + off - 3600 * z1[0] - 60 * z1[1]
                            a = T.tp_from_inst(m, i0, rep1, z1[0], z1[1])
                            for delta in (0, 1, -1):
                                b = T.tp_from_inst(m, i0 + delta, rep2, z2[0], z2[1])
                                yield (m, a, b)
                                yield (m, b, a)
        # the 24:00 witnesses of the repaired defect, in every mode and representation
        for m in oracle.MODES:
            for rep1 in "cow":
                for rep2 in "cow":
                    base = T.inst(m, ("c", 2001, 1, 1, 0, 0, 0, 0, 0))
                    a = T.tp_from_inst(m, base, rep1, 0, 0, use24=True)
                    b = T.tp_from_inst(m, base, rep2, 1, 0)
                    yield (m, a, b)
                    yield (m, b, a)

    def line(self, a):
        return "cmp %s %s %s" % (a[0], T.tp_str(a[1]), T.tp_str(a[2]))

    def impl(self, a):
        set_mode(a[0])
        p, q = T.mk_tp(a[1]), T.mk_tp(a[2])
        lt, eq, gt, le, ge, ne = p < q, p == q, p > q, p <= q, p >= q, p != q
        flags = (lt, eq, gt)
        if sum(bool(x) for x in flags) != 1 or le != (lt or eq) or ge != (gt or eq) or ne == eq:
            return "INCONSISTENT lt=%s eq=%s gt=%s le=%s ge=%s ne=%s" % (lt, eq, gt, le, ge, ne)
        return "-1" if lt else ("0" if eq else "1")

    def oracle(self, a, out):
        m, p, q = a
        want = str(T.sign(T.inst(m, p) - T.inst(m, q)))
        if out != want:
            return "comparing %s with %s in %s gives %s, the instants say %s" % (
                T.describe_tp(p), T.describe_tp(q), m, out, want)

    def label(self, a):
        m, p, q = a
        return "cmp/%s/%s%s-%s%s/%s" % (m, p[0], "24" if p[4] == 24 else "", q[0],
                                        "24" if q[4] == 24 else "",
                                        "sameTZ" if p[7:] == q[7:] else "diffTZ")

    def nontrivial(self, a):
        m, p, q = a
        return p[0] != q[0] or p[7:] != q[7:] or p[4] == 24 or q[4] == 24


class HashEq(Op):
    """Points at the same instant hash equally (model: equal hash keys)."""
    prop = PROP
    name = "hasheq"

    def gen(self, rng, tier, boost):
        n = 1500 * boost if tier == "quick" else 6000 * boost
        for _ in range(n):
            m = gens.mode(rng)
            a, b = T.gen_pair(rng, m, delta=0)
            yield (m, a, b)
        for _ in range(n // 3):
            m = gens.mode(rng)
            a = T.gen_year_edge_tp(rng, m)
            yield (m, a, T.respell(rng, m, a, keep_rep=0.3))

    def line(self, a):
        return "hasheq %s %s %s" % (a[0], T.tp_str(a[1]), T.tp_str(a[2]))

    def impl(self, a):
        set_mode(a[0])
        p, q = T.mk_tp(a[1]), T.mk_tp(a[2])
        return "true" if hash(p) == hash(q) else "false"

    def oracle(self, a, out):
        if out != "true":
            return "%s and %s denote the same instant but hash differently (%s)" % (
                T.describe_tp(a[1]), T.describe_tp(a[2]), out)

    def label(self, a):
        return "hasheq/%s/%s-%s" % (a[0], a[1][0], a[2][0])


class Pool(Op):
    """sorted(), set() and dict keys behave by instant; symmetry and transitivity on triples."""
    prop = PROP
    name = "pool"
    model = False

    def gen(self, rng, tier, boost):
        n = 150 * boost if tier == "quick" else 800 * boost
        for _ in range(n):
            m = gens.mode(rng)
            base = T.gen_tp(rng, m)
            pts = [base]
            for _ in range(5):
                delta = rng.choice([0, 0, 1, -1, 60, -3600, 86400, -86400, 3600])
                tzh, tzm = gens.offset(rng)
                pts.append(T.tp_from_inst(m, T.inst(m, base) + delta, rng.choice("cow"), tzh, tzm,
                                          use24=rng.random() < 0.5))
            yield (m,) + tuple(pts)

    def line(self, a):
        return "pool " + a[0] + " " + " | ".join(T.tp_str(t) for t in a[1:])

    def impl(self, a):
        set_mode(a[0])
        m = a[0]
        pts = [T.mk_tp(t) for t in a[1:]]
        insts = [T.inst(m, t) for t in a[1:]]
        problems = []
        order = sorted(range(len(pts)), key=lambda i: insts[i])
        srt = sorted(pts)
        if [T.inst(m, T.tp_tuple(p)) for p in srt] != [insts[i] for i in order]:
            problems.append("sorted() is not by instant")
        if len(set(pts)) != len(set(insts)):
            problems.append("set() has %d members for %d distinct instants" % (
                len(set(pts)), len(set(insts))))
        table = {}
        for p, i in zip(pts, insts):
            table[p] = i
        for p, i in zip(pts, insts):
            if table.get(p) != i:
                problems.append("dict lookup by an equal point failed")
                break
        for x, y in itertools.permutations(range(len(pts)), 2):
            if (pts[x] == pts[y]) != (pts[y] == pts[x]):
                problems.append("== is not symmetric")
                break
        for x, y, z in itertools.permutations(range(len(pts)), 3):
            if pts[x] <= pts[y] and pts[y] <= pts[z] and not pts[x] <= pts[z]:
                problems.append("<= is not transitive")
                break
        return "ok" if not problems else "; ".join(sorted(set(problems)))

    def oracle(self, a, out):
        if out != "ok":
            return "pool %s in %s: %s" % ([T.describe_tp(t) for t in a[1:]], a[0], out)


class CmpFrac(Op):
    """Float domain (not modelled): decimal hour / minute / second forms compared with each other and
    with whole-second points; judged with exact Fractions (decimals are multiples of 1/8 so that the
    floats are exact)."""
    prop = PROP
    name = "cmpfrac"
    model = False

    def gen(self, rng, tier, boost):
        n = 1200 * boost if tier == "quick" else 5000 * boost
        for _ in range(n):
            m = gens.mode(rng)
            a, b = T.gen_pair(rng, m, delta=rng.choice([0, 0, 1, -1, 30, -30, 450, -450, 1800, -1800, 3600, 86400]))
            fa = (rng.choice("smh-"), rng.choice([0, 1, 2, 4, 5, 7]))
            fb = (rng.choice("smh-"), rng.choice([0, 1, 2, 4, 5, 7]))
            if a[4] == 24 or b[4] == 24:
                continue
            yield (m, a, fa, b, fb)

    def line(self, a):
        return "cmpfrac %s %s %s %s %s" % (a[0], T.tp_str(a[1]), a[2], T.tp_str(a[3]), a[4])

    @staticmethod
    def build(t, form):
        """(TimePoint, exact instant offset in seconds relative to the whole-second fields kept)."""
        from fractions import Fraction
        from metomi.isodatetime.data import TimePoint
        rep, y, aa, b, hh, mi, ss, tzh, tzm = t
        kw = dict(year=y, hour_of_day=hh, time_zone_hour=tzh, time_zone_minute=tzm)
        if not 0 <= y <= 9999:
            kw["num_expanded_year_digits"] = 3
        if rep == "c":
            kw.update(month_of_year=aa, day_of_month=b)
        elif rep == "o":
            kw.update(day_of_year=aa)
        else:
            kw.update(week_of_year=aa, day_of_week=b)
        kind, eighths = form
        frac = Fraction(eighths, 8)
        if kind == "s":
            kw.update(minute_of_hour=mi, second_of_minute=ss, second_of_minute_decimal=float(frac))
            sod = 3600 * hh + 60 * mi + ss + frac
        elif kind == "m":
            kw.update(minute_of_hour=mi, minute_of_hour_decimal=float(frac))
            sod = 3600 * hh + 60 * (mi + frac)
        elif kind == "h":
            kw.update(hour_of_day_decimal=float(frac))
            sod = 3600 * (hh + frac)
        else:
            kw.update(minute_of_hour=mi, second_of_minute=ss)
            sod = Fraction(3600 * hh + 60 * mi + ss)
        return TimePoint(**kw), sod

    def impl(self, a):
        set_mode(a[0])
        m = a[0]
        p, sp = self.build(a[1], a[2])
        q, sq = self.build(a[3], a[4])
        lt, eq, gt, le, ge, ne = p < q, p == q, p > q, p <= q, p >= q, p != q
        if sum(bool(x) for x in (lt, eq, gt)) != 1 or le != (lt or eq) or ge != (gt or eq) or ne == eq:
            return "INCONSISTENT lt=%s eq=%s gt=%s le=%s ge=%s ne=%s" % (lt, eq, gt, le, ge, ne)
        out = "-1" if lt else ("0" if eq else "1")
        if eq and hash(p) != hash(q):
            out += " HASH-DIFFERS"
        secs = (p - q).get_seconds()
        out += " subsign=%d" % T.sign(secs)
        return out

    def exact(self, m, t, form):
        from fractions import Fraction
        kind, eighths = form
        frac = Fraction(eighths, 8)
        rep, y, aa, b, hh, mi, ss, tzh, tzm = t
        base = 86400 * oracle.date_day_num(m, T.date_of(t)) - 3600 * tzh - 60 * tzm
        if kind == "s":
            return base + 3600 * hh + 60 * mi + ss + frac
        if kind == "m":
            return base + 3600 * hh + 60 * (mi + frac)
        if kind == "h":
            return base + 3600 * (hh + frac)
        return base + 3600 * hh + 60 * mi + ss

    def oracle(self, a, out):
        m = a[0]
        want = T.sign(self.exact(m, a[1], a[2]) - self.exact(m, a[3], a[4]))
        parts = out.split()
        if parts[0] != str(want) or "HASH-DIFFERS" in out or parts[-1] != "subsign=%d" % want:
            return "decimal forms %s%s vs %s%s in %s: got %s, the instants say %d" % (
                T.describe_tp(a[1]), a[2], T.describe_tp(a[3]), a[4], m, out, want)

    def label(self, a):
        return "cmpfrac/%s/%s%s" % (a[0], a[2][0], a[4][0])


class SubSign(Op):
    """The sign of a - b agrees with the comparison."""
    prop = PROP
    name = "subsign"
    model = False

    def gen(self, rng, tier, boost):
        for _ in range(600 * boost):
            m = gens.mode(rng)
            a, b = T.gen_pair(rng, m)
            yield (m, a, b)

    def line(self, a):
        return "subsign %s %s %s" % (a[0], T.tp_str(a[1]), T.tp_str(a[2]))

    def impl(self, a):
        set_mode(a[0])
        p, q = T.mk_tp(a[1]), T.mk_tp(a[2])
        d = p - q
        secs = d.get_seconds()
        return "%d %d" % (T.sign(secs), -1 if p < q else (0 if p == q else 1))

    def oracle(self, a, out):
        parts = out.split()
        if len(parts) != 2 or parts[0] != parts[1]:
            return "sign of %s - %s vs comparison: %s" % (
                T.describe_tp(a[1]), T.describe_tp(a[2]), out)


import qcommon as Q   # noqa: E402


def gen_qpair(rng, m):
    """Two q-points: the same instant spelled differently (35%), or instants a boundary distance apart."""
    a = Q.gen_qpoint(rng, m)
    if rng.random() < 0.35:
        return a, Q.same_instant_as(rng, m, a)
    b = Q.gen_qpoint(rng, m)
    if rng.random() < 0.5:
        # near a: a's instant moved by a small distance, re-spelled
        b = Q.same_instant_as(rng, m, a)
        step = Fraction(rng.choice([1, -1]) * rng.choice([1, 60, 3600, 86400, 1800, 90]), rng.choice([1, 1, 2, 8]))
        if b[6] is not None:
            b = b[:6] + (b[6] + step,) + b[7:]
        elif b[5] is not None:
            b = b[:5] + (b[5] + step / 60,) + b[6:]
        else:
            b = b[:4] + (b[4] + step / 3600,) + b[5:]
        if not Q.in_range(b[4], b[5], b[6]):
            b = Q.gen_qpoint(rng, m)
    return a, b


class CmpQ(Op):
    """_cmp on points with fractional / absent slots against the rational model cmpQ (Props/C02q).
    For distinct instants the sign must agree exactly.  For EQUAL instants the model says 0; the
    Python computes in binary64 and may say otherwise when a slot is not exactly representable
    (known finding F17) - then the implementation's own answer is taken as the model's in the
    comparison and the oracle reports the deviation."""
    prop = PROP
    name = "cmpq"

    def from_corpus(self, a):
        return (a[0], Q.norm_point(a[1]), Q.norm_point(a[2]))

    def gen(self, rng, tier, boost):
        n = (2500 if tier == "quick" else 40000) * boost
        if getattr(self, "shard", None):
            n = n // self.shard[1] + 1
        for _ in range(n):
            m = gens.mode(rng)
            a, b = gen_qpair(rng, m)
            yield (m, a, b)

    def line(self, a):
        return "cmpq %s %s %s" % (a[0], Q.tokens(a[1]), Q.tokens(a[2]))

    def impl(self, a):
        set_mode(a[0])
        x, y = Q.mk_point(a[1]), Q.mk_point(a[2])
        flags = (x < y, x == y, x > y, y < x, y == x, y > x)
        self.last = flags
        table = {(True, False, False): "-1", (False, True, False): "0", (False, False, True): "1"}
        out = table.get(flags[:3], "INCONSISTENT")
        if flags[3:] != (flags[2], flags[1], flags[0]):
            out = "ASYMMETRIC"
        self.last_out = out
        return out

    def float_domain(self, a):
        return Q.float_noise_pair(a[0], a[1], a[2])

    def canon_model(self, a, out):
        if out == "0" and self.float_domain(a):
            return self.impl(a)
        return out

    def oracle(self, a, out):
        m, x, y = a
        d = Q.inst(m, x) - Q.inst(m, y)
        want = "0" if d == 0 else ("-1" if d < 0 else "1")
        if out != want:
            return "%s vs %s in %s: the operators give %s (lt, eq, gt, and reversed: %s), the instants differ by %s s" % (
                Q.describe(x), Q.describe(y), m, out, self.last, float(d))

    def label(self, a):
        d = Q.inst(a[0], a[1]) - Q.inst(a[0], a[2])
        return "cmpq/%s%s/%s" % (Q.form_of(a[1]), Q.form_of(a[2]), "equal" if d == 0 else "distinct")


class HashQ(Op):
    """The tuple __hash__ hashes (UTC calendar date + hour, minute, second of get_hour_minute_second)
    against hashKeyQ, and the property's clause on the implementation: points that compare equal have
    equal hashes."""
    prop = PROP
    name = "hashq"
    model = False

    def from_corpus(self, a):
        return (a[0], Q.norm_point(a[1]), Q.norm_point(a[2]))

    def gen(self, rng, tier, boost):
        n = (1500 if tier == "quick" else 20000) * boost
        if getattr(self, "shard", None):
            n = n // self.shard[1] + 1
        for _ in range(n):
            m = gens.mode(rng)
            a = Q.gen_qpoint(rng, m)
            yield (m, a, Q.same_instant_as(rng, m, a))

    def line(self, a):
        return "hashq2 %s %s %s" % (a[0], Q.tokens(a[1]), Q.tokens(a[2]))

    def impl(self, a):
        set_mode(a[0])
        x, y = Q.mk_point(a[1]), Q.mk_point(a[2])
        return "eq=%d hash=%d" % (x == y and y == x, hash(x) == hash(y))

    def oracle(self, a, out):
        if out.startswith("eq=1") and out.endswith("hash=0"):
            return "%s == %s in %s but their hashes differ" % (Q.describe(a[1]), Q.describe(a[2]), a[0])
        if not out.startswith("eq="):
            return "comparison / hashing failed: %s" % out

    def label(self, a):
        return "hashq/%s%s" % (Q.form_of(a[1]), Q.form_of(a[2]))


def _float_equal_instants(op, a, out, msg):
    """F16 / F17: only pairs denoting exactly the same instant, at least one slot not representable in
    binary64 (so the two float spellings differ by rounding noise only)."""
    if op.name not in ("cmpq", "hashq"):
        return False
    return Q.float_noise_pair(a[0], a[1], a[2])


def _f16(op, a, out, msg):
    return op.name == "hashq" and _float_equal_instants(op, a, out, msg)


def _f17(op, a, out, msg):
    if op.name == "cmpfrac":
        # the older float stream: fractions are eighths (exact), so noise arises only when a decimal-hour
        # form is re-zoned by minutes that are not a multiple of 15 - and only equal instants are affected
        m, ta, fa, tb, fb = a
        hourform = fa[0] == "h" or fb[0] == "h"
        return ("the instants say 0" in msg and hourform
                and (ta[8] % 15 != 0 or tb[8] % 15 != 0))
    return op.name == "cmpq" and _float_equal_instants(op, a, out, msg)


KNOWN_PREDICATES = dict(globals().get("KNOWN_PREDICATES", {}))
KNOWN_PREDICATES.update({"float_equal_points_hash_differently": _f16,
                         "float_equal_instants_compare_unequal": _f17})


class Derived(Op):
    """Values DERIVED from a point that has already been hashed, compared and printed (an object with history):
    every public operation that returns a TimePoint - adding years / months / exact durations, re-zoning,
    changing the representation, copies through recurrences - must return a value that equals, and hashes like,
    the same value built afresh from its fields."""
    prop = PROP
    name = "derived"
    model = False

    STEPS = ["+P1Y", "-P3Y", "+P1M", "-P13M", "+P1D", "+PT1H", "-PT1S", "+P1Y1M", "+P4Y", "utc", "tz+0530", "tz-0100", "cal",
             "ord", "week", "addmonths1", "addmonths-12", "sub0", "first_after", "+P0Y"]

    def gen(self, rng, tier, boost):
        n = 400 * boost if tier == "quick" else 4000 * boost
        for _ in range(n):
            m = gens.mode(rng)
            t = T.gen_tp(rng, m) if rng.random() < 0.6 else T.gen_year_edge_tp(rng, m)
            if abs(t[1]) > 9000:
                continue
            k = rng.randint(2, 5)
            yield (m, t, tuple(rng.choice(self.STEPS) for _ in range(k)))

    def line(self, a):
        return "derived %s %s %s" % (a[0], T.tp_str(a[1]), " ".join(a[2]))

    @staticmethod
    def apply(p, step):
        from metomi.isodatetime.data import Duration, TimeZone, TimeRecurrence
        if step[0] in "+-" and step[1] == "P":
            from metomi.isodatetime.parsers import DurationParser
            d = DurationParser().parse(step[1:])
            return p + d if step[0] == "+" else p - d
        if step == "utc":
            return p.to_utc()
        if step.startswith("tz"):
            sg = -1 if step[2] == "-" else 1
            return p.to_time_zone(TimeZone(hours=sg * int(step[3:5]), minutes=sg * int(step[5:7])))
        if step == "cal":
            return p.to_calendar_date()
        if step == "ord":
            return p.to_ordinal_date()
        if step == "week":
            return p.to_week_date()
        if step.startswith("addmonths"):
            return p.add_months(int(step[9:]))
        if step == "sub0":
            return p - Duration(days=0)
        if step == "first_after":
            q = TimeRecurrence(start_point=p, duration=Duration(hours=6)).get_first_after(p)
            return q if q is not None else p
        raise ValueError(step)

    def impl(self, a):
        m, t, steps = a
        set_mode(m)
        p = T.mk_tp(t)
        problems = []
        for i, step in enumerate(steps):
            # give the current value a history: hash it, compare it, print it
            hash(p), p == p
            try:
                str(p)
            except OverflowError:     # a negative year without expanded digits cannot be printed (by design)
                pass
            q = self.apply(p, step)
            fresh = T.mk_tp(T.tp_tuple(q))
            if not (q == fresh and fresh == q):
                problems.append("step %d %s: result != the same fields built afresh" % (i, step))
            if hash(q) != hash(fresh):
                problems.append("step %d %s: result hashes unlike the same fields built afresh" % (i, step))
            try:
                if q.num_expanded_year_digits == fresh.num_expanded_year_digits and str(q) != str(fresh):
                    problems.append("step %d %s: result prints %s, built afresh %s" % (i, step, q, fresh))
            except OverflowError:
                pass
            if len({q, fresh}) != 1:
                problems.append("step %d %s: set() keeps both" % (i, step))
            p = q
        return T.canon_tp(p) + (" PROBLEMS: " + "; ".join(problems[:3]) if problems else "")

    def oracle(self, a, out):
        if "PROBLEMS" in out or out.startswith(("err", "EXC", "Timeout")):
            return "%s: %s" % (self.line(a), out)

    def label(self, a):
        return "derived/%s/%s" % (a[0], a[1][0])


def ops():
    return [Cmp(), HashEq(), Pool(), SubSign(), CmpFrac(), CmpQ(), HashQ(), Derived()]
