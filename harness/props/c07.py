"""C07 — the parser decodes every documented date-time form to exactly its fields.

Three parties are compared on every case:

  * the implementation: `TimePointParser(...).parse(text[, dump_as_parsed=True])` of common.REPO,
    canonicalised field by field (never a float: a unit with a decimal fraction is printed as
    `<int>+<digits>` from the exact value of the float, rounded to 12 places);
  * the Lean model (`IsoDT.Text.parse` / `str`), which matches with the templates `gen_templates.py`
    read from the regexes the live parser compiled (driver ops `tparse`, `tmatch`);
  * the oracle: the generator renders its texts from the *documented expression strings*
    (`parser_spec.DATE_EXPRESSIONS` ..., tokenised here, not with the library's regexes) for field
    values it chose, so it knows which point every text must decode to, which texts are invalid,
    and what `dump_as_parsed` must print; none of that looks at the model or at the regexes.

Driver protocol (lean/IsoDT/Driver/Text.lean).  Strings are one token: `s` followed by the '.'-joined
decimal code points (`s` alone is the empty string), so any character can be sent.  A parser
configuration is `<ned> <basicOnly 0|1> <allowTruncated 0|1> <zone>` with zone `a:<h>:<m>`
(assumed_time_zone), `l:<h>:<m>` (local offset, patched) or `u` (default_to_unknown_time_zone).
A point is `P ned y mo d doy w dow h mi s tzh tzm unk trunc tprop fmt`, `_` for None.
"""
from fractions import Fraction

import common
import oracle
import gens
import gen_templates
from engine import Op, set_mode, canon_exc
import translate

# Until "Templates" is listed in translate.GENERATORS this module registers the generator itself,
# so that every run of `check C07` / `check C08` regenerates Gen/Templates.lean from the source.
translate.GENERATORS.setdefault("Templates", gen_templates.gen_templates)

PROP = "C07"
LEAN_MODULES = ["IsoDT.Props.C07", "IsoDT.Props.C07b", "IsoDT.Props.C07c", "IsoDT.Props.C07d"]
TRUSTED_EXTRA = ["harness/gen_templates.py (compiled regexes / _rec_formats -> Gen/Templates.lean); its "
                 "translation is itself differential-tested (op tmatch: Lean matcher vs re.match on the "
                 "same regex objects)"]
RULE = ("texts rendered from every documented date x time x zone expression (and the truncated tables) for "
        "boundary-biased field values, under every parser configuration (expanded digits 0/2/3, "
        "allow_only_basic, allow_truncated, assumed / unknown / local zone), with and without "
        "dump_as_parsed; a malformed stream (drop / insert / substitute / splice) on which implementation "
        "and model must agree; non-trivial when the text is not the plain CCYY-MM-DDThh:mm:ssZ shape; "
        "distinct by (op, arguments)")
ASSUMPTIONS = [
    "floats: a decimal fraction is modelled as the digit string the text spells; the implementation's "
    "float is compared through its exact value rounded to 12 decimal places, so the correspondence "
    "domain is fractions of at most 12 digits (generated: 1-9, mutations add at most a few)",
    "dump_as_parsed of a fraction longer than 6 digits whose discarded tail is exactly one half is not "
    "compared with the model (binary rounding decides); the oracle accepts either neighbour",
    "a minus sign on an all-zero year (-000000) or offset (-00:00) is not a valid assignment of field "
    "values: it decodes to 0 and dump_as_parsed re-spells it with '+'; excluded from the "
    "reproduces-the-input clause only",
    "the local UTC offset enters as a parameter (timezone.get_local_time_zone patched)",
    "a text whose date, time or zone component ends in a newline is accepted like the text without it "
    "(Python's `$`; each component is matched on its own); modelled, and excluded from the "
    "reproduces-the-input clause (such a text is not a documented form)",
]

# ---------------------------------------------------------------------------
# encoding / canonical forms


def enc(text):
    return "s" + ".".join(str(ord(c)) for c in text)


def dec(token):
    if token == "s":
        return ""
    return "".join(chr(int(x)) for x in token[1:].split("."))


def zone_token(z):
    return "u" if z[0] == "u" else "%s:%d:%d" % z


def cfg_tokens(cfg):
    ned, basic, trunc, zone = cfg
    return "%d %d %d %s" % (ned, 1 if basic else 0, 1 if trunc else 0, zone_token(zone))


def _unit(v):
    if v is None:
        return "_"
    if isinstance(v, float):
        whole = int(v)
        n = round((Fraction(v) - whole) * 10 ** 12)
        return "%d+%s" % (whole, (("%012d" % n).rstrip("0") or "0"))
    return "%d" % v


def _opt(v):
    return "_" if v is None else "%d" % v


def canon_point(p):
    """Canonical string of a real TimePoint (any kind: truncated, decimal, ...)."""
    tprop = {None: "_", "year_of_century": "c", "year_of_decade": "d"}[p._truncated_property]
    if p._truncated_dump_format != p._dump_format and p._truncated:
        fmt = "MISMATCH"
    else:
        fmt = "_" if p._dump_format is None else enc(p._dump_format)
    tz = p._time_zone
    return "P %d %s %s %s %s %s %s %s %s %s %d %d %d %d %s %s" % (
        p._num_expanded_year_digits, _opt(p._year), _opt(p._month_of_year), _opt(p._day_of_month),
        _opt(p._day_of_year), _opt(p._week_of_year), _opt(p._day_of_week), _unit(p._hour_of_day),
        _unit(p._minute_of_hour), _unit(p._second_of_minute), tz._hours, tz._minutes,
        1 if tz._unknown else 0, 1 if p._truncated else 0, tprop, fmt)


def point_string(ned, year, month, day, doy, week, dow, hour, minute, second, tz, unk, trunc, tprop, fmt):
    """The same canonical string from field values; a unit is None | int | (int, digit string)."""
    def unit(v):
        if v is None:
            return "_"
        if isinstance(v, tuple):
            return "%d+%s" % (v[0], v[1].rstrip("0") or "0")
        return "%d" % v
    return "P %d %s %s %s %s %s %s %s %s %s %d %d %d %d %s %s" % (
        ned, _opt(year), _opt(month), _opt(day), _opt(doy), _opt(week), _opt(dow), unit(hour),
        unit(minute), unit(second), tz[0], tz[1], 1 if unk else 0, 1 if trunc else 0, tprop,
        "_" if fmt is None else enc(fmt))


_PARSERS = {}


def get_parser(cfg):
    from metomi.isodatetime.parsers import TimePointParser
    ned, basic, trunc, zone = cfg
    key = (ned, basic, trunc, zone[0] if zone[0] != "a" else zone)
    if key not in _PARSERS:
        kw = dict(num_expanded_year_digits=ned, allow_only_basic=basic, allow_truncated=trunc)
        if zone[0] == "a":
            kw["assumed_time_zone"] = (zone[1], zone[2])
        elif zone[0] == "u":
            kw["default_to_unknown_time_zone"] = True
        _PARSERS[key] = TimePointParser(**kw)
    return _PARSERS[key]


class local_zone:
    """Patch timezone.get_local_time_zone for configurations that fall back to the local offset."""

    def __init__(self, zone):
        self.zone = zone

    def __enter__(self):
        from metomi.isodatetime import timezone as tzmod
        self.mod = tzmod
        self.saved = tzmod.get_local_time_zone
        if self.zone[0] == "l":
            tzmod.get_local_time_zone = lambda: (self.zone[1], self.zone[2])

    def __exit__(self, *exc):
        self.mod.get_local_time_zone = self.saved


# ---------------------------------------------------------------------------
# the documented expressions, tokenised independently of the library's regexes

def expressions(text):
    out = []
    for line in text.splitlines():
        line = line.split("#", 1)[0].strip()
        if line:
            out.append(line)
    return out


def documented():
    """{'date': [(format, type, expr)], 'time': [...], 'zone': [(format, expr)]} in table order."""
    from metomi.isodatetime import parser_spec as ps
    doc = {"date": [], "time": [], "zone": []}
    for fk in ("basic", "extended"):
        for tk in ("complete", "reduced", "truncated"):
            for e in expressions(ps.DATE_EXPRESSIONS[fk][tk]):
                doc["date"].append((fk, tk, e))
            for e in expressions(ps.TIME_EXPRESSIONS[fk][tk]):
                doc["time"].append((fk, tk, e))
        for e in expressions(ps.TIME_ZONE_EXPRESSIONS[fk]):
            doc["zone"].append((fk, e))
    return doc


DATE_TOKENS = ["DDD", "Www", "CC", "YY", "MM", "DD", "D", "z", "X"]
TIME_TOKENS = [",ii", ".ii", ",nn", ".nn", ",tt", ".tt", "hh", "mm", "ss"]
ZONE_TOKENS = ["hh", "mm", "Z", "+"]


def tokenise(expr, tokens):
    out = []
    i = 0
    while i < len(expr):
        if expr[i] == "+" and expr[i + 1:i + 2] == "X":
            out.append("+")
            i += 1
            continue
        for t in tokens:
            if expr.startswith(t, i):
                out.append(t)
                i += len(t)
                break
        else:
            out.append("lit:" + expr[i])
            i += 1
    return out


def date_tokens(expr):
    return tokenise(expr, DATE_TOKENS)


def time_tokens(expr):
    return tokenise(expr, TIME_TOKENS)


def zone_tokens(expr):
    return tokenise(expr, ZONE_TOKENS)


WIDTH = {"CC": 2, "YY": 2, "MM": 2, "DD": 2, "DDD": 3, "Www": 2, "D": 1, "z": 1, "hh": 2, "mm": 2, "ss": 2}


def render(tokens, vals, ned):
    """Spell the tokens for the values: ints for digit tokens, 'sign' '+'/'-', 'dec' a digit string."""
    out = []
    for t in tokens:
        if t.startswith("lit:"):
            out.append(t[4:])
        elif t == "+":
            out.append(vals["sign"])
        elif t == "X":
            out.append("%0*d" % (ned, vals["X"]) if ned else "")
        elif t == "Z":
            out.append("Z")
        elif t == "Www":
            out.append("W%02d" % vals["Www"])
        elif t[0] in ",.":
            out.append(t[0] + vals["dec"])
        else:
            out.append("%0*d" % (WIDTH[t], vals[t]))
    return "".join(out)


def spells(tokens, text, ned):
    """Does the text have the shape of the tokenised expression? (independent mini-matcher)"""
    i = 0
    for k, t in enumerate(tokens):
        if t.startswith("lit:") or t == "Z":
            c = t[-1]
            if text[i:i + 1] != c:
                return False
            i += 1
        elif t == "+":
            if text[i:i + 1] not in ("+", "-"):
                return False
            i += 1
        elif t[0] in ",.":
            if text[i:i + 1] != t[0]:
                return False
            j = i + 1
            while j < len(text) and text[j] in "0123456789":
                j += 1
            if j == i + 1:
                return False
            i = j
        else:
            w = ned if t == "X" else WIDTH[t]
            if t == "Www":
                if text[i:i + 1] != "W":
                    return False
                i += 1
            seg = text[i:i + w]
            if len(seg) != w or any(c not in "0123456789" for c in seg):
                return False
            i += w
    return i == len(text)


# Genuine overlaps between documented date forms (truncated tables only): (winner, loser).  The
# winner is the one the documented try-order (complete, truncated, reduced; basic first) reaches
# first; the same list is a theorem (C07_overlaps) on the Lean side.
def known_overlap_winner(a, b, ned):
    """For two different expressions that both spell some text: which one decodes it."""
    order = {"complete": 0, "truncated": 1, "reduced": 2}
    ka = (0 if a[0] == "basic" else 1, order[a[1]])
    kb = (0 if b[0] == "basic" else 1, order[b[1]])
    if ka != kb:
        return a if ka < kb else b
    return None


# ---------------------------------------------------------------------------
# choosing field values

YEARS_ABS = [0, 1, 4, 99, 100, 400, 800, 1200, 1600, 1900, 1999, 2000, 2004, 2023, 2024, 2100, 2400, 4000,
             8000, 9600, 9999, 10000, 12000, 40000, 99999, 100000, 400000, 800000, 999999, 1000000,
             4000000, 9999999]
MAXW = {"greg": 53, "d360": 52, "d365": 53, "d366": 53}


def pick_abs_year(rng, limit, step=1):
    r = rng.random()
    if r < 0.55:
        cands = [y for y in YEARS_ABS if y <= limit and y % step == 0]
        return rng.choice(cands)
    if r < 0.85:
        return (rng.randint(1583, min(limit, 2500)) // step) * step
    return (rng.randint(0, limit) // step) * step


def pick_decimals(rng, allow_long=True):
    n = rng.choice([1, 1, 2, 3, 3, 4, 5, 6, 6, 6] + ([7, 8, 9, 9] if allow_long else []))
    r = rng.random()
    if r < 0.12:
        s = "0" * n
    elif r < 0.24:
        s = "9" * n
    elif r < 0.34:
        s = "5" + "0" * (n - 1)
    elif r < 0.44:
        s = "".join(rng.choice("0123456789") for _ in range(max(n - 1, 1))) + "0"
        s = s[:n]
    elif r < 0.62 and n >= 2:
        # small fractions: a run of leading zeros (down to 0.000001 - where a float's repr switches
        # to exponent form), then non-zero digits
        k = rng.randint(1, n - 1)
        s = "0" * k + rng.choice("123456789") + "".join(rng.choice("0123456789") for _ in range(n - k - 1))
    else:
        s = "".join(rng.choice("0123456789") for _ in range(n))
    return s


def choose_date(rng, m, toks, ned, valid):
    """vals for the date tokens and the decoded fields; valid=False plants one out-of-range field."""
    names = set(toks)
    vals = {}
    year = None
    if names & {"CC", "YY", "z", "X", "+"}:
        if "CC" in names:
            limit = 10 ** (4 + ned) - 1 if "X" in names else 9999
            step = 1 if "YY" in names else 100
            ay = pick_abs_year(rng, limit, step)
        elif "YY" in names:
            ay = rng.choice([0, 0, 4, 85, 96, 99, rng.randint(0, 99)])
        else:
            ay = rng.randint(0, 9)
        vals["X"] = ay // 10000
        vals["CC"] = ay % 10000 // 100
        vals["YY"] = ay % 100
        vals["z"] = ay % 10
        vals["sign"] = "+"
        if "+" in names and rng.random() < 0.5:
            vals["sign"] = "-"
        year = -ay if vals["sign"] == "-" else ay
    lp_year = year if year is not None else None

    def month_len(mo):
        if lp_year is not None:
            return oracle.month_len(m, lp_year, mo)
        return oracle.month_tab(m, True)[mo - 1]

    bad = None
    if not valid:
        cands = [t for t in ("MM", "DD", "DDD", "Www", "D") if t in names]
        bad = rng.choice(cands) if cands else None
    fields = {"month": None, "day": None, "doy": None, "week": None, "dow": None}
    if "MM" in names:
        mo = rng.randint(1, 12) if rng.random() < 0.7 else rng.choice([1, 2, 12])
        if bad == "MM":
            mo = rng.choice([0, 13, 99])
        vals["MM"] = fields["month"] = mo
    if "DD" in names:
        mo = fields["month"]
        ml = month_len(mo) if (mo is not None and 1 <= mo <= 12) else max(oracle.month_tab(m, True))
        r = rng.random()
        d = ml if r < 0.35 else (1 if r < 0.5 else rng.randint(1, ml))
        if bad == "DD":
            d = rng.choice([0, ml + 1, 99]) if ml < 99 else 0
        vals["DD"] = fields["day"] = d
    if "DDD" in names:
        yl = oracle.year_len(m, lp_year) if lp_year is not None else sum(oracle.month_tab(m, True))
        r = rng.random()
        doy = yl if r < 0.3 else (rng.choice([1, 59, 60, 61, yl - 1]) if r < 0.6 else rng.randint(1, yl))
        if bad == "DDD":
            doy = rng.choice([0, yl + 1, 999])
        vals["DDD"] = fields["doy"] = doy
    if "Www" in names:
        wiy = oracle.weeks_in_year(m, lp_year) if lp_year is not None else MAXW[m]
        r = rng.random()
        w = wiy if r < 0.35 else (1 if r < 0.5 else rng.randint(1, wiy))
        if bad == "Www":
            w = rng.choice([0, wiy + 1, 99])
        vals["Www"] = fields["week"] = w
    if "D" in names:
        d = rng.randint(1, 7)
        if bad == "D":
            d = rng.choice([0, 8, 9])
        vals["D"] = fields["dow"] = d
    return vals, year, fields, bad is not None


def choose_time(rng, toks, valid):
    names = set(toks)
    vals = {}
    dec_tok = [t for t in toks if t[0] in ",."]
    hour = minute = second = None
    r = rng.random()
    h24 = "hh" in names and r < 0.08
    if "hh" in names:
        hour = 24 if h24 else (rng.choice([0, 23, 12]) if r < 0.3 else rng.randint(0, 23))
    if "mm" in names:
        minute = 0 if h24 else (rng.choice([0, 59]) if rng.random() < 0.3 else rng.randint(0, 59))
    if "ss" in names:
        second = 0 if h24 else (rng.choice([0, 59]) if rng.random() < 0.3 else rng.randint(0, 59))
    decs = None
    if dec_tok:
        decs = pick_decimals(rng)
        if h24 and rng.random() < 0.7:
            decs = "0" * len(decs)
    bad = False
    if not valid:
        opts = [n for n in ("hh", "mm", "ss") if n in names]
        which = rng.choice(opts + (["h24"] if "hh" in names and (len(opts) > 1 or dec_tok) else []))
        bad = True
        if which == "hh":
            hour = rng.choice([25, 30, 99])
        elif which == "mm":
            minute = rng.choice([60, 61, 99])
            if hour == 24:
                hour = 23
        elif which == "ss":
            second = rng.choice([60, 61, 99])
            if hour == 24:
                hour = 23
        else:
            hour = 24
            if "ss" in names and rng.random() < 0.5:
                second = rng.randint(1, 59)
                minute = 0
            elif "mm" in names:
                minute = rng.randint(1, 59)
                if "ss" in names:
                    second = 0
            else:
                decs = pick_decimals(rng).rstrip("0") + "1"
    if hour is not None:
        vals["hh"] = hour
    if minute is not None:
        vals["mm"] = minute
    if second is not None:
        vals["ss"] = second
    if decs is not None:
        vals["dec"] = decs
    return vals, bad


ZONES = [(0, 0), (0, 30), (0, 59), (0, 1), (5, 45), (12, 0), (13, 45), (24, 0), (99, 59), (1, 0), (9, 30),
         (23, 59), (5, 0), (10, 0)]


def choose_zone(rng, toks, valid):
    vals = {}
    if "Z" in toks or not toks:
        return vals, False
    r = rng.random()
    h, mi = rng.choice(ZONES) if r < 0.7 else (rng.randint(0, 99), rng.randint(0, 59))
    if "mm" not in toks:
        mi = 0
    vals["sign"] = "-" if rng.random() < 0.5 else "+"
    bad = False
    if not valid and "mm" in toks:
        mi = rng.choice([60, 75, 99])
        bad = True
    vals["hh"] = h
    vals["mm"] = mi
    return vals, bad


# ---------------------------------------------------------------------------
# the expected decode (the property's own clauses)

def valid_fields(m, year, f, hour, minute, second):
    """Are the decoded fields a valid assignment (for a truncated form: in the widest sense)?"""
    mo, d, doy, w, dow = f["month"], f["day"], f["doy"], f["week"], f["dow"]
    if mo is not None and not 1 <= mo <= 12:
        return False
    if d is not None:
        if mo is not None:
            ml = oracle.month_len(m, year, mo) if year is not None else oracle.month_tab(m, True)[mo - 1]
        else:
            ml = max(oracle.month_tab(m, True))
        if not 1 <= d <= ml:
            return False
    if w is not None:
        top = oracle.weeks_in_year(m, year) if year is not None else MAXW[m]
        if not 1 <= w <= top:
            return False
    if doy is not None:
        top = oracle.year_len(m, year) if year is not None else sum(oracle.month_tab(m, True))
        if not 1 <= doy <= top:
            return False
    if dow is not None and not 1 <= dow <= 7:
        return False

    def whole(v):
        return v[0] if isinstance(v, tuple) else v

    def frac_zero(v):
        return not isinstance(v, tuple) or set(v[1]) <= {"0"}

    if hour is not None:
        if not 0 <= whole(hour) <= 24:
            return False
        if whole(hour) == 24 and not frac_zero(hour):
            return False
    at24 = hour is not None and whole(hour) == 24
    for v in (minute, second):
        if v is None:
            continue
        if at24:
            if whole(v) != 0 or not frac_zero(v):
                return False
        elif not 0 <= whole(v) <= 59:
            return False
    return True


def expected(m, cfg, dform, tform, zform, dvals, tvals, zvals, year, fields, as_parsed):
    """(canonical point | 'err', text dump_as_parsed must print | None, reproduces_clause_applies)."""
    ned, basic, trunc, zone = cfg
    dtoks = date_tokens(dform[2]) if dform else []
    ttoks = time_tokens(tform[2]) if tform else []
    ztoks = zone_tokens(zform[1]) if zform else []
    dnames = set(dtoks)
    truncated = (dform is None) or dform[1] == "truncated" or (tform is not None and tform[1] == "truncated")
    if "X" in dnames and ned == 0:
        return "err", None, False
    tprop = "_"
    if "z" in dnames:
        tprop = "d"
    elif "YY" in dnames and "CC" not in dnames:
        tprop = "c"
    ned_out = ned if "X" in dnames else 0
    f = dict(fields) if fields else {"month": None, "day": None, "doy": None, "week": None, "dow": None}
    # time units
    dec_tok = [t for t in ttoks if t[0] in ",."]
    hour = tvals.get("hh") if "hh" in ttoks else None
    minute = tvals.get("mm") if "mm" in ttoks else None
    second = tvals.get("ss") if "ss" in ttoks else None
    if dec_tok:
        unit = dec_tok[0][1:]
        if unit == "ii":
            hour = (hour, tvals["dec"])
        elif unit == "nn":
            minute = (minute, tvals["dec"])
        else:
            second = (second, tvals["dec"])
    if not truncated:
        if f["doy"] is None:
            if f["week"] is not None or f["dow"] is not None:
                f["week"] = 1 if f["week"] is None else f["week"]
                f["dow"] = 1 if f["dow"] is None else f["dow"]
            else:
                f["month"] = 1 if f["month"] is None else f["month"]
                f["day"] = 1 if f["day"] is None else f["day"]
        if hour is None:
            hour = 0
        if minute is None and not isinstance(hour, tuple):
            minute = 0
        if second is None and not isinstance(hour, tuple) and not isinstance(minute, tuple):
            second = 0
    # zone
    unk = False
    if zform is None:
        if zone[0] == "u":
            tz = (0, 0)
            unk = truncated
        else:
            tz = (zone[1], zone[2])
    elif "Z" in ztoks:
        tz = (0, 0)
    else:
        sg = -1 if zvals["sign"] == "-" else 1
        tz = (sg * zvals["hh"], sg * zvals["mm"] if "mm" in ztoks else 0)
    ok = oracle.tz_valid(*tz) and valid_fields(m, year, f, hour, minute, second)
    if not ok:
        return "err", None, False
    expr = None
    text = None
    applies = False
    if as_parsed:
        expr = (dform[2] if dform else "")
        if tform is not None:
            expr += "T" + tform[2] + (zform[1] if zform else "")
        text = render(dtoks, dvals, ned)
        if tform is not None:
            tv = dict(tvals)
            if "dec" in tv:
                tv["dec"] = norm_decimals(tv["dec"])
            text += "T" + render(ttoks, tv, ned) + (render(ztoks, zvals, ned) if zform else "")
        applies = True
        if year == 0 and dvals.get("sign") == "-" and "+" in dnames:
            applies = False
        if zform is not None and "+" in ztoks and zvals["sign"] == "-" and tz == (0, 0):
            applies = False
    point = point_string(ned_out, year, f["month"], f["day"], f["doy"], f["week"], f["dow"], hour, minute,
                         second, tz, unk, truncated, tprop, expr)
    return point, text, applies


def norm_decimals(digits):
    """What dump_as_parsed must print for a fraction: the same digits up to trailing zeros."""
    return digits.rstrip("0") or "0"


def round6(digits):
    """The two candidates of rounding a > 6 digit fraction to six digits (F12)."""
    head = int(digits[:6])
    tail = digits[6:]
    half = "5" + "0" * (len(tail) - 1)
    if tail > half:
        c = [head + 1]
    elif tail < half:
        c = [head]
    else:
        c = [head, head + 1]
    out = []
    for v in c:
        v = min(v, 999999)
        out.append(("%06d" % v).rstrip("0") or "0")
    return out


# ---------------------------------------------------------------------------
# compatibility of forms (which cross products are documented forms)

def date_allowed(cfg, dform, with_time):
    ned, basic, trunc, zone = cfg
    if basic and dform[0] != "basic":
        return False
    if dform[1] == "truncated" and not trunc:
        return False
    if dform[1] == "reduced" and with_time:
        return False
    return True


def combo_allowed(cfg, dform, tform, zform):
    """Is date x time x zone a documented combination under cfg?"""
    ned, basic, trunc, zone = cfg
    if dform is None:
        if not trunc or tform is None:
            return False
    elif not date_allowed(cfg, dform, tform is not None):
        return False
    if tform is None:
        return zform is None
    if basic and (tform[0] != "basic" or (zform and zform[0] != "basic")):
        return False
    marker = dform is None or dform[2].startswith("-")
    if tform[1] == "truncated" and not marker:
        return False
    if dform is not None and dform[1] != "truncated":
        if tform[0] != dform[0] or (zform is not None and zform[0] != dform[0]):
            return False
    return True


def rivals(doc, cfg, dform, text, with_time):
    """Other documented date forms (allowed in this context) that spell the same text."""
    out = []
    for other in doc["date"]:
        if other[2] == dform[2] or not date_allowed(cfg, other, with_time):
            continue
        if spells(date_tokens(other[2]), text, cfg[0]):
            out.append(other)
    return out


# ---------------------------------------------------------------------------
# case construction

def judge(doc, m, cfg, dform, tform, zform, dvals, tvals, zvals, year, fields, as_parsed, text):
    """The oracle's verdict on a rendered text: (expected point | 'err' | '?' | 'AMBIGUOUS..', dump, applies).

    '?' only for a text that a *different* documented form decodes first (the documented overlaps) or that
    is, although built from an undocumented combination, spelled exactly like a documented one."""
    if combo_allowed(cfg, dform, tform, zform):
        point, dump, applies = expected(m, cfg, dform, tform, zform, dvals, tvals, zvals, year, fields,
                                        as_parsed)
        if dform is not None:
            dtext = render(date_tokens(dform[2]), dvals, cfg[0])
            for other in rivals(doc, cfg, dform, dtext, tform is not None):
                win = known_overlap_winner(dform, other, cfg[0])
                if win is None:
                    return "AMBIGUOUS:%s/%s" % (dform[2], other[2]), None, False
                if win is not dform:
                    return "?", None, False
        return point, dump, applies
    if spelled_like_documented(doc, cfg, text):
        return "?", None, False
    return "err", None, False


CFG_ZONES = [("a", 0, 0), ("a", 5, 30), ("a", -3, -30), ("a", 0, -45), ("u",), ("l", 1, 0), ("l", -8, 0),
             ("l", 0, 0), ("a", 14, 0), ("l", 5, 45)]


def pick_cfg(rng, want_trunc=None, want_basic=None):
    ned = rng.choice([0, 2, 2, 3])
    basic = rng.random() < 0.25 if want_basic is None else want_basic
    trunc = rng.random() < 0.4 if want_trunc is None else want_trunc
    zone = rng.choice(CFG_ZONES)
    if rng.random() < 0.03:
        zone = rng.choice([("a", 100, 0), ("a", 5, -30), ("l", -2, 15), ("a", 0, 60)])
    return (ned, basic, trunc, zone)


def build_case(rng, doc, m, cfg, dform, tform, zform, valid=True, as_parsed=None):
    """One case of the Parse op: (m, cfg, as_parsed, text, expected point, expected dump, applies, label)."""
    ned = cfg[0]
    if as_parsed is None:
        as_parsed = rng.random() < 0.5
    dtoks = date_tokens(dform[2]) if dform else []
    ttoks = time_tokens(tform[2]) if tform else []
    ztoks = zone_tokens(zform[1]) if zform else []
    which_bad = None
    if not valid:
        opts = []
        if set(dtoks) & {"MM", "DD", "DDD", "Www", "D"}:
            opts.append("d")
        if tform:
            opts.append("t")
        if zform and "mm" in ztoks:
            opts.append("z")
        which_bad = rng.choice(opts) if opts else None
    dvals, year, fields, dbad = choose_date(rng, m, dtoks, ned, which_bad != "d")
    tvals, tbad = choose_time(rng, ttoks, which_bad != "t") if tform else ({}, False)
    zvals, zbad = choose_zone(rng, ztoks, which_bad != "z") if zform else ({}, False)
    text = render(dtoks, dvals, ned)
    if tform is not None:
        text += "T" + render(ttoks, tvals, ned) + (render(ztoks, zvals, ned) if zform else "")
    point, dump, applies = judge(doc, m, cfg, dform, tform, zform, dvals, tvals, zvals, year, fields,
                                 as_parsed, text)
    label = "%s|%s|%s" % (dform[2] if dform else "", tform[2] if tform else "-", zform[1] if zform else "-")
    return (m, cfg, 1 if as_parsed else 0, text, point, dump or "", 1 if applies else 0, label)


ALPHABET = "0123456789-+:,.TZW \n"


def mutate(rng, text, other):
    r = rng.random()
    if r < 0.25 and text:
        i = rng.randrange(len(text))
        return text[:i] + text[i + 1:]
    if r < 0.5:
        i = rng.randint(0, len(text))
        return text[:i] + rng.choice(ALPHABET + "aX٣") + text[i:]
    if r < 0.75 and text:
        i = rng.randrange(len(text))
        return text[:i] + rng.choice(ALPHABET) + text[i + 1:]
    i = rng.randint(0, len(text))
    j = rng.randint(0, len(other))
    return text[:i] + other[j:]


def has_tie(text):
    """A fraction of more than six digits whose tail beyond the sixth is exactly one half: the binary
    value of the float decides which way str() rounds it, so the dump is not compared."""
    for sep in ",.":
        if sep in text:
            i = text.rindex(sep) + 1
            j = i
            while j < len(text) and text[j] in "0123456789":
                j += 1
            digits = text[i:j]
            if len(digits) > 6 and digits[6] == "5" and set(digits[7:]) <= {"0"}:
                return True
    return False


def long_decimal_run(text):
    run = 0
    best = 0
    for c in text:
        run = run + 1 if c in "0123456789" else 0
        best = max(best, run)
    return best


# ---------------------------------------------------------------------------
# ops

class Parse(Op):
    """parse (optionally with dump_as_parsed, then str) of rendered documented forms and of mutations."""
    prop = PROP
    name = "tparse"
    shard = None

    def gen(self, rng, tier, boost):
        doc = documented()
        quick = tier == "quick"
        n_main = (9000 if quick else 40000) * boost
        dates, times, zones = doc["date"], doc["time"], doc["zone"]
        # 1. the cross product, sampled with boundary values; mostly valid
        for _ in range(n_main):
            m = gens.mode(rng) if rng.random() < 0.5 else "greg"
            cfg = pick_cfg(rng)
            r = rng.random()
            dform = rng.choice(dates)
            if cfg[1] and rng.random() < 0.8:
                dform = rng.choice([d for d in dates if d[0] == "basic"])
            if not cfg[2] and dform[1] == "truncated" and rng.random() < 0.7:
                dform = rng.choice([d for d in dates if d[1] != "truncated"])
            if r < 0.2 or dform[1] == "reduced" and rng.random() < 0.8:
                tform = zform = None
            else:
                cands = [t for t in times if t[0] == dform[0]] if rng.random() < 0.85 else times
                if not (dform[2].startswith("-")) and rng.random() < 0.9:
                    cands = [t for t in cands if t[1] != "truncated"]
                tform = rng.choice(cands)
                zc = [z for z in zones if z[0] == tform[0]] if rng.random() < 0.9 else zones
                zform = rng.choice(zc) if rng.random() < 0.7 else None
                if cfg[2] and rng.random() < 0.06:
                    dform = None
            yield build_case(rng, doc, m, cfg, dform, tform, zform, valid=rng.random() < 0.85)
        # 2. every documented form under every configuration class, at least a few values each
        reps = 1 if quick else 6
        combos = []
        for ned in gen_templates.NEDS:
            for basic in (False, True):
                for trunc in (False, True):
                    combos.append((ned, basic, trunc))
        jobs = []
        for ned, basic, trunc in combos:
            for dform in dates:
                jobs.append((ned, basic, trunc, dform, None, None))
            for tform in times:
                for zform in [None] + [z for z in zones]:
                    jobs.append((ned, basic, trunc, None, tform, zform))
        for k, (ned, basic, trunc, dform, tform, zform) in enumerate(gens.shard_filter(jobs, self.shard)):
            for _ in range(reps):
                cfg = (ned, basic, trunc, rng.choice(CFG_ZONES))
                if dform is None:
                    # a time form: combine with a matching complete date, a truncated date, or none
                    r = rng.random()
                    if tform[1] == "truncated" or r < 0.25:
                        dd = rng.choice([d for d in dates if d[1] == "truncated" and d[2].startswith("-")]
                                        + [None])
                    else:
                        dd = rng.choice([d for d in dates if d[1] == "complete" and d[0] == tform[0]])
                    yield build_case(rng, doc, "greg", cfg, dd, tform, zform)
                else:
                    yield build_case(rng, doc, rng.choice(oracle.MODES), cfg, dform, None, None)
        # 2b. order of use on ONE parser: a date-only text of one form directly followed by a date-only text of
        #     another form under the same configuration (the forms that share strings - signed reduced forms and
        #     truncated forms starting with '-' - in both orders): decoding must not depend on what was parsed before
        signed = [d for d in dates if d[1] in ("reduced", "complete") and d[2].startswith("+")]
        dashed = [d for d in dates if d[1] == "truncated" and d[2].startswith("-")]
        pairs = [(a, b) for a in signed for b in dashed]
        for k, (a, b) in enumerate(gens.shard_filter(pairs, self.shard)):
            for ned in (2, 3):
                cfg = (ned, rng.random() < 0.3, True, rng.choice(CFG_ZONES))
                first, second = (a, b) if rng.random() < 0.5 else (b, a)
                yield build_case(rng, doc, "greg", cfg, first, None, None)
                yield build_case(rng, doc, "greg", cfg, second, None, None)
                yield build_case(rng, doc, "greg", cfg, first, None, None)
        # 3. single-field sweeps: every month/day, day of year, week/weekday, hour/minute/second, offsets,
        #    decimals of 1-9 digits with comma and point, years that are multiples of 400 with either sign
        for case in self.sweeps(rng, doc, quick):
            yield case
        # 4. malformed stream: implementation and model must agree on accept/reject and fields
        n_mut = (6000 if quick else 30000) * boost
        pool = []
        for _ in range(300):
            cfg = pick_cfg(rng)
            dform = rng.choice(dates)
            tform = rng.choice(times) if rng.random() < 0.8 else None
            zform = rng.choice(zones) if tform and rng.random() < 0.7 else None
            pool.append(build_case(rng, doc, "greg", cfg, dform, tform, zform)[3])
        for _ in range(n_mut):
            cfg = pick_cfg(rng)
            text = mutate(rng, rng.choice(pool), rng.choice(pool))
            if rng.random() < 0.3:
                text = mutate(rng, text, rng.choice(pool))
            if long_decimal_run(text) > 12:
                continue
            yield ("greg" if rng.random() < 0.8 else gens.mode(rng), cfg, 1 if rng.random() < 0.5 else 0,
                   text, "?", "", 0, "mutation")

    def sweeps(self, rng, doc, quick):
        dates, times, zones = doc["date"], doc["time"], doc["zone"]
        by = {d[2]: d for d in dates}
        tby = {(t[0], t[2]): t for t in times}
        zby = {(z[0], z[1]): z for z in zones}
        m = "greg"
        cfgu = (2, False, True, ("a", 0, 0))
        out = []

        def fixed(dform, tform, zform, dv, year, fields, tv, zv, cfg=cfgu, mode="greg", ap=1):
            dtoks = date_tokens(dform[2]) if dform else []
            ttoks = time_tokens(tform[2]) if tform else []
            ztoks = zone_tokens(zform[1]) if zform else []
            text = render(dtoks, dv, cfg[0])
            if tform is not None:
                text += "T" + render(ttoks, tv, cfg[0]) + (render(ztoks, zv, cfg[0]) if zform else "")
            point, dump, applies = judge(doc, mode, cfg, dform, tform, zform, dv, tv, zv, year, fields,
                                         bool(ap), text)
            label = "sweep|%s|%s|%s" % (dform[2] if dform else "", tform[2] if tform else "-",
                                        zform[1] if zform else "-")
            out.append((mode, cfg, ap, text, point, dump or "", 1 if applies else 0, label))

        def ymd(y):
            return {"X": abs(y) // 10000, "CC": abs(y) % 10000 // 100, "YY": abs(y) % 100, "z": abs(y) % 10,
                    "sign": "-" if y < 0 else "+"}

        nofields = {"month": None, "day": None, "doy": None, "week": None, "dow": None}
        years = [1999, 2000, 2023, 2024, 2100] if quick else [0, 4, 100, 400, 1900, 1999, 2000, 2023, 2024, 2100]
        for mode in (["greg"] if quick else oracle.MODES):
            for y in years:
                for mo in range(0, 14):
                    top = oracle.month_len(mode, y, mo) if 1 <= mo <= 12 else 31
                    for d in ([0, 1, top, top + 1] if quick else range(0, top + 2)):
                        dv = dict(ymd(y), MM=mo, DD=d)
                        for name in ("CCYY-MM-DD", "CCYYMMDD"):
                            fixed(by[name], None, None, dv, y, dict(nofields, month=mo, day=d), {}, {},
                                  mode=mode, ap=rng.randint(0, 1))
                yl = oracle.year_len(mode, y)
                for doy in ([0, 1, 59, 60, 61, yl, yl + 1] if quick else range(0, yl + 2)):
                    dv = dict(ymd(y), DDD=doy)
                    fixed(by[rng.choice(["CCYY-DDD", "CCYYDDD"])], None, None, dv, y,
                          dict(nofields, doy=doy), {}, {}, mode=mode, ap=rng.randint(0, 1))
                wiy = oracle.weeks_in_year(mode, y)
                for w in ([0, 1, wiy, wiy + 1] if quick else range(0, wiy + 2)):
                    for d in ([1, 7] if quick else range(0, 9)):
                        dv = dict(ymd(y), Www=w, D=d)
                        fixed(by[rng.choice(["CCYY-Www-D", "CCYYWwwD"])], None, None, dv, y,
                              dict(nofields, week=w, dow=d), {}, {}, mode=mode, ap=rng.randint(0, 1))
                    dv = dict(ymd(y), Www=w)
                    fixed(by[rng.choice(["CCYY-Www", "CCYYWww"])], None, None, dv, y,
                          dict(nofields, week=w), {}, {}, mode=mode, ap=rng.randint(0, 1))
        # years: multiples of 400 / 100 / 4 with either sign, all expanded widths
        for ned in (2, 3, 0):
            cfg = (ned, False, False, ("a", 0, 0))
            lim = 10 ** (4 + ned) - 1
            ys = [y for y in YEARS_ABS if y <= lim]
            for ay in ys:
                for sg in (1, -1):
                    y = sg * ay
                    dv = dict(ymd(ay), MM=2, DD=29 if oracle.is_leap_g(ay) else 28, DDD=60, Www=1, D=1)
                    dv["sign"] = "-" if sg < 0 else "+"
                    for name, fl in (("+XCCYY-MM-DD", dict(nofields, month=2, day=dv["DD"])),
                                     ("+XCCYYMMDD", dict(nofields, month=2, day=dv["DD"])),
                                     ("+XCCYY-DDD", dict(nofields, doy=60)),
                                     ("+XCCYYWwwD", dict(nofields, week=1, dow=1)),
                                     ("+XCCYY", dict(nofields)), ("+XCCYY-MM", dict(nofields, month=2))):
                        fixed(by[name], None, None, dv, y, fl, {}, {}, cfg=cfg, ap=rng.randint(0, 1))
                    if ay % 100 == 0:
                        fixed(by["+XCC"], None, None, dv, y, dict(nofields), {}, {}, cfg=cfg, ap=1)
        # times
        dv = dict(ymd(2000), MM=1, DD=1)
        fl = dict(nofields, month=1, day=1)
        for h in range(0, 26):
            for (mi, s) in [(0, 0), (59, 59), (0, 1), (1, 0), (60, 0), (0, 60)]:
                if quick and h not in (0, 1, 12, 23, 24, 25) and (mi, s) != (59, 59):
                    continue
                tv = {"hh": h, "mm": mi, "ss": s}
                fixed(by["CCYY-MM-DD"], tby[("extended", "hh:mm:ss")], zby[("extended", "Z")], dv, 2000, fl, tv, {},
                      ap=rng.randint(0, 1))
                fixed(by["CCYYMMDD"], tby[("basic", "hhmmss")], zby[("basic", "Z")], dv, 2000, fl, tv, {},
                      ap=rng.randint(0, 1))
        for mi in range(0, 61):
            if quick and mi not in (0, 1, 30, 59, 60):
                continue
            fixed(by["CCYY-MM-DD"], tby[("extended", "hh:mm")], None, dv, 2000, fl, {"hh": 7, "mm": mi}, {})
            fixed(by["CCYYMMDD"], tby[("basic", "hhmmss")], None, dv, 2000, fl, {"hh": 7, "mm": 3, "ss": mi}, {})
        # decimals: 1-9 digits, comma and point, on every unit
        for n in range(1, 10):
            for sep in ",.":
                for unit, base in (("ii", "hh"), ("nn", "hh:mm"), ("tt", "hh:mm:ss")):
                    for fk in ("extended", "basic"):
                        expr = (base if fk == "extended" else base.replace(":", "")) + sep + unit
                        for _ in range(1 if quick else 4):
                            digits = pick_decimals(rng)
                            digits = (digits * 9)[:n]
                            tv = {"hh": rng.randint(0, 23), "mm": rng.randint(0, 59), "ss": rng.randint(0, 59),
                                  "dec": digits}
                            dname = "CCYY-MM-DD" if fk == "extended" else "CCYYMMDD"
                            fixed(by[dname], tby[(fk, expr)], zby[(fk, "Z")], dv, 2000, fl, tv, {})
        for digits in ["0", "00", "000000", "5", "50", "999999", "9999995", "9999994", "99999949", "1234567",
                       "123456789", "000001", "0000001", "0000005", "00000051", "999999999", "4999999", "1000000"]:
            tv = {"hh": 23, "mm": 59, "ss": 59, "dec": digits}
            fixed(by["CCYY-MM-DD"], tby[("extended", "hh:mm:ss,tt")], zby[("extended", "Z")], dv, 2000, fl, tv, {})
            fixed(by["CCYY-MM-DD"], tby[("extended", "hh,ii")], None, dv, 2000, fl, tv, {})
            fixed(by["CCYY-MM-DD"], tby[("extended", "hh:mm.nn")], None, dv, 2000, fl, tv, {})
            tv24 = {"hh": 24, "mm": 0, "ss": 0, "dec": digits}
            fixed(by["CCYY-MM-DD"], tby[("extended", "hh,ii")], None, dv, 2000, fl, tv24, {})
            fixed(by["CCYY-MM-DD"], tby[("extended", "hh:mm:ss,tt")], None, dv, 2000, fl, tv24, {})
        # offsets: every hour with minute 0/30/59, zero hour with every minute, either sign, all spellings
        tv = {"hh": 12, "mm": 0, "ss": 0}
        offs = [(h, mi) for h in range(0, 100) for mi in (0, 30, 59)] + [(0, mi) for mi in range(0, 61)]
        if quick:
            offs = [(h, mi) for (h, mi) in offs if h in (0, 1, 12, 23, 24, 99) or mi == 59][:120]
        for (h, mi) in offs:
            for sg in "+-":
                zv = {"sign": sg, "hh": h, "mm": mi}
                fixed(by["CCYY-MM-DD"], tby[("extended", "hh:mm:ss")], zby[("extended", "+hh:mm")], dv, 2000, fl, tv,
                      zv, ap=rng.randint(0, 1))
                fixed(by["CCYYMMDD"], tby[("basic", "hhmmss")], zby[("basic", "+hhmm")], dv, 2000, fl, tv, zv,
                      ap=rng.randint(0, 1))
                if mi == 0:
                    fixed(by["CCYY-MM-DD"], tby[("extended", "hh:mm")], zby[("extended", "+hh")], dv, 2000, fl, tv,
                          zv, ap=rng.randint(0, 1))
        return gens.shard_filter(out, self.shard)

    def line(self, a):
        return "tparse %s %s %d %s" % (a[0], cfg_tokens(a[1]), a[2], enc(a[3]))

    def impl(self, a):
        m, cfg, as_parsed, text = a[:4]
        set_mode(m)
        with local_zone(cfg[3]):
            p = get_parser(cfg).parse(text, dump_as_parsed=bool(as_parsed))
        out = canon_point(p)
        if as_parsed and has_tie(text):
            return out + " | TIE"
        if as_parsed:
            try:
                out += " | " + enc(str(p))
            except Exception as exc:  # noqa
                out += " | " + canon_exc(exc)
        return out

    def oracle(self, a, out):
        m, cfg, as_parsed, text, point, dump, applies, label = a
        what = "parse(%r%s) with num_expanded_year_digits=%d allow_only_basic=%s allow_truncated=%s zone=%s in %s" % (
            text, ", dump_as_parsed=True" if as_parsed else "", cfg[0], cfg[1], cfg[2], zone_token(cfg[3]), m)
        if out.startswith(("EXC:", "Timeout")):
            return "%s raised %s (not a ValueError)" % (what, out)
        got_point, _, got_dump = out.partition(" | ")
        if point.startswith("AMBIGUOUS"):
            return "%s: two documented forms spell this text and no try-order is documented (%s)" % (what, point)
        if point != "?":
            if point == "err":
                if got_point != "err":
                    return "%s is not a valid assignment of field values but was accepted as %s" % (what, got_point)
                return None
            if got_point == "err":
                return "%s was refused; the form %s spells %s" % (what, label, point)
            if got_point != point:
                return "%s decoded to %s; the form %s spells %s" % (what, got_point, label, point)
            if as_parsed and got_dump != "TIE":
                if got_dump.startswith(("err", "EXC")):
                    return "%s: str() of the dump_as_parsed result failed: %s" % (what, got_dump)
                if applies and dec(got_dump) != dump:
                    return "%s: str() of the dump_as_parsed result is %r, the input up to trailing decimal zeros is %r" % (
                        what, dec(got_dump), dump)
            return None
        # unknown expectation: mutations, losers of a documented overlap
        if got_point != "err" and as_parsed and "\n" not in text and got_dump != "TIE":
            if got_dump.startswith(("err", "EXC")):
                return "%s: str() of the dump_as_parsed result failed: %s" % (what, got_dump)
            if not same_up_to_decimals(dec(got_dump), text, cfg[0]):
                return "%s: str() of the dump_as_parsed result is %r" % (what, dec(got_dump))
        return None

    def label(self, a):
        m, cfg, as_parsed, text, point, dump, applies, label = a
        kind = "mutation" if label == "mutation" else ("invalid" if point == "err" else (
            "unknown" if point == "?" else "valid"))
        if label == "mutation":
            return "tparse/mutation/ned%d%s%s" % (cfg[0], "/basic" if cfg[1] else "", "/trunc" if cfg[2] else "")
        parts = label.split("|")
        dexpr, texpr, zexpr = parts[-3:]
        if texpr == "-":
            return "tparse/%s/date:%s" % (kind, dexpr)
        return "tparse/%s/time:%s/zone:%s" % (kind, texpr, zexpr)

    def nontrivial(self, a):
        return a[7] != "CCYY-MM-DD|hh:mm:ss|Z"


def same_up_to_decimals(a, b, ned=0):
    """a == b up to trailing zeros / 6-digit rounding of a decimal fraction and the sign of a zero."""
    if a == b:
        return True

    def split(s):
        for sep in ",.":
            if sep in s:
                i = s.rindex(sep)
                j = i + 1
                while j < len(s) and s[j] in "0123456789":
                    j += 1
                return s[:i + 1], s[i + 1:j], s[j:]
        return s, "", ""
    ha, da, ta = split(a)
    hb, db, tb = split(b)
    if not db:
        return zero_sign_equal(a, b, ned)
    if not (zero_sign_equal(ha, hb, ned) and zero_sign_equal(ta, tb, ned, False)):
        return False
    if len(db) <= 6:
        return da == norm_decimals(db)
    return da in round6(db)


def zero_sign_equal(a, b, ned=0, at_start=True):
    """a == b, except that a '-' of the input b in front of an all-zero year (at the very start, 4 + ned
    zeros; 2 + ned for the reduced form +-XCC) or an all-zero offset (to the end of the text) may have
    become '+'."""
    if a == b:
        return True
    if len(a) != len(b):
        return False
    for i, (x, y) in enumerate(zip(a, b)):
        if x == y:
            continue
        if not (y == "-" and x == "+"):
            return False
        if i == 0 and at_start:
            width = 4 + ned
            century_only = len(b) == 3 + ned and b[1:] == "0" * (2 + ned)     # the reduced form +-XCC
            if b[1:1 + width] != "0" * width and not century_only:
                return False
        else:
            rest = b[i + 1:]
            if not rest or set(rest) - {"0", ":"}:
                return False
    return True


def spelled_like_documented(doc, cfg, text):
    """Is the text, as a whole, spelled like some documented combination allowed under cfg?"""
    parts = text.split("T")
    ned = cfg[0]
    if len(parts) == 1:
        return any(date_allowed(cfg, d, False) and spells(date_tokens(d[2]), text, ned) for d in doc["date"])
    if len(parts) != 2:
        return False
    date, rest = parts
    dcands = [d for d in doc["date"] if spells(date_tokens(d[2]), date, ned)]
    if not date:
        dcands.append(None)
    if not dcands:
        return False
    for cut in range(len(rest) + 1):
        tcands = [t for t in doc["time"] if spells(time_tokens(t[2]), rest[:cut], ned)]
        if not tcands:
            continue
        zcands = [None] if cut == len(rest) else [z for z in doc["zone"]
                                                  if spells(zone_tokens(z[1]), rest[cut:], ned)]
        for d in dcands:
            for t in tcands:
                for z in zcands:
                    if combo_allowed(cfg, d, t, z):
                        return True
    return False


class TMatch(Op):
    """The translator's output against the regex objects it was read from: the Lean template matcher vs
    `regex.match(text).groupdict()` on one table entry."""
    prop = PROP
    name = "tmatch"
    shard = None

    def gen(self, rng, tier, boost):
        info = gen_templates.analyse()
        n_per = (6 if tier == "quick" else 40) * boost
        jobs = []
        for (ned, basic), tabs in info["parsers"].items():
            for kind, key in (("d", "date"), ("t", "time"), ("z", "zone")):
                for idx, ent in enumerate(tabs[key]):
                    jobs.append((ned, basic, kind, idx, key))
        for ned, basic, kind, idx, key in gens.shard_filter(jobs, self.shard):
            tabs = info["parsers"][(ned, basic)]
            ent = tabs[key][idx]
            for k in range(n_per):
                text = self.render_items(rng, ent[3])
                r = rng.random()
                if r < 0.45:
                    yield (ned, 1 if basic else 0, kind, idx, text, 1)
                elif r < 0.8:
                    other = self.render_items(rng, rng.choice(tabs[key])[3])
                    yield (ned, 1 if basic else 0, kind, idx, mutate(rng, text, other), 0)
                else:
                    other = self.render_items(rng, rng.choice(tabs[key])[3])
                    yield (ned, 1 if basic else 0, kind, idx, other, 0)

    @staticmethod
    def render_items(rng, items):
        out = []
        for it in items:
            if it[0] == "lit":
                out.append(it[1])
            elif it[0] == "digits":
                out.append("".join(rng.choice("0123456789") for _ in range(it[2])))
            elif it[0] == "digitsPlus":
                out.append("".join(rng.choice("0123456789") for _ in range(rng.randint(1, 9))))
            elif it[0] == "sign":
                out.append(rng.choice("+-"))
            else:
                out.append(it[2])
        return "".join(out)

    def line(self, a):
        return "tmatch %d %d %s %d %s" % (a[0], a[1], a[2], a[3], enc(a[4]))

    def impl(self, a):
        ned, basic, kind, idx, text = a[:5]
        parser = get_parser((ned, bool(basic), False, ("u",)))
        if kind == "z":
            flat = [pair for lst in parser._time_zone_regex_map.values() for pair in lst]
        else:
            mp = parser._date_regex_map if kind == "d" else parser._time_regex_map
            flat = [pair for types in mp.values() for lst in types.values() for pair in lst]
        regex = flat[idx][0]
        mt = regex.match(text)
        if not mt:
            return "nomatch"
        names = sorted(regex.groupindex, key=regex.groupindex.get)
        return "match " + ";".join("%s=%s" % (n, enc(mt.group(n))) for n in names)

    def oracle(self, a, out):
        if a[5] and not out.startswith("match"):
            return "a text rendered from regex #%d (%s table, ned=%d) is not matched by it: %r" % (
                a[3], a[2], a[0], a[4])

    def label(self, a):
        return "tmatch/%s/%s" % (a[2], "own" if a[5] else "other")


class BasicOnly(Op):
    """allow_only_basic: every basic form accepted, every extended-only form refused, no mixing of basic
    dates with extended times or zones (and vice versa) in any configuration.  Exhaustive over forms."""
    prop = PROP
    name = "tparse"
    shard = None

    def gen(self, rng, tier, boost):
        doc = documented()
        dates, times, zones = doc["date"], doc["time"], doc["zone"]
        reps = (1 if tier == "quick" else 4) * boost
        jobs = []
        for ned in (2, 0, 3):
            for trunc in (False, True):
                for d in dates:
                    jobs.append((ned, trunc, d, None, None))
                    if d[1] == "complete":
                        for t in times:
                            if t[1] == "truncated":
                                continue
                            for z in [None] + zones:
                                jobs.append((ned, trunc, d, t, z))
        for ned, trunc, d, t, z in gens.shard_filter(jobs, self.shard):
            for _ in range(reps):
                zone = rng.choice(CFG_ZONES)
                for basic in (True, False):
                    cfg = (ned, basic, trunc, zone)
                    case = build_case(rng, doc, "greg", cfg, d, t, z, as_parsed=False)
                    m, cfg, ap, text, point, dump, applies, label = case
                    yield (m, cfg, ap, text, point, dump, applies, label)

    line = Parse.line
    impl = Parse.impl

    def oracle(self, a, out):
        m, cfg, as_parsed, text, point, dump, applies, label = a
        got = out.partition(" | ")[0]
        what = "parse(%r) with allow_only_basic=%s num_expanded_year_digits=%d allow_truncated=%s (%s)" % (
            text, cfg[1], cfg[0], cfg[2], label)
        if out.startswith(("EXC:", "Timeout")):
            return "%s raised %s" % (what, out)
        if point == "err" and got != "err":
            return "%s must be refused (extended-only form under allow_only_basic, or basic/extended mixing, " \
                   "or invalid values) but decoded to %s" % (what, got)
        if point not in ("err", "?") and got != point:
            return "%s must decode to %s but gave %s" % (what, point, got)

    def label(self, a):
        return "basiconly/%s/%s" % ("basic" if a[1][1] else "all", "refuse" if a[4] == "err" else (
            "accept" if a[4] != "?" else "unknown"))


def _f12(op, a, out, msg):
    """F12: dump_as_parsed of a fraction of more than six digits prints exactly its six-digit rounding."""
    if op.name != "tparse" or not a[2] or not a[5]:
        return False
    text, want = a[3], a[5]
    got = dec(out.partition(" | ")[2]) if " | s" in out else None
    if got is None:
        return False
    for sep in ",.":
        if sep in want:
            i = want.rindex(sep)
            j = i + 1
            while j < len(want) and want[j] in "0123456789":
                j += 1
            digits_in = text[text.rindex(sep) + 1:]
            k = 0
            while k < len(digits_in) and digits_in[k] in "0123456789":
                k += 1
            digits_in = digits_in[:k]
            if len(digits_in) <= 6:
                return False
            return any(got == want[:i + 1] + r + want[j:] for r in round6(digits_in))
    return False


KNOWN_PREDICATES = {"decimal_longer_than_six_digits": _f12}


def ops():
    import tprops
    return [Parse(), BasicOnly(), TMatch(), tprops.TProps()]
