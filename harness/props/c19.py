"""C19 — the command line prints exactly what the library computes.

Flow per case: build an argument vector from a structured description (so the post-argparse
options are known by construction), run the real `main(argv)` in-process capturing stdout /
SystemExit, ask the Lean driver for the *plan* (`Model.Cli.plan`: which library operation with
which operands, offsets unescaped and sign-split, --max count), execute that plan through the
library API (TimePointParser / DurationParser / TimeRecurrenceParser / TimePointDumper / TimePoint
arithmetic) and compare the two outputs.  Strings go to the driver hex-encoded.
"""
import io
import os
import sys
import random
import re
import contextlib

import oracle
import gens
import tpcommon as T
import engine
from engine import Op, set_mode

PROP = "C19"
FOREIGN_FIRST = True
QUICK_BOOST = 1
LEAN_MODULES = ["IsoDT.Props.C19", "IsoDT.Props.C19b"]
RULE = ("argument vectors built from valid date-times in every notation (ISO basic/extended, reduced, week, "
        "ordinal, the strptime-able notations), 0-3 offsets of either sign incl. -P... spellings and every "
        "option spelling, pairs of date-times, recurrences with --max, --as-total, the four calendar modes via "
        "--calendar and ISODATETIMECALENDAR, --utc, --ref/ISODATETIMEREF, print formats (ISO-like and "
        "strftime); plus malformed arguments in every slot; distinct by argv")
ASSUMPTIONS = ["argparse, `now`, stdin and the datetime/time strptime/strftime fallbacks are outside the model",
               "'never a traceback' is observed (exception class of main) rather than proved"]
PARALLEL = False

LOCAL_TZ = [(0, 0), (1, 0), (-5, 0), (5, 30), (-3, -30), (13, 45), (0, -30)]


def hx(s):
    return "-" if s == "" else s.encode("utf-8").hex()


def unhx(s):
    return "" if s == "-" else bytes.fromhex(s).decode("utf-8")


def opt(s):
    return "_" if s is None else hx(s)


class Case:
    """Structured description of one invocation."""

    def __init__(self, items, offsets1=(), offsets2=(), as_total=None, calendar=None, max_results=None,
                 parse_format=None, print_format=None, ref=None, utc=False, version=False,
                 env_calendar=None, env_ref=None, local_tz=(0, 0), spell_seed=0):
        self.items = list(items)
        self.offsets1 = list(offsets1)
        self.offsets2 = list(offsets2)
        self.as_total = as_total
        self.calendar = calendar
        self.max_results = max_results
        self.parse_format = parse_format
        self.print_format = print_format
        self.ref = ref
        self.utc = utc
        self.version = version
        self.env_calendar = env_calendar
        self.env_ref = env_ref
        self.local_tz = local_tz
        self.spell_seed = spell_seed

    def argv(self):
        rng = random.Random(self.spell_seed)
        out = []

        def opt_with(names, value):
            name = rng.choice(names)
            if name.startswith("--") and rng.random() < 0.5 and not value.startswith("-"):
                return [name + "=" + value]
            if name.startswith("--") and value.startswith("-"):
                return [name + "=" + value] if rng.random() < 0.5 else [name, value]
            return [name, value]
        parts = []
        for o in self.offsets1:
            parts.append(opt_with(["--offset1", "--offset", "-s", "-1"], o))
        for o in self.offsets2:
            parts.append(opt_with(["--offset2", "-2"], o))
        if self.as_total is not None:
            parts.append(["--as-total=" + self.as_total] if rng.random() < 0.5 else ["--as-total", self.as_total])
        if self.calendar is not None:
            parts.append(opt_with(["--calendar"], self.calendar))
        if self.max_results is not None:
            parts.append(["--max=" + str(self.max_results)])
        if self.parse_format is not None:
            parts.append(opt_with(["--parse-format", "-p"], self.parse_format))
        if self.print_format is not None:
            parts.append(opt_with(["--print-format", "--format", "-f"], self.print_format))
        if self.ref is not None:
            parts.append(opt_with(["--ref", "-R"], self.ref))
        if self.utc:
            parts.append([rng.choice(["--utc", "-u"])])
        if self.version:
            parts.append([rng.choice(["--version", "-V"])])
        # options keep their relative order within a kind (offsets!) - shuffle blocks of other kinds only
        offs = [p for p in parts[:len(self.offsets1) + len(self.offsets2)]]
        others = parts[len(offs):]
        rng.shuffle(others)
        blocks = offs + others
        # interleave the positional items at random places
        positions = sorted(rng.randint(0, len(blocks)) for _ in self.items)
        merged = []
        k = 0
        for i in range(len(blocks) + 1):
            while k < len(positions) and positions[k] == i:
                merged.append([self.items[k]])
                k += 1
            if i < len(blocks):
                merged.append(blocks[i])
        for blk in merged:
            out.extend(blk)
        return out

    def key(self):
        return (tuple(self.items), tuple(self.offsets1), tuple(self.offsets2), self.as_total, self.calendar,
                self.max_results, self.parse_format, self.print_format, self.ref, self.utc, self.version,
                self.env_calendar, self.env_ref, self.local_tz, self.spell_seed)

    def line(self):
        """The post-argparse Args as the driver reads them (offsets as argparse collected them:
        a -P... argument arrives with its protective backslash)."""
        def esc(o):
            return "\\" + o if o.startswith("-P") else o
        items = self.items
        toks = ["cliplan", "1" if self.version else "0", "1" if self.utc else "0",
                str(self.max_results if isinstance(self.max_results, int) else 10), opt(self.as_total),
                opt(self.calendar), opt(self.parse_format), opt(self.print_format), opt(self.ref),
                "I", str(len(items))] + [hx(i) for i in items]
        toks += ["A", str(len(self.offsets1))] + [hx(esc(o)) for o in self.offsets1]
        toks += ["B", str(len(self.offsets2))] + [hx(esc(o)) for o in self.offsets2]
        return " ".join(toks)

    def describe(self):
        return "argv=%r env={CAL:%r, REF:%r} localtz=%r" % (self.argv(), self.env_calendar, self.env_ref,
                                                            self.local_tz)


RESIDUE_MODES = ["gregorian", "360day", "365day", "366day", "gregorian", "360_day"]


@contextlib.contextmanager
def environment(case, residue=None):
    """`residue`: the calendar mode an EARLIER command in the same process left on the process-wide
    singleton (main(argv) is also an API; each call has to select what ITS options and environment say)."""
    from metomi.isodatetime import timezone as tzmod
    from metomi.isodatetime.data import CALENDAR
    saved_env = {k: os.environ.get(k) for k in ("ISODATETIMECALENDAR", "ISODATETIMEREF")}
    saved_tz = tzmod.get_local_time_zone
    for k, v in (("ISODATETIMECALENDAR", case.env_calendar), ("ISODATETIMEREF", case.env_ref)):
        if v is None:
            os.environ.pop(k, None)
        else:
            os.environ[k] = v
    tzmod.get_local_time_zone = lambda: case.local_tz
    CALENDAR.set_mode(residue or "gregorian")
    try:
        yield
    finally:
        tzmod.get_local_time_zone = saved_tz
        for k, v in saved_env.items():
            if v is None:
                os.environ.pop(k, None)
            else:
                os.environ[k] = v
        CALENDAR.set_mode("gregorian")


def run_cli(case):
    """Run the real command; returns 'OUT:<stdout>' | 'EXIT:<code-or-message>' | 'TRACEBACK:<class>'."""
    from metomi.isodatetime import main as cli
    out, err = io.StringIO(), io.StringIO()
    with environment(case, residue=RESIDUE_MODES[case.spell_seed % len(RESIDUE_MODES)]):
        try:
            with contextlib.redirect_stdout(out), contextlib.redirect_stderr(err):
                engine.guarded(cli.main, case.argv())
        except SystemExit as exc:
            code = exc.code
            if code is None or code == 0:
                return "OUT:" + out.getvalue().rstrip("\n")
            if isinstance(code, int):
                msg = err.getvalue().strip().split("\n")[-1]
                return "EXIT:%d:%s" % (code, "usage" if "error:" in msg or "usage" in msg else msg)
            return "EXIT:1:" + str(code)
        except engine.OpTimeout:
            return "TRACEBACK:Timeout"
        except BaseException as exc:   # a traceback as far as the user is concerned
            return "TRACEBACK:" + type(exc).__name__
    return "OUT:" + out.getvalue().rstrip("\n")


# ---------------------------------------------------------------------------
# executing a plan through the library API

PARSE_FORMATS = ["%a %b %d %H:%M:%S %Y", "%a %d %b %H:%M:%S %Z %Y", "%Y-%m-%dT%H:%M:%S", "%Y%m%dT%H%M%S"]


class Lib:
    def __init__(self, case):
        from metomi.isodatetime.parsers import TimePointParser, DurationParser, TimeRecurrenceParser
        from metomi.isodatetime.dumpers import TimePointDumper
        from metomi.isodatetime.data import CALENDAR
        self.case = case
        cal = case.calendar if case.calendar else case.env_calendar
        CALENDAR.set_mode(cal)
        self.tp = TimePointParser(assumed_time_zone=(0, 0) if case.utc else None)
        self.dur = DurationParser()
        self.rec = TimeRecurrenceParser(self.tp, self.dur)
        self.dumper = TimePointDumper()
        self.ref = case.ref if case.ref is not None else case.env_ref

    def strptime(self, text, fmt):
        import time as _time
        from metomi.isodatetime.data import TimePoint
        from metomi.isodatetime.exceptions import StrftimeSyntaxError
        try:
            return self.tp.strptime(text, fmt)
        except StrftimeSyntaxError:
            # The datetime library stands in only for formats with directives the library does not implement
            # (%a, %b, %Z ...).  A format the library does read must match strictly: the lenient time.strptime
            # (one or two digits per field) would read the ISO 8601 basic ordinal date 2004031T204619 as
            # 2004-03-01T20:46:19 - a different date in a different notation (finding F19, repaired).
            t = _time.strptime(text, fmt)
            return TimePoint(year=t.tm_year, month_of_year=t.tm_mon, day_of_month=t.tm_mday,
                             hour_of_day=t.tm_hour, minute_of_hour=t.tm_min, second_of_minute=t.tm_sec)

    def strftime(self, point, fmt):
        try:
            return point.strftime(fmt)
        except ValueError:
            # the datetime-library fallback, written out over the data model's public accessors (not through
            # datetimeoper, which is the code under check): the civil calendar date and time of day of the point
            from datetime import datetime
            year, month, day = point.get_calendar_date()
            hour, minute, second = point.get_hour_minute_second()
            return datetime(year, month, day, int(hour), int(minute), int(second),
                            int(1.0e6 * (second - int(second)))).strftime(fmt)

    def parse_point(self, item):
        if item == "ref":
            item = self.ref
        if item is None or item == "now":
            raise Unsupported("now")
        if self.case.parse_format is not None:
            fmt = self.case.parse_format
            point = self.strptime(item, fmt)
        else:
            point = None
            for fmt in PARSE_FORMATS:
                try:
                    point = self.strptime(item, fmt)
                    break
                except ValueError:
                    pass
            if point is None:
                point = self.tp.parse(item, dump_as_parsed=True)
                fmt = point.dump_format
        if self.case.utc:
            point = point.to_utc()
        return point, fmt

    def shift(self, point, offsets):
        from metomi.isodatetime.exceptions import OffsetValueError
        for neg, text in offsets:
            try:
                d = self.dur.parse(text)
            except ValueError:
                raise OffsetValueError(("-" if neg else "") + text)
            point = point - d if neg else point + d
        return point

    def fmt_point(self, point, fmt):
        if fmt is None:
            return str(point)
        if "%" in fmt:
            return self.strftime(point, fmt)
        return self.dumper.dump(point, fmt)


class Unsupported(Exception):
    pass


def parse_plan(text):
    f = text.split()
    kind = f[0]

    def kv(tok):
        v = tok.split("=", 1)[1]
        return None if v == "_" else unhx(v)

    def offsets(toks):
        return [(t[0] == "-", unhx(t[1:])) for t in toks]
    if kind == "version":
        return ("version",)
    if kind == "shift":
        n = int(f[3].split("=")[1])
        return ("shift", None if f[1] == "_" else unhx(f[1]), kv(f[2]), offsets(f[4:4 + n]))
    if kind == "diff":
        n1 = int(f[5].split("=")[1])
        o1 = offsets(f[6:6 + n1])
        n2 = int(f[6 + n1].split("=")[1])
        o2 = offsets(f[7 + n1:7 + n1 + n2])
        return ("diff", unhx(f[1]), unhx(f[2]), kv(f[3]), kv(f[4]), o1, o2)
    if kind == "recurrence":
        return ("recurrence", unhx(f[1]), kv(f[2]), int(f[3].split("=")[1]))
    if kind == "total":
        return ("total", unhx(f[1]), unhx(f[2]))
    raise ValueError("bad plan " + text)


def execute_plan(case, plan_text):
    """Expected outcome of the command, computed through the library API from the model's plan."""
    plan = parse_plan(plan_text)
    with environment(case):
        try:
            lib = Lib(case)
            if plan[0] == "version":
                import metomi.isodatetime as pkg
                return "OUT:" + pkg.__version__
            if plan[0] == "shift":
                _, item, pfmt, offs = plan
                point, fmt = lib.parse_point(item)
                point = lib.shift(point, offs)
                return "OUT:" + lib.fmt_point(point, pfmt if pfmt else fmt)
            if plan[0] == "diff":
                _, i1, i2, pfmt, total, o1, o2 = plan
                p1 = lib.shift(lib.parse_point(i1)[0], o1)
                p2 = lib.shift(lib.parse_point(i2)[0], o2)
                if p2 < p1:
                    d, sign = p1 - p2, "-"
                else:
                    d, sign = p2 - p1, ""
                if pfmt:
                    look = {"y": d.years, "m": d.months, "d": d.days, "h": d.hours, "M": d.minutes, "s": d.seconds}
                    out = ""
                    for ch in pfmt:
                        if ch not in look:
                            out += ch
                        elif float(look[ch]).is_integer():
                            out += str(int(look[ch]))
                        else:
                            out += str(look[ch])
                    out = sign + out
                else:
                    out = sign + str(d)
                if total:
                    return "OUT:" + str(total_of(lib, out, total))
                return "OUT:" + out
            if plan[0] == "recurrence":
                _, item, pfmt, count = plan
                rec = lib.rec.parse(item)
                outs = []
                for point in rec:
                    outs.append(lib.fmt_point(point, pfmt))
                    if len(outs) >= count:
                        break
                return "OUT:" + "\n".join(outs)
            if plan[0] == "total":
                _, item, unit = plan
                return "OUT:" + str(total_of(lib, item, unit))
        except Unsupported:
            return None
        except ValueError as exc:
            return "EXIT:1:" + str(exc)
    return None


def total_of(lib, text, unit):
    d = lib.dur.parse(text.replace("\\", ""))
    secs = d.get_seconds()
    table = {"S": secs, "M": secs / 60, "H": secs / 3600}
    if unit.upper() not in table:
        raise ValueError('Invalid duration print format, should use one of H, M, S for (hours, minutes, seconds)')
    return table[unit.upper()]


# ---------------------------------------------------------------------------
# generators

def point_text(rng, m, style=None):
    """A valid date-time of mode m in some notation; returns (text, has_zone)."""
    t = T.gen_tp(rng, m, allow24=False)
    y = rng.choice([1, 1999, 2000, 2004, 2020, 9998, rng.randint(1, 9998)])
    t = (t[0], y) + t[2:]
    if not T.valid(m, t):
        t = ("c", y, 1, 1) + t[4:]
    rep, y, a, b, hh, mi, ss, tzh, tzm = t
    style = style or rng.choice(["ext", "ext", "basic", "reduced", "strp-ext", "strp-basic", "date"])
    sign = "-" if (tzh < 0 or tzm < 0) else "+"
    if tzh == 0 and tzm == 0:
        zone_e = zone_b = "Z"
    else:
        zone_e = "%s%02d:%02d" % (sign, abs(tzh), abs(tzm))
        zone_b = "%s%02d%02d" % (sign, abs(tzh), abs(tzm))
    if abs(tzh) > 23:
        zone_e = zone_b = "Z"
    if rng.random() < 0.35:
        zone_e = zone_b = ""
    if rep == "c":
        de, db = "%04d-%02d-%02d" % (y, a, b), "%04d%02d%02d" % (y, a, b)
    elif rep == "o":
        de, db = "%04d-%03d" % (y, a), "%04d%03d" % (y, a)
    else:
        de, db = "%04d-W%02d-%d" % (y, a, b), "%04dW%02d%d" % (y, a, b)
    if style == "ext":
        return de + "T%02d:%02d:%02d" % (hh, mi, ss) + zone_e
    if style == "basic":
        return db + "T%02d%02d%02d" % (hh, mi, ss) + zone_b
    if style == "reduced":
        return rng.choice([de + "T%02d:%02d" % (hh, mi) + zone_e, de + "T%02d" % hh + zone_e,
                           db + "T%02d%02d" % (hh, mi) + zone_b])
    if style == "date":
        return rng.choice([de, db, "%04d" % y, "%04d-%02d" % (y, rng.randint(1, 12))])
    cal = oracle.cal_of_day_num(m, oracle.date_day_num(m, T.date_of(t)))
    if style == "strp-ext":
        return "%04d-%02d-%02dT%02d:%02d:%02d" % (cal + (hh, mi, ss))
    return "%04d%02d%02dT%02d%02d%02d" % (cal + (hh, mi, ss))


def offset_text(rng):
    kind = rng.random()
    sign = rng.choice(["", "", "-", "+"])
    if kind < 0.3:
        body = "P%dD" % rng.choice([1, 7, 30, 365])
    elif kind < 0.5:
        body = "PT%dH" % rng.choice([1, 6, 24, 25])
    elif kind < 0.65:
        body = "P%dM" % rng.choice([1, 2, 12, 13])
    elif kind < 0.75:
        body = "P%dY" % rng.choice([1, 4])
    elif kind < 0.85:
        body = "P%dW" % rng.choice([1, 2])
    elif kind < 0.93:
        body = rng.choice(["P1DT12H", "PT90M", "P1Y2M3DT4H5M6S", "PT1M30S", "P2DT5,5H"])
    else:
        # the date-time-like alternative spelling of a duration, with either sign: the sign belongs to the
        # command-line option, not to the duration syntax
        body = rng.choice(["P0000-00-01T00", "P0000-00-00T01", "P0000-01-00", "P0001-00-00T00:00:00",
                           "P00000001T000000", "P00000000T0100", "P0000-00-01T12:30", "P0000-001", "P0000001T06"])
        sign = rng.choice(["-", "-", "", "+"])
    return sign + body


PRINT_FORMATS = [None, None, None, "CCYY-MM-DDThh:mm:ssZ", "CCYYMMDDThhmmss+hhmm", "CCYY-DDD", "CCYY-Www-D",
                 "CCYY", "%Y-%m-%dT%H:%M:%S", "%Y%m%dT%H%M", "%j %H", "%F %X %z", "%s", "CCYY-MM-DDThh:mm:ss+05:30",
                 "CCYY-MM-DDThh+hh"]
CALS = [None, None, "gregorian", "360day", "365day", "366day"]
MODE_OF = {None: "greg", "gregorian": "greg", "360day": "d360", "365day": "d365", "366day": "d366"}


def gen_cases(rng, tier, boost):
    n = 700 * boost if tier == "quick" else 4000 * boost
    for i in range(n):
        cal = rng.choice(CALS)
        env_cal = rng.choice([None, None, None, "360day", "gregorian"])
        m = MODE_OF[cal if cal else env_cal]
        common = dict(calendar=cal, env_calendar=env_cal, utc=rng.random() < 0.3,
                      local_tz=rng.choice(LOCAL_TZ), spell_seed=rng.getrandbits(30))
        r = rng.random()
        if r < 0.45:
            offs = [offset_text(rng) for _ in range(rng.choice([0, 0, 1, 1, 2, 3]))]
            item = point_text(rng, m)
            kw = dict(common)
            if rng.random() < 0.15:
                kw["env_ref" if rng.random() < 0.5 else "ref"] = item
                if rng.random() < 0.3:
                    kw["env_ref"], kw["ref"] = point_text(rng, m), item
                item = "ref"
            yield Case([item], offsets1=offs, print_format=rng.choice(PRINT_FORMATS), **kw)
        elif r < 0.7:
            fmt = rng.choice([None, None, None, "y,m,d,h,M,s", "d h"])
            yield Case([point_text(rng, m), point_text(rng, m)],
                       offsets1=[offset_text(rng) for _ in range(rng.choice([0, 0, 1]))],
                       offsets2=[offset_text(rng) for _ in range(rng.choice([0, 0, 1]))],
                       print_format=fmt, as_total=rng.choice([None, None, "h", "H", "m", "s", "S"]), **common)
        elif r < 0.88:
            reps = rng.choice(["", "", "3", "5", "12", "1"])
            start = point_text(rng, m, style=rng.choice(["ext", "basic", "date"]))
            form = rng.random()
            interval = rng.choice(["P1D", "PT6H", "P1M", "P1Y", "P1W", "PT90M", "P1M1D"])
            if form < 0.6:
                text = "R%s/%s/%s" % (reps, start, interval)
            elif form < 0.8:
                text = "R%s/%s/%s" % (reps, interval, start)
            else:
                # start/second-point: keep the two points within two centuries of each other - the cost of
                # iterating grows with the days spanned (C09's finding F10), and 15 steps of 10000 years each
                # are minutes of stepping, not a property of the command line
                def _year(txt):
                    mt = re.match(r"[+-]?[0-9]{4}", txt)
                    return int(mt.group(0)) if mt else 0
                second = point_text(rng, m, style="ext")
                for _ in range(30):
                    if abs(_year(second) - _year(start)) <= 200:
                        break
                    second = point_text(rng, m, style="ext")
                else:
                    second = start
                text = "R%s/%s/%s" % (reps, start, second)
            yield Case([text], max_results=rng.choice([None, None, 1, 2, 3, 15]),
                       print_format=rng.choice([None, None, "CCYY-MM-DD", "%Y%m%d"]), **common)
        elif r < 0.95:
            yield Case([rng.choice(["PT1H", "P1D", "P1W", "-PT90M", "PT1M30S", "P1Y", "P1M2D", "\\-P1D", "PT0,5H"])],
                       as_total=rng.choice(["h", "H", "m", "M", "s", "S"]), **common)
        else:
            yield Case([], version=True, **common)
    # --utc with a zoned argument whose local date and UTC date lie on opposite sides of a month end, and
    # month/year offsets: the conversion has to happen before the offsets are applied
    nb = 150 * boost if tier == "quick" else 1500 * boost
    for i in range(nb):
        cal = rng.choice(CALS)
        m = MODE_OF[cal]
        y = rng.choice([1999, 2000, 2004, 2019, 2020, 2021])
        mo = rng.randint(1, 12)
        last = oracle.month_len(m, y, mo)
        if rng.random() < 0.5:
            d, hh, sign = 1, rng.choice([0, 0, 1, 3]), "+"          # early on the 1st, east of Greenwich
        else:
            d, hh, sign = last, rng.choice([23, 23, 22, 20]), "-"   # late on the last day, west of Greenwich
        zone = "%s%02d:%02d" % (sign, rng.choice([1, 2, 5, 9, 12]), rng.choice([0, 0, 30, 45]))
        item = "%04d-%02d-%02dT%02d:%02d%s" % (y, mo, d, hh, rng.choice([0, 30, 59]), zone)
        noms = [rng.choice(["P1M", "-P1M", "P1Y", "-P1Y", "P13M", "P1M1D", "-P2M", "P11M"])
                for _ in range(rng.choice([1, 1, 2]))]
        common = dict(calendar=cal, utc=rng.random() < 0.8, local_tz=rng.choice(LOCAL_TZ),
                      spell_seed=rng.getrandbits(30))
        if rng.random() < 0.55:
            yield Case([item], offsets1=noms, print_format=rng.choice([None, None, "CCYY-MM-DDThh:mm+hh:mm", "%F %X %z"]),
                       **common)
        else:
            other = point_text(rng, m, style="ext")
            first = rng.random() < 0.5
            yield Case([item, other] if first else [other, item],
                       offsets1=noms if first else [], offsets2=[] if first else noms,
                       as_total=rng.choice([None, None, "h", "s"]), **common)
    # malformed arguments in every slot
    bad_points = ["", "garbage", "2000-13-01", "2000-02-30T00Z", "20000101T25", "2000-W54-1", "2000-366", "T",
                  "2000-01-01T00:00:60Z", "٢٠٠٠", "2000T00T00", "+2000", "R", "R/", "R/2000",
                  "R0/2000/P1D", "R-1/2000/P1D", "R1/2000/garbage", "P", "PT", "P1", "1H"]
    for bp in bad_points:
        cm = dict(local_tz=(0, 0), spell_seed=rng.getrandbits(30))
        yield Case([bp], **cm)
        yield Case([bp, "2000"], **cm)
        yield Case(["2000", bp], **cm)
        yield Case(["2000"], offsets1=[bp], **cm)
        yield Case(["2000", "2001"], offsets2=[bp], **cm)
        yield Case([bp], as_total="s", **cm)
        yield Case(["2000"], print_format=bp, **cm)
        yield Case(["2000"], parse_format=bp, **cm)
        yield Case(["ref"], ref=bp, **cm)
    for bad in (dict(as_total="x"), dict(calendar="bogus"), dict(max_results="abc")):
        yield Case(["2000"], local_tz=(0, 0), spell_seed=1, **bad)
    yield Case(["R/P1Y/0001-01-01T00Z"], max_results=4, local_tz=(0, 0), spell_seed=3)     # known finding F20 witness
    # two date-times with the SAME offsets on both sides, month / year units included: each point is shifted on its
    # own (equal month offsets do not cancel: the months differ in length)
    for i in range(60 * boost if tier == "quick" else 600 * boost):
        cal = rng.choice(CALS)
        m = MODE_OF[cal]
        offs = [rng.choice(["P1M", "-P1M", "P1Y", "P13M", "P1M1D", "-P1Y", "P2M", "PT12H", "P1D"])
                for _ in range(rng.choice([1, 1, 2]))]
        yy = rng.choice([2019, 2020, 2021, 2000, 1900])
        a = "%04d%02d%02dT00Z" % (yy, rng.choice([1, 2, 3, 12]), rng.choice([15, 28, 1]))
        b = "%04d%02d%02dT00Z" % (yy, rng.choice([2, 3, 4, 5]), rng.choice([15, 28, 1]))
        yield Case([a, b], offsets1=list(offs), offsets2=list(offs), calendar=cal, as_total=rng.choice([None, None, "h"]),
                   local_tz=(0, 0), spell_seed=rng.getrandbits(30))
    # ISO 8601 forms that a lenient strptime would misread through the built-in strptime formats
    for item in ("2004031T204619", "20000228T1234", "2004101T0101", "2004031T204619Z", "1999365T235959", "2000-001T00:00:00",
                 "20000228T12", "2000060T1234", "2000-02-28T12:34", "2000W011T0000", "20001T0101"):
        for kw in (dict(), dict(utc=True), dict(offsets1=["P1D"]), dict(print_format="CCYY-MM-DDThh:mm:ss")):
            yield Case([item], local_tz=rng.choice(LOCAL_TZ), spell_seed=rng.getrandbits(30), **kw)
        yield Case([item, "20000301T000000"], local_tz=(0, 0), spell_seed=rng.getrandbits(30))
    # both items the SAME keyword (`ref ref`), with offsets on either or both: each item is read afresh
    for i in range(60 * boost if tier == "quick" else 600 * boost):
        cal = rng.choice(CALS)
        m = MODE_OF[cal]
        refp = point_text(rng, m)
        kw = dict(calendar=cal, utc=rng.random() < 0.3, local_tz=rng.choice(LOCAL_TZ), spell_seed=rng.getrandbits(30))
        kw["env_ref" if rng.random() < 0.5 else "ref"] = refp
        o1 = [offset_text(rng) for _ in range(rng.choice([0, 1, 1, 2]))]
        o2 = [offset_text(rng) for _ in range(rng.choice([0, 0, 1]))]
        yield Case(["ref", "ref"], offsets1=o1, offsets2=o2, as_total=rng.choice([None, None, "s", "h"]), **kw)
        if rng.random() < 0.3:
            yield Case(["ref", refp], offsets1=o1, offsets2=o2, **kw)
    # a duration with a unit --as-total does not know; print formats only the datetime fallback understands
    for unit in ("x", "d", "hh", ""):
        yield Case(["PT1H"], as_total=unit, local_tz=(0, 0), spell_seed=2)
    for fmt in ("%a %d %b %Y", "%Y-%m-%d %A", "%y%m%d", "%H:%M:%S.%f", "%d/%m/%Y %I%p"):
        for item in ("2000-02-29T13:45:10Z", "19991231T235959Z", "2020-W53-5T00:00Z", "0999-001T06Z"):
            yield Case([item], print_format=fmt, local_tz=(0, 0), spell_seed=rng.getrandbits(30))
            yield Case([item], offsets1=["P1M"], print_format=fmt, utc=True, local_tz=(0, 0),
                       spell_seed=rng.getrandbits(30))


    # fallback print formats on week and ordinal dates around a year end (where the week year, the ordinal year and
    # the calendar year of one day differ), also as shifted points and as recurrence points
    fallbacks = ["%a %b %d %H:%M:%S %Y", "%A %d %B %y", "%y-%m-%d %a", "%d %b %Y", "%c", "%x", "%b %e %Y"]
    for _ in range(40 * boost if tier == "quick" else 300 * boost):
        y = rng.choice([1998, 2003, 2004, 2008, 2009, 2015, 2019, 2020, 2021, 2026, rng.randint(1000, 9000)])
        kind = rng.random()
        if kind < 0.5:
            w = rng.choice([1, 1, 52, 53])
            if w == 53 and oracle.weeks_in_year("greg", y) < 53:
                w = 52
            item = rng.choice(["%04d-W%02d-%dT%02d:00:00Z", "%04dW%02d%dT%02d0000Z"]) % (y, w, rng.randint(1, 7),
                                                                                      rng.randint(0, 23))
        elif kind < 0.8:
            item = "%04d-%03dT%02d:30:00Z" % (y, rng.choice([1, 2, 364, 365, oracle.year_len("greg", y)]),
                                             rng.randint(0, 23))
        else:
            item = "%04d-%02d-%02dT12:00:00Z" % (y, rng.choice([1, 12]), rng.choice([1, 2, 30, 31]))
        fmt = rng.choice(fallbacks)
        r = rng.random()
        kw = dict(local_tz=(0, 0), spell_seed=rng.getrandbits(30), print_format=fmt,
                  calendar=rng.choice([None, None, "gregorian"]))
        if r < 0.5:
            yield Case([item], **kw)
        elif r < 0.8:
            yield Case([item], offsets1=[rng.choice(["P1D", "-P1D", "P3D", "-P1W", "PT12H"])], **kw)
        else:
            yield Case(["R3/%s/%s" % (item, rng.choice(["P1D", "P2D", "P1W"]))], **kw)


class CliOp(Op):
    """Placeholder so that corpus/replay machinery sees an op; the work is in extra_checks."""
    prop = PROP
    name = "cli"
    model = False

    def gen(self, rng, tier, boost):
        return []

    def line(self, a):
        return a[0]

    def impl(self, a):
        return a[1]


def extra_checks(res, seed, tier, boost):
    rng = random.Random(seed * 7919 + 19)
    cases = list(gen_cases(rng, tier, boost))
    op = CliOp()
    actual = []
    for case in cases:
        actual.append(run_cli(case))
    plans = engine.run_driver([c.line() for c in cases])
    for case, got, plan in zip(cases, actual, plans):
        res.evaluations += 1
        res.keys.add(("cli",) + case.key())
        label = "cli/" + plan.split()[0] + "/" + got.split(":")[0]
        res.hist[label] += 1
        if len(res.samples) < 8:
            res.samples.append({"argv": case.argv(), "plan": plan, "cli": got[:200]})
        a = (case.describe(), got)
        if got.startswith("TRACEBACK"):
            res.violations.append((op, a, got, "the command ended with an uncaught %s instead of an exit with "
                                   "a message" % got.split(":", 1)[1]))
            continue
        if got.startswith("EXIT:") and got.endswith(":"):
            res.violations.append((op, a, got, "non-zero exit without a message"))
            continue
        if plan == "bad-op":
            res.disagreements.append((op, a, got, plan))
            continue
        if case.as_total in ("x",) or case.calendar == "bogus" or case.max_results == "abc":
            # malformed option values are refused by argparse itself (usage message, exit status 2)
            if not got.startswith("EXIT:2"):
                res.violations.append((op, a, got, "a malformed option value was not refused with a usage error"))
            continue
        want = execute_plan(case, plan)
        if want is None:
            continue
        if normalise(got) != normalise(want):
            res.violations.append((op, a, got, "the command printed %r, the library computes %r for plan [%s]" % (
                got[:300], want[:300], plan[:200])))
    engine.set_mode("greg")


def _f20(op, a, out, msg):
    """A recurrence whose printed points reach a negative year with no expanded-year digits: str() of such a point
    raises OverflowError (TimePoint._get_dump_format), which main() does not turn into an exit message."""
    import re as _re
    if out != "TRACEBACK:OverflowError":
        return False
    mt = _re.search(r"argv=\[(.*?)\] env=", a[0])
    if not mt:
        return False
    argv = [x.strip().strip("'\"") for x in mt.group(1).split(",")]
    items = [x for x in argv if x.startswith("R")]
    if len(items) != 1 or any(x.startswith(("-f", "--print-format", "--format")) for x in argv):
        return False
    from metomi.isodatetime.parsers import TimeRecurrenceParser
    try:
        rec = TimeRecurrenceParser().parse(items[0])
        for i, p in enumerate(rec):
            if p.year is not None and p.year < 0 and not p.num_expanded_year_digits:
                return True
            if i >= 20:
                break
    except Exception:
        return False
    return False


KNOWN_PREDICATES = {"recurrence_reaches_negative_year_overflow_traceback": _f20}


def normalise(text):
    if text.startswith("EXIT:"):
        return "EXIT"        # message wording is not part of the property; presence was checked above
    return text


def ops():
    import common
    common.foreign_configurations()
    import cli2ops
    return [CliOp(), cli2ops.CliEvalOp()]
