"""C03 — calendar, ordinal and ISO-week dates are faithful views of one day.

Operations: the six conversions and the queries of data.py, each compared with the Lean model
(driver) and judged against the Python transcription of the Spec (oracle).
"""
import oracle
import gens
import tpcommon as T
from engine import Op, set_mode

PROP = "C03"
QUICK_BOOST = 2
THOROUGH_EXHAUSTIVE = True   # thorough: every day of a 400-year Gregorian cycle (and 8-year windows of the fixed calendars), all six conversions
LEAN_MODULES = ["IsoDT.Props.C03", "IsoDT.Props.C03algo"]


class CalOp(Op):
    prop = PROP
    shard = None

    def line(self, a):
        return self.name + " " + " ".join(str(x) for x in a)

    def label(self, a):
        m, y = a[0], a[1]
        if y <= 0:
            yc = "y<=0"
        elif y > 9999:
            yc = "y>9999"
        else:
            yc = "y:common"
        return "%s/%s/%s" % (self.name, m, yc)

    def years(self, rng, tier, boost):
        """Years to sweep: quick = boundary list + random; thorough = a full 400-year cycle."""
        ys = list(gens.YEAR_BOUNDARY)
        n = 40 * boost if tier == "quick" else 200 * boost
        ys += [gens.year(rng) for _ in range(n)]
        return ys


def year_edge_years(rng):
    """(mode, year) pairs covering a whole weekday cycle of year starts per calendar."""
    out = []
    for m in ("d360", "d365", "d366"):
        base = rng.choice([1996, 2000, -7, 0, 2400, 9995, -2003, 1583]) + rng.randint(0, 6)
        out += [(m, y) for y in range(base, base + 7)]
        out += [(m, y) for y in range(-3, 4)]
    base = 1901 + rng.randint(0, 60)
    out += [("greg", y) for y in range(base, base + 28)]
    for c in (0, 1900, 2000, 2100, rng.choice([-400, 400, 1600, 2400, 10000, -100])):
        out += [("greg", y) for y in range(c - 4, c + 5)]
    return out


def _fmt(t):
    return " ".join(str(int(x)) for x in t)


class Leap(CalOp):
    name = "leap"

    def line(self, a):
        return "leap %d" % a[1]

    def gen(self, rng, tier, boost):
        for y in self.years(rng, tier, boost) + list(range(-401, 401)):
            yield ("greg", y)

    def impl(self, a):
        from metomi.isodatetime import data
        return "true" if data.get_is_leap_year(a[1]) else "false"

    def oracle(self, a, out):
        want = "true" if oracle.is_leap_g(a[1]) else "false"
        if out != want:
            return "get_is_leap_year(%d) = %s, Gregorian rule says %s" % (a[1], out, want)


class DaysInYear(CalOp):
    name = "diy"

    def gen(self, rng, tier, boost):
        for m in oracle.MODES:
            for y in self.years(rng, tier, boost):
                yield (m, y)

    def impl(self, a):
        from metomi.isodatetime import data
        set_mode(a[0])
        return str(data.get_days_in_year(a[1]))

    def oracle(self, a, out):
        want = str(oracle.year_len(a[0], a[1]))
        if out != want:
            return "get_days_in_year(%d) in %s = %s, definition says %s" % (a[1], a[0], out, want)


class DaysInMonth(CalOp):
    name = "dim"

    def gen(self, rng, tier, boost):
        for m in oracle.MODES:
            for y in self.years(rng, tier, boost)[:60 * boost]:
                for mo in range(1, 13):
                    yield (m, y, mo)

    def impl(self, a):
        from metomi.isodatetime import data
        set_mode(a[0])
        return str(data.get_days_in_month(a[2], a[1]))

    def oracle(self, a, out):
        want = str(oracle.month_len(a[0], a[1], a[2]))
        if out != want:
            return "get_days_in_month(%d, %d) in %s = %s, definition says %s" % (
                a[2], a[1], a[0], out, want)


class DaysInMonthFlag(CalOp):
    """get_days_in_month(month, "leap") and (month, None)."""
    name = "dimb"

    def gen(self, rng, tier, boost):
        for m in oracle.MODES:
            for lp in (0, 1):
                for mo in range(1, 13):
                    yield (m, lp, mo)

    def label(self, a):
        return "dimb/%s" % a[0]

    def impl(self, a):
        from metomi.isodatetime import data
        set_mode(a[0])
        return str(data.get_days_in_month(a[2], "leap" if a[1] else None))

    def oracle(self, a, out):
        want = str(oracle.month_tab(a[0], bool(a[1]))[a[2] - 1])
        if out != want:
            return "get_days_in_month(%d, %s) in %s = %s, definition says %s" % (
                a[2], "leap" if a[1] else None, a[0], out, want)


class QueryHistory(CalOp):
    """The length queries asked in a row within one process, in a shuffled order: a month without a year (default
    argument; also what a year-less truncated date asks), with the "leap" / None flags, and with the small years
    0, 1, 2, 4 - Python compares cache keys with ==, and True == 1, False == 0 - plus year-length and leap queries
    of the same years, each answer against the definition."""
    name = "qhist"
    model = False

    def gen(self, rng, tier, boost):
        for m in oracle.MODES:
            for k in range(6 * boost):
                yield (m, rng.getrandbits(32))

    def label(self, a):
        return "qhist/%s" % a[0]

    def steps(self, a):
        import random
        rng = random.Random(a[1])
        mo = rng.choice([2, 2, 2, 1, 12, rng.randint(1, 12)])
        steps = [("dim", mo, "default"), ("dim", mo, "leap"), ("dim", mo, None), ("trunc", mo, None)]
        for y in (0, 1, 2, 4, -1, 100, 400):
            steps += [("dim", mo, y), ("diy", y, None), ("leap", y, None)]
        rng.shuffle(steps)
        return steps[:rng.randint(8, len(steps))]

    def impl(self, a):
        from metomi.isodatetime import data
        m = a[0]
        set_mode(m)
        out = []
        for kind, x, y in self.steps(a):
            if kind == "dim" and y == "default":
                out.append(str(data.get_days_in_month(x)))
            elif kind == "dim":
                out.append(str(data.get_days_in_month(x, y)))
            elif kind == "diy":
                out.append(str(data.get_days_in_year(x)))
            elif kind == "leap":
                out.append("1" if data.get_is_leap_year(x) else "0")
            else:   # a year-less truncated date: its bounds check asks for the month's length without a year
                last = max(oracle.month_tab(m, True)[x - 1], oracle.month_tab(m, False)[x - 1])
                try:
                    data.TimePoint(month_of_year=x, day_of_month=last, truncated=True)
                    out.append("ok")
                except ValueError:
                    out.append("refused")
        return " ".join(out)

    def oracle(self, a, out):
        m = a[0]
        want = []
        for kind, x, y in self.steps(a):
            if kind == "dim" and y in ("default", "leap"):
                want.append(str(oracle.month_tab(m, True)[x - 1]))
            elif kind == "dim" and y is None:
                want.append(str(oracle.month_tab(m, False)[x - 1]))
            elif kind == "dim":
                want.append(str(oracle.month_len(m, y, x)))
            elif kind == "diy":
                want.append(str(oracle.year_len(m, x)))
            elif kind == "leap":
                want.append("1" if oracle.leap("greg", x) else "0")
            else:
                want.append("ok")
        if out != " ".join(want):
            return "length queries %r in %s answered %s, the definition says %s" % (
                self.steps(a), m, out, " ".join(want))


class Range(CalOp):
    name = "range"

    def gen(self, rng, tier, boost):
        n = 1500 * boost if tier == "quick" else 20000 * boost
        for m in oracle.MODES:
            for _ in range(n if m == "greg" else n // 5):
                s = gens.year(rng)
                r = rng.random()
                if r < 0.5:
                    e = s + rng.choice([0, 1, 2, 3, 4, 5, 7, 8, 99, 100, 101, 399, 400, 401,
                                        -1, -2, 1000])
                elif r < 0.8:
                    e = s + rng.randint(0, 1000)
                else:
                    e = gens.year(rng)
                yield (m, s, e)
        if tier != "quick":
            for s in range(-10, 420):
                for e in range(s - 1, s + 410):
                    yield ("greg", s, e)

    def impl(self, a):
        from metomi.isodatetime import data
        set_mode(a[0])
        return str(data.get_days_in_year_range(a[1], a[2]))

    def oracle(self, a, out):
        m, s, e = a
        want = str(oracle.dby(m, e + 1) - oracle.dby(m, s) if s <= e else 0)
        if out != want:
            return "get_days_in_year_range(%d, %d) in %s = %s, definition says %s" % (
                s, e, m, out, want)


class WeekStart(CalOp):
    name = "wstart"

    def gen(self, rng, tier, boost):
        for m in oracle.MODES:
            ys = self.years(rng, tier, boost)
            if tier != "quick":
                ys = ys + list(range(1580, 2420))
            for y in gens.shard_filter(ys, self.shard):
                yield (m, y)

    def impl(self, a):
        from metomi.isodatetime import data
        set_mode(a[0])
        return _fmt(data.get_calendar_date_week_date_start(a[1]))

    def oracle(self, a, out):
        m, y = a
        want = _fmt(oracle.cal_of_day_num(m, oracle.week_year_start(m, y)))
        if out != want:
            return "week-year %d starts on %s in %s, definition says %s" % (y, out, m, want)


class OrdWeekStart(WeekStart):
    name = "owstart"

    def impl(self, a):
        from metomi.isodatetime import data
        set_mode(a[0])
        return _fmt(data.get_ordinal_date_week_date_start(a[1]))

    def oracle(self, a, out):
        m, y = a
        want = _fmt(oracle.ord_of_day_num(m, oracle.week_year_start(m, y)))
        if out != want:
            return "week-year %d starts on ordinal %s in %s, definition says %s" % (
                y, out, m, want)


class WeeksInYear(WeekStart):
    name = "wiy"

    def impl(self, a):
        from metomi.isodatetime import data
        set_mode(a[0])
        return str(data.get_weeks_in_year(a[1]))

    def oracle(self, a, out):
        m, y = a
        want = str(oracle.weeks_in_year(m, y))
        if out != want:
            return "get_weeks_in_year(%d) in %s = %s, definition says %s" % (y, m, out, want)


class Conv(CalOp):
    """A conversion between two representations, on valid dates (and a few invalid ones)."""
    src = "c"
    dst = "o"

    def dates(self, rng, tier, boost):
        n = 500 * boost if tier == "quick" else 3000 * boost
        for m in oracle.MODES:
            for _ in range(n if m == "greg" else n // 3):
                yield m, gens.any_date(rng, m, rep=self.src)
        # every tier: the days around EVERY year boundary of a full weekday cycle - 7 consecutive years of each
        # fixed-length calendar, 28 consecutive Gregorian years plus the windows around century years -
        # because what a conversion does there depends on (mode, year type, weekday of 1 January) and a
        # random draw meets a particular combination (say 28 December in the 360-day calendar before a
        # year starting on a Thursday) too rarely
        for m, y in year_edge_years(rng):
            n0 = oracle.dby(m, y)
            yl = oracle.year_len(m, y)
            for n in gens.shard_filter(list(range(n0, n0 + 9)) + list(range(n0 + yl - 9, n0 + yl)), self.shard):
                yield m, self.of_day_num(m, n)
        if tier != "quick":
            # exhaustive: every day of a 400-year Gregorian cycle and of an 8-year window of
            # each fixed-length calendar (weekday cycle = 7 years)
            spans = [("greg", 1600, 2000), ("d360", 1996, 2004), ("d365", 1996, 2004),
                     ("d366", 1996, 2004)]
            for m, y0, y1 in spans:
                for y in gens.shard_filter(list(range(y0, y1)), self.shard):
                    n0 = oracle.dby(m, y)
                    for n in range(n0, n0 + oracle.year_len(m, y)):
                        yield m, self.of_day_num(m, n)

    def of_day_num(self, m, n):
        if self.src == "c":
            return ("c",) + oracle.cal_of_day_num(m, n)
        if self.src == "o":
            return ("o",) + oracle.ord_of_day_num(m, n)
        return ("w",) + oracle.week_of_day_num(m, n)

    def gen(self, rng, tier, boost):
        for m, date in self.dates(rng, tier, boost):
            yield (m,) + date[1:]
        # invalid inputs just outside the ranges: the model must refuse what the code refuses
        for m in oracle.MODES:
            for _ in range(30 * boost):
                y = gens.year(rng)
                if self.src == "c":
                    mo = rng.randint(1, 12)
                    yield (m, y, mo, oracle.month_len(m, y, mo) + rng.choice([1, 2]))
                    yield (m, y, mo, 0)
                elif self.src == "o":
                    yield (m, y, oracle.year_len(m, y) + rng.choice([1, 2]))
                    yield (m, y, 0)

    FUNCS = {
        ("c", "o"): "get_ordinal_date_from_calendar_date",
        ("o", "c"): "get_calendar_date_from_ordinal_date",
        ("w", "c"): "get_calendar_date_from_week_date",
        ("c", "w"): "get_week_date_from_calendar_date",
        ("w", "o"): "get_ordinal_date_from_week_date",
        ("o", "w"): "get_week_date_from_ordinal_date",
    }

    def impl(self, a):
        from metomi.isodatetime import data
        set_mode(a[0])
        return _fmt(getattr(data, self.FUNCS[(self.src, self.dst)])(*a[1:]))

    def nontrivial(self, a):
        return True

    def label(self, a):
        m = a[0]
        date = (self.src,) + tuple(a[1:])
        if not oracle.date_valid(m, date):
            return "%s/%s/invalid" % (self.name, m)
        n = oracle.date_day_num(m, date)
        cy, doy = oracle.ord_of_day_num(m, n)
        wy = oracle.week_of_day_num(m, n)[0]
        cls = "wy!=cy" if wy != cy else ("y<=0" if cy <= 0 else "plain")
        return "%s/%s/%s" % (self.name, m, cls)

    def oracle(self, a, out):
        m = a[0]
        date = (self.src,) + tuple(a[1:])
        if not oracle.date_valid(m, date):
            return None   # behaviour on invalid input is C09's business; model must agree
        if out == "err" or out.startswith("EXC") or out == "Timeout":
            return "%s%r in %s is valid but conversion failed with %s" % (
                self.FUNCS[(self.src, self.dst)], tuple(a[1:]), m, out)
        got = (self.dst,) + tuple(int(x) for x in out.split())
        if not oracle.date_valid(m, got):
            return "%s%r in %s gave the invalid date %s" % (
                self.FUNCS[(self.src, self.dst)], tuple(a[1:]), m, out)
        if oracle.date_day_num(m, got) != oracle.date_day_num(m, date):
            return "%s%r in %s gave %s, a different day (day numbers %d vs %d)" % (
                self.FUNCS[(self.src, self.dst)], tuple(a[1:]), m, out,
                oracle.date_day_num(m, got), oracle.date_day_num(m, date))


def _conv(name_, src_, dst_):
    return type("Conv_" + name_, (Conv,), {"name": name_, "src": src_, "dst": dst_})


def _accessors(p):
    """The property accessors of the point itself (no conversion): the same views, field by field."""
    cal, ordn, week = p.get_calendar_date(), p.get_ordinal_date(), p.get_week_date()
    got = (p.month_of_year, p.day_of_month, p.day_of_year, p.week_of_year, p.day_of_week)
    want = (cal[1], cal[2], ordn[1], week[1], week[2])
    if got != want:
        return "MISMATCH accessors (month_of_year, day_of_month, day_of_year, week_of_year, day_of_week) = %r, " \
               "get_* say %r" % (got, want)
    return None


class TPViews(CalOp):
    """TimePoint.to_calendar_date / to_ordinal_date / to_week_date and the get_* accessors must
    agree with the module-level conversions (objects expose the same views)."""
    name = "tpviews"

    def gen(self, rng, tier, boost):
        n = 300 * boost if tier == "quick" else 3000 * boost
        for _ in range(n):
            m = gens.mode(rng)
            date = gens.any_date(rng, m)
            yield (m,) + tuple(date)
        reps = {"c": oracle.cal_of_day_num, "o": oracle.ord_of_day_num, "w": oracle.week_of_day_num}
        for m, y in year_edge_years(rng):
            n0 = oracle.dby(m, y)
            yl = oracle.year_len(m, y)
            for n in gens.shard_filter(list(range(n0, n0 + 5)) + list(range(n0 + yl - 5, n0 + yl)), self.shard):
                rep = rng.choice("cow")
                yield (m, rep) + tuple(reps[rep](m, n))

    def line(self, a):
        # driver computes the three views of the date
        return "views %s %s %s" % (a[0], a[1], " ".join(str(x) for x in a[2:]))

    def label(self, a):
        return "tpviews/%s/%s" % (a[0], a[1])

    def impl(self, a):
        from metomi.isodatetime import data
        set_mode(a[0])
        rep = a[1]
        if rep == "c":
            p = data.TimePoint(year=a[2], month_of_year=a[3], day_of_month=a[4])
        elif rep == "o":
            p = data.TimePoint(year=a[2], day_of_year=a[3])
        else:
            p = data.TimePoint(year=a[2], week_of_year=a[3], day_of_week=a[4])
        c, o, w = p.to_calendar_date(), p.to_ordinal_date(), p.to_week_date()
        parts = [_fmt(p.get_calendar_date()), _fmt(p.get_ordinal_date()), _fmt(p.get_week_date())]
        objs = [_fmt((c.year, c.month_of_year, c.day_of_month)), _fmt((o.year, o.day_of_year)),
                _fmt((w.year, w.week_of_year, w.day_of_week))]
        if parts != objs:
            return "MISMATCH get_* %r vs to_* %r" % (parts, objs)
        if not (c.get_is_calendar_date() and o.get_is_ordinal_date() and w.get_is_week_date()):
            return "MISMATCH representation flags"
        for q in (p, c, o, w):
            bad = _accessors(q)
            if bad:
                return bad
        return " | ".join(parts)

    def oracle(self, a, out):
        m = a[0]
        date = tuple(a[1:])
        n = oracle.date_day_num(m, date)
        want = " | ".join([_fmt(oracle.cal_of_day_num(m, n)), _fmt(oracle.ord_of_day_num(m, n)),
                           _fmt(oracle.week_of_day_num(m, n))])
        if out != want:
            return "views of %r in %s are %r, definition says %r" % (date, m, out, want)


class TPViewsZ(CalOp):
    """The three date views of a FULL time point (time of day and UTC offset included): they are the views of its
    own local date, whatever other points at the same instant - in other offsets, or the 24:00 spelling of the
    same midnight - were asked before (sibling cases ask exactly those, one after the other)."""
    name = "tpviewsz"
    model = False
    sibling = T.tp_sibling(1, keep_rep=0.6)
    sibling_rate = 0.5

    def gen(self, rng, tier, boost):
        n = 500 * boost if tier == "quick" else 5000 * boost
        for _ in range(n):
            m = gens.mode(rng)
            t = T.gen_year_edge_tp(rng, m) if rng.random() < 0.5 else T.gen_tp(rng, m)
            if abs(t[1]) > 9000:
                continue
            yield (m, t)

    def line(self, a):
        return "tpviewsz %s %s" % (a[0], T.tp_str(a[1]))

    def label(self, a):
        return "tpviewsz/%s/%s" % (a[0], a[1][0])

    def impl(self, a):
        set_mode(a[0])
        p = T.mk_tp(a[1])
        parts = [_fmt(p.get_calendar_date()), _fmt(p.get_ordinal_date()), _fmt(p.get_week_date())]
        c, o, w = p.to_calendar_date(), p.to_ordinal_date(), p.to_week_date()
        objs = [_fmt((c.year, c.month_of_year, c.day_of_month)), _fmt((o.year, o.day_of_year)),
                _fmt((w.year, w.week_of_year, w.day_of_week))]
        if parts != objs:
            return "MISMATCH get_* %r vs to_* %r" % (parts, objs)
        bad = _accessors(p)
        if bad:
            return bad
        return " | ".join(parts)

    def oracle(self, a, out):
        m, t = a
        n = oracle.date_day_num(m, T.date_of(t))
        want = " | ".join([_fmt(oracle.cal_of_day_num(m, n)), _fmt(oracle.ord_of_day_num(m, n)),
                           _fmt(oracle.week_of_day_num(m, n))])
        if out != want:
            return "date views of %s in %s are %r, its own local date is %r" % (T.describe_tp(t), m, out, want)


class SpecQ(Op):
    """The harness's oracle (harness/oracle.py, a Python transcription of IsoDT/Spec/Calendar.lean) against
    the Lean Spec itself: the "implementation" here is the oracle, the "model" is the specification the
    theorems are stated over.  A disagreement means the checks' oracle no longer says what the theorems
    are about."""
    prop = PROP
    name = "specq"

    FNS = {
        "leap": (1, lambda m, y: int(oracle.leap(m, y))),
        "monthlen": (2, oracle.month_len), "dbm": (2, oracle.dbm), "yearlen": (1, oracle.year_len),
        "dby": (1, oracle.dby), "dnord": (2, oracle.day_num_ord), "dncal": (3, oracle.day_num_cal),
        "weekday": (1, oracle.weekday), "wys": (1, oracle.week_year_start), "dnweek": (3, oracle.day_num_week),
        "wiy": (1, oracle.weeks_in_year),
        "vcal": (3, lambda m, y, mo, d: int(oracle.valid_cal(m, y, mo, d))),
        "vord": (2, lambda m, y, d: int(oracle.valid_ord(m, y, d))),
        "vweek": (3, lambda m, y, w, d: int(oracle.valid_week(m, y, w, d))),
    }

    def gen(self, rng, tier, boost):
        import tpcommon as T
        n = (1500 if tier == "quick" else 40000) * boost
        if getattr(self, "shard", None):
            n = n // self.shard[1] + 1
        names = sorted(self.FNS)
        for _ in range(n):
            m = gens.mode(rng)
            fn = rng.choice(names)
            y = rng.choice([0, 1, -1, 4, 100, 400, -400, 1999, 2000, 2001, 2004, 2100, 9999, 10000,
                            rng.randint(-100000, 100000)])
            small = [rng.choice([0, 1, 2, 12, 13, 28, 29, 30, 31, 32, 52, 53, 54, 59, 60, 61, 365, 366, 367, -1,
                                 rng.randint(-400, 400)]) for _ in range(2)]
            if fn == "weekday":
                args = (rng.randint(-10 ** 8, 10 ** 8),)
            else:
                args = ((y,) + tuple(small))[:self.FNS[fn][0]]
            yield (m, fn) + args
        for _ in range(n // 4):
            m = gens.mode(rng)
            t = T.gen_tp(rng, m)
            yield (m, "inst", "cow".index(t[0])) + tuple(t[1:])

    def line(self, a):
        return "spec " + " ".join(str(x) for x in a)

    def impl(self, a):
        import tpcommon as T
        m, fn = a[0], a[1]
        if fn == "inst":
            return str(T.inst(m, ("cow"[a[2]],) + tuple(a[3:])))
        return str(self.FNS[fn][1](m, *a[2:]))

    def label(self, a):
        return "specq/" + a[1]


def ops():
    return [Leap(), DaysInYear(), DaysInMonth(), DaysInMonthFlag(), QueryHistory(), Range(), WeekStart(),
            OrdWeekStart(), WeeksInYear(),
            _conv("c2o", "c", "o")(), _conv("o2c", "o", "c")(), _conv("w2c", "w", "c")(),
            _conv("c2w", "c", "w")(), _conv("w2o", "w", "o")(), _conv("o2w", "o", "w")(),
            TPViews(), TPViewsZ(), SpecQ()]
