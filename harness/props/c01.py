"""C01 — adding an exact duration translates the instant exactly."""
from fractions import Fraction

import oracle
import gens
import tpcommon as T
from engine import Op, set_mode

PROP = "C01"
QUICK_BOOST = 2
LEAN_MODULES = ["IsoDT.Props.C01", "IsoDT.Props.C01b", "IsoDT.Props.C01q"]
RULE = ("time points drawn from boundary lists (year 0/negative/leap/century, month ends, day 365/366, "
        "week 1/52/53, 24:00, offsets incl. -00:30 and +-99:59) x exact durations at unit boundaries; "
        "a case is non-trivial when the addition crosses at least a day boundary; distinct by (op, arguments)")
ASSUMPTIONS = ["whole-second operands are proved over Int; fractional operands (float) are only observed, "
               "to 1 microsecond, with exact Fraction arithmetic as reference"]


class Add(Op):
    prop = PROP
    name = "add"
    shard = None
    sign = 1
    sibling = T.tp_sibling(1)
    sibling_rate = 0.12

    def gen(self, rng, tier, boost):
        n = 2500 * boost if tier == "quick" else 9000 * boost
        for _ in range(n):
            m = gens.mode(rng)
            yield (m, T.gen_tp(rng, m), T.gen_exact_dur(rng))
        # from a point near one year boundary to a point near another (the carry leaves the year and lands on its
        # last / first day, second, ...), in every representation
        for _ in range(n // 4):
            m = gens.mode(rng)
            p, q, d = T.gen_year_edge_pair(rng, m)
            yield (m, p, d if self.sign > 0 else T.dur_neg(d))
        # the carries that F1 / F2 were about, in every mode
        for m in oracle.MODES:
            for y in (2003, 2004, 1999, 2000, 0, -1, -4):
                yl = oracle.year_len(m, y)
                for d in (1, 2, -1, yl, -yl, yl + 1, 366, 367, 731):
                    yield (m, ("o", y, yl, 0, 0, 0, 0, 0, 0), ("U", 0, 0, d, 0, 0, 0))
                    yield (m, ("o", y, 1, 0, 24, 0, 0, 0, 0), ("U", 0, 0, d, 0, 0, 0))
                wiy = oracle.weeks_in_year(m, y)
                for d in (1, -1, 7, -7, 8, 371, -371):
                    yield (m, ("w", y, wiy, 7, 23, 59, 59, 0, 0), ("U", 0, 0, d, 0, 0, 1))
                    yield (m, ("w", y, 1, 1, 0, 0, 0, 0, 30), ("U", 0, 0, d, 0, 0, -1))

    def line(self, a):
        return "%s %s %s %s" % (self.name, a[0], T.tp_str(a[1]), T.dur_str(a[2]))

    def compute(self, p, d):
        return p + d

    def impl(self, a):
        set_mode(a[0])
        return T.canon_tp(self.compute(T.mk_tp(a[1]), T.mk_dur(a[2])))

    def oracle(self, a, out):
        m, t, d = a
        what = "%s %s %s in %s" % (T.describe_tp(t), "+" if self.sign > 0 else "-", T.dur_str(d), m)
        if out == "err" or out.startswith(("EXC", "Timeout", "NONINT")):
            return "%s failed: %s" % (what, out)
        r = T.parse_tp(out)
        want = T.inst(m, t) + self.sign * T.dur_seconds(d)
        if not T.valid(m, r, strict=True):
            return "%s = %s has a field outside its legal range" % (what, T.describe_tp(r))
        if T.inst(m, r) != want:
            return "%s = %s is off by %d s" % (what, T.describe_tp(r), T.inst(m, r) - want)
        if r[0] != t[0]:
            return "%s changed the date representation (%s -> %s)" % (what, t[0], r[0])
        if (r[7], r[8]) != (t[7], t[8]):
            return "%s changed the UTC offset" % what
        return None

    def label(self, a):
        m, t, d = a
        unit = "W" if d[0] == "W" else "".join(u for u, v in zip("ymdhMs", d[1:]) if v) or "0"
        return "%s/%s/%s/%s" % (self.name, m, t[0] + ("24" if t[4] == 24 else ""), unit)

    def nontrivial(self, a):
        m, t, d = a
        s = T.dur_seconds(d)
        return (T.inst(m, t) + t[7] * 3600 + t[8] * 60) // 86400 != \
            (T.inst(m, t) + t[7] * 3600 + t[8] * 60 + self.sign * s) // 86400


class Sub(Add):
    name = "sub"
    sign = -1

    def compute(self, p, d):
        return p - d


class RAdd(Add):
    """Duration + TimePoint (Duration.__add__ dispatches to TimePoint.__add__)."""
    name = "radd"

    def line(self, a):
        return "add %s %s %s" % (a[0], T.tp_str(a[1]), T.dur_str(a[2]))

    def gen(self, rng, tier, boost):
        n = 300 * boost
        for _ in range(n):
            m = gens.mode(rng)
            yield (m, T.gen_tp(rng, m), T.gen_exact_dur(rng))

    def compute(self, p, d):
        return d + p


class SubIsAddNeg(Op):
    """p - d == p + (-d), compared as objects (and field by field)."""
    prop = PROP
    name = "subneg"
    model = False

    def gen(self, rng, tier, boost):
        for _ in range(400 * boost):
            m = gens.mode(rng)
            yield (m, T.gen_tp(rng, m), T.gen_exact_dur(rng))

    def impl(self, a):
        set_mode(a[0])
        p, d = T.mk_tp(a[1]), T.mk_dur(a[2])
        x, y = p - d, p + (-1 * d)
        return "%s | %s | %s" % (T.canon_tp(x), T.canon_tp(y), x == y)

    def oracle(self, a, out):
        x, y, eq = out.split(" | ") if " | " in out else (out, "", "")
        if x != y or eq != "True":
            return "%s - %s gives %s but adding the negation gives %s" % (
                T.describe_tp(a[1]), T.dur_str(a[2]), x, y)


class AddFrac(Op):
    """Float domain (not modelled): fractional seconds/minutes/hours in p and d, to 1 us."""
    prop = PROP
    name = "addfrac"
    model = False

    def gen(self, rng, tier, boost):
        for _ in range(600 * boost):
            m = gens.mode(rng)
            t = T.gen_tp(rng, m, allow24=False)
            form = rng.choice(["s", "m", "h"])
            frac = Fraction(rng.randint(0, 999999), 1000000)
            if rng.random() < 0.3:
                frac = Fraction(rng.choice([0, 1, 5, 25, 125, 999999, 500000]), 1000000)
            dfrac = Fraction(rng.randint(-9999999, 9999999), 1000)
            unit = rng.choice(["seconds", "minutes", "hours"])
            if unit != "seconds":
                dfrac = Fraction(rng.randint(-99999, 99999), 8)
            yield (m, t, form, (frac.numerator, frac.denominator), unit,
                   (dfrac.numerator, dfrac.denominator))

    def line(self, a):
        return "addfrac " + " ".join(str(x) for x in a)

    def impl(self, a):
        from metomi.isodatetime.data import TimePoint, Duration
        m, t, form, fr, unit, df = a
        set_mode(m)
        rep, y, aa, b, hh, mi, ss, tzh, tzm = t
        kw = dict(year=y, time_zone_hour=tzh, time_zone_minute=tzm, hour_of_day=hh)
        if not 0 <= y <= 9999:
            kw["num_expanded_year_digits"] = 3
        if rep == "c":
            kw.update(month_of_year=aa, day_of_month=b)
        elif rep == "o":
            kw.update(day_of_year=aa)
        else:
            kw.update(week_of_year=aa, day_of_week=b)
        frac = fr[0] / fr[1]
        if form == "s":
            kw.update(minute_of_hour=mi, second_of_minute=ss, second_of_minute_decimal=frac)
        elif form == "m":
            kw.update(minute_of_hour=mi, minute_of_hour_decimal=frac)
        else:
            kw.update(hour_of_day_decimal=frac)
        p = TimePoint(**kw)
        d = Duration(**{unit: df[0] / df[1]})
        r = p + d
        h2, m2, s2 = r.get_hour_minute_second()
        if r.get_is_calendar_date():
            date = ("c",) + tuple(r.get_calendar_date())
        elif r.get_is_ordinal_date():
            date = ("o",) + tuple(r.get_ordinal_date())
        else:
            date = ("w",) + tuple(r.get_week_date())
        return repr((date, float(h2), float(m2), float(s2), r.time_zone.hours, r.time_zone.minutes))

    def oracle(self, a, out):
        m, t, form, fr, unit, df = a
        if not out.startswith("(("):
            return "fractional addition failed: %s" % out
        date, h2, m2, s2, zh, zm = eval(out)
        frac = Fraction(*fr)
        rep, y, aa, b, hh, mi, ss, tzh, tzm = t
        if form == "s":
            start = T.inst(m, t) + frac
        elif form == "m":
            start = T.inst(m, (rep, y, aa, b, hh, mi, 0, tzh, tzm)) + 60 * frac
        else:
            start = T.inst(m, (rep, y, aa, b, hh, 0, 0, tzh, tzm)) + 3600 * frac
        # the value the float constructor actually holds
        mult = {"seconds": 1, "minutes": 60, "hours": 3600}[unit]
        want = start + Fraction(df[0] / df[1]) * mult
        if not oracle.date_valid(m, date):
            return "fractional addition gave the invalid date %r" % (date,)
        got = (86400 * oracle.date_day_num(m, date) + 3600 * Fraction(h2) + 60 * Fraction(m2)
               + Fraction(s2) - 3600 * zh - 60 * zm)
        if abs(got - want) > Fraction(2, 1000000):
            return "fractional addition is off by %.9f s" % float(got - want)
        if not (0 <= h2 < 24 and 0 <= m2 < 60 and 0 <= s2 < 60):
            return "fractional addition left a time field out of range: %r" % ((h2, m2, s2),)
        if date[0] != rep or (zh, zm) != (tzh, tzm):
            return "fractional addition changed representation or offset"


def _q(fr):
    return str(fr.numerator) if fr.denominator == 1 else "%d/%d" % (fr.numerator, fr.denominator)


def _parse_q(tok):
    if tok == "_":
        return None
    n, _, d = tok.partition("/")
    return Fraction(int(n), int(d) if d else 1)


class AddQ(Op):
    """The exact part of `p + d` with fractional slots, against the rational model `addExactQ`
    (Props/C01q): all three precision forms (decimal seconds / minutes / hours), durations with
    fractional hours, minutes, seconds and whole days, either sign.  Python computes in binary64, the
    model in exact rationals, so the two are compared on what the property is about: representation,
    offset, which slots are present, and the instant to the microsecond (inputs carry at most three
    decimals, so the exact instant is a multiple of 1 ms and a float error of < 0.5 us cannot change
    the rounded value)."""
    prop = PROP
    name = "addq"

    def gen(self, rng, tier, boost):
        n = (3000 if tier == "quick" else 60000) * boost
        if getattr(self, "shard", None):
            n = n // self.shard[1] + 1
        for _ in range(n):
            m = gens.mode(rng)
            t = T.gen_tp(rng, m, allow24=rng.random() < 0.15)
            form = rng.choice("smh")
            frac = Fraction(rng.choice([0, 1, 5, 25, 125, 250, 500, 750, 999, rng.randint(0, 999)]), 1000)
            if t[4] == 24:
                frac = Fraction(0)

            def part(scale):
                r = rng.random()
                if r < 0.35:
                    return Fraction(0)
                k = rng.choice([1, -1]) * rng.choice([1, 59, 60, 61, 3599, 3600, 86399, 86400, rng.randint(0, 10 ** scale)])
                return Fraction(k, rng.choice([1, 2, 4, 8, 10, 100, 1000]))
            days = rng.choice([0, 0, 0, 1, -1, 365, -366, rng.randint(-800, 800)])
            yield (m, t, form, _q(frac), days, _q(part(3)), _q(part(4)), _q(part(6)))

    def slots(self, a):
        m, t, form, frac, days, dh, dmi, ds = a
        rep, y, aa, b, hh, mi, ss, tzh, tzm = t
        fr = _parse_q(frac)
        if form == "s":
            return (Fraction(hh), Fraction(mi), ss + fr)
        if form == "m":
            return (Fraction(hh), mi + fr, None)
        return (hh + fr, None, None)

    def line(self, a):
        m, t, form, frac, days, dh, dmi, ds = a
        rep, y, aa, b, hh, mi, ss, tzh, tzm = t
        h_, m_, s_ = self.slots(a)
        return "addq %s %s %d %d %d %s %s %s %d %d %d %s %s %s" % (
            m, rep, y, aa, b, _q(h_), "_" if m_ is None else _q(m_), "_" if s_ is None else _q(s_),
            tzh, tzm, days, dh, dmi, ds)

    @staticmethod
    def canon(m, rep, date, hh, mi, ss, tzh, tzm):
        """(representation, offset, slot pattern, instant in whole microseconds)."""
        if not oracle.date_valid(m, date):
            return "invalid-date %r" % (date,)
        inst = (86400 * oracle.date_day_num(m, date) + 3600 * hh + 60 * (mi or 0) + (ss or 0)
                - 3600 * tzh - 60 * tzm)
        pat = "hms" if ss is not None else ("hm" if mi is not None else "h")
        return "%s %d %d %s %d" % (rep, tzh, tzm, pat, round(inst * 10 ** 6))

    def impl(self, a):
        from metomi.isodatetime.data import TimePoint, Duration
        m, t, form, frac, days, dh, dmi, ds = a
        set_mode(m)
        rep, y, aa, b, hh, mi, ss, tzh, tzm = t
        kw = dict(year=y, time_zone_hour=tzh, time_zone_minute=tzm, hour_of_day=hh)
        if not 0 <= y <= 9999:
            kw["num_expanded_year_digits"] = 3
        if rep == "c":
            kw.update(month_of_year=aa, day_of_month=b)
        elif rep == "o":
            kw.update(day_of_year=aa)
        else:
            kw.update(week_of_year=aa, day_of_week=b)
        fr = float(_parse_q(frac))
        if form == "s":
            kw.update(minute_of_hour=mi, second_of_minute=ss, second_of_minute_decimal=fr)
        elif form == "m":
            kw.update(minute_of_hour=mi, minute_of_hour_decimal=fr)
        else:
            kw.update(hour_of_day_decimal=fr)
        p = TimePoint(**kw)
        d = Duration(days=days, hours=float(_parse_q(dh)), minutes=float(_parse_q(dmi)),
                     seconds=float(_parse_q(ds)))
        r = p + d
        if r.get_is_calendar_date():
            date = ("c",) + tuple(r.get_calendar_date())
        elif r.get_is_ordinal_date():
            date = ("o",) + tuple(r.get_ordinal_date())
        else:
            date = ("w",) + tuple(r.get_week_date())
        h2, m2, s2 = r._hour_of_day, r._minute_of_hour, r._second_of_minute
        self.last = (h2, m2, s2)
        return self.canon(m, date[0], date, Fraction(h2), None if m2 is None else Fraction(m2),
                          None if s2 is None else Fraction(s2), r.time_zone.hours, r.time_zone.minutes)

    def canon_model(self, a, out):
        f = out.split()
        if len(f) != 9:
            return out
        rep, y, aa, b = f[0], int(f[1]), int(f[2]), int(f[3])
        date = (rep, y, aa) if rep == "o" else (rep, y, aa, b)
        return self.canon(a[0], rep, date, _parse_q(f[4]), _parse_q(f[5]), _parse_q(f[6]), int(f[7]), int(f[8]))

    def oracle(self, a, out):
        m, t, form, frac, days, dh, dmi, ds = a
        f = out.split()
        if len(f) != 5:
            return "fractional addition failed: %s" % out
        rep, y, aa, b, hh, mi, ss, tzh, tzm = t
        h_, m_, s_ = self.slots(a)
        date = (rep, y, aa) if rep == "o" else (rep, y, aa, b)
        start = (86400 * oracle.date_day_num(m, date) + 3600 * h_ + 60 * (m_ or 0) + (s_ or 0)
                 - 3600 * tzh - 60 * tzm)
        want = start + 86400 * days + 3600 * _parse_q(dh) + 60 * _parse_q(dmi) + _parse_q(ds)
        if abs(int(f[4]) - want * 10 ** 6) > 1:
            return "p + d is off by %.9f s" % (float(Fraction(int(f[4]), 10 ** 6) - want))
        if f[0] != rep or (int(f[1]), int(f[2])) != (tzh, tzm):
            return "p + d changed representation or offset"
        if f[3] != {"s": "hms", "m": "hm", "h": "h"}[form]:
            return "p + d changed the precision form (%s from %s)" % (f[3], form)
        h2, m2, s2 = self.last
        ok = 0 <= h2 < 24 and (m2 is None or 0 <= m2 < 60) and (s2 is None or 0 <= s2 < 60)
        if not ok:
            return "p + d left a time slot out of range: %r" % ((h2, m2, s2),)

    def label(self, a):
        return "addq/%s/%s" % (a[2], "24" if a[1][4] == 24 else "n")


def ops():
    return [Add(), Sub(), RAdd(), SubIsAddNeg(), AddFrac(), AddQ()]
