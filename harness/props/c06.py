"""C06 — changing the UTC offset never changes the instant."""
import oracle
import gens
import tpcommon as T
from engine import Op, set_mode

PROP = "C06"
QUICK_BOOST = 2
LEAN_MODULES = ["IsoDT.Props.C06", "IsoDT.Props.C06b", "IsoDT.Props.C06c", "IsoDT.Props.C06d", "IsoDT.Props.C02q"]
RULE = ("source points (3 representations, any offset, 24:00) x destination offsets from the boundary list and "
        "uniform in -99:59..+99:59 (thorough: all 199 x 119 sign-consistent (h, m) pairs); zone-bearing dump "
        "formats; non-trivial when the local date changes; distinct by (op, arguments)")


class ToTZ(Op):
    prop = PROP
    name = "tz"
    shard = None
    sibling = T.tp_sibling(1)
    sibling_rate = 0.12

    def gen(self, rng, tier, boost):
        n = 2500 * boost if tier == "quick" else 6000 * boost
        for _ in range(n):
            m = gens.mode(rng)
            yield (m, T.gen_tp(rng, m)) + gens.offset(rng)
        for _ in range(n // 3):      # across year boundaries (years 0, +-1, leap / century years, 9999 -> 10000)
            m = gens.mode(rng)
            yield (m, T.gen_year_edge_tp(rng, m)) + gens.offset(rng)
        if tier != "quick":
            alloffs = [(h, mi) for h in range(-99, 100) for mi in range(-59, 60) if oracle.tz_valid(h, mi)]
            for k, (h, mi) in enumerate(gens.shard_filter(alloffs, self.shard)):
                m = oracle.MODES[k % 4]
                yield (m, T.gen_tp(rng, m), h, mi)

    def line(self, a):
        return "tz %s %s %d %d" % (a[0], T.tp_str(a[1]), a[2], a[3])

    def impl(self, a):
        from metomi.isodatetime.data import TimeZone, Duration
        set_mode(a[0])
        p = T.mk_tp(a[1])
        q = p.to_time_zone(TimeZone(hours=a[2], minutes=a[3]))
        extra = ""
        if not (q == p and p == q):
            extra += " NOT-EQUAL"
        if hash(q) != hash(p):
            extra += " HASH-DIFFERS"
        diff = q - p
        if diff != Duration(days=0) or diff.get_seconds() != 0:
            extra += " DIFF=%s" % diff
        if (a[2], a[3]) == (0, 0):
            u = p.to_utc()
            if T.canon_tp(u) != T.canon_tp(q):
                extra += " TO_UTC-DIFFERS"
        if p.hour_of_day < 24:
            # Props/C06d on the implementation: identity on the own offset, there and back, and re-zoning
            # through the requested offset to a third one (the own offset negated) against the direct route
            own = p._time_zone
            if T.canon_tp(p.to_time_zone(TimeZone(hours=own.hours, minutes=own.minutes))) != T.canon_tp(p):
                extra += " OWN-OFFSET-NOT-IDENTITY"
            if T.canon_tp(q.to_time_zone(TimeZone(hours=own.hours, minutes=own.minutes))) != T.canon_tp(p):
                extra += " ROUND-TRIP-DIFFERS"
            z3 = TimeZone(hours=-own.hours, minutes=-own.minutes)
            if T.canon_tp(q.to_time_zone(z3)) != T.canon_tp(p.to_time_zone(z3)):
                extra += " COMPOSE-DIFFERS"
        return T.canon_tp(q) + extra

    def oracle(self, a, out):
        m, t, h, mi = a
        what = "%s re-zoned to %+03d:%02d in %s" % (T.describe_tp(t), h, abs(mi), m)
        parts = out.split()
        if len(parts) != 9:
            return "%s: %s" % (what, out)
        r = T.parse_tp(out)
        if not T.valid(m, r):
            return "%s = %s has invalid local fields" % (what, T.describe_tp(r))
        if T.inst(m, r) != T.inst(m, t):
            return "%s = %s is a different instant (off by %d s)" % (
                what, T.describe_tp(r), T.inst(m, r) - T.inst(m, t))
        if (r[7], r[8]) != (h, mi):
            return "%s carries offset %d:%d" % (what, r[7], r[8])
        if r[0] != t[0]:
            return "%s changed the date representation" % what

    def label(self, a):
        m, t, h, mi = a
        cls = "zeroH-negM" if (h == 0 and mi < 0) else ("beyond-day" if abs(h) >= 24 else
                                                         ("minutes" if mi else "hours"))
        return "tz/%s/%s/%s" % (m, t[0], cls)

    def nontrivial(self, a):
        m, t, h, mi = a
        loc1 = (T.inst(m, t) + t[7] * 3600 + t[8] * 60) // 86400
        loc2 = (T.inst(m, t) + h * 3600 + mi * 60) // 86400
        return loc1 != loc2


class Local(Op):
    """to_local_time_zone with the system's local offset patched to a chosen (h, m)."""
    prop = PROP
    name = "tzlocal"

    def gen(self, rng, tier, boost):
        for _ in range(300 * boost):
            m = gens.mode(rng)
            h, mi = gens.offset(rng)
            if abs(h) > 24:
                h = h % 24 if h > 0 else -((-h) % 24)
                if h == 0:
                    mi = abs(mi) if rng.random() < 0.5 else -abs(mi)
            yield (m, T.gen_tp(rng, m), h, mi)

    def line(self, a):
        return "tz %s %s %d %d" % (a[0], T.tp_str(a[1]), a[2], a[3])

    def impl(self, a):
        from metomi.isodatetime import timezone as tzmod
        set_mode(a[0])
        saved = tzmod.get_local_time_zone
        tzmod.get_local_time_zone = lambda: (a[2], a[3])
        try:
            return T.canon_tp(T.mk_tp(a[1]).to_local_time_zone())
        finally:
            tzmod.get_local_time_zone = saved

    oracle = ToTZ.oracle
    label = ToTZ.label


class MkTZ(Op):
    """TimeZone(hours, minutes): accepted exactly for the legal offsets (exhaustive around the bounds)."""
    prop = PROP
    name = "mktz"

    def gen(self, rng, tier, boost):
        hs = list(range(-101, 102)) if tier != "quick" else [-101, -100, -99, -98, -24, -1, 0, 1, 12, 98, 99, 100, 101]
        for h in hs:
            for mi in range(-61, 62):
                yield ("greg", h, mi)

    def impl(self, a):
        from metomi.isodatetime.data import TimeZone
        z = TimeZone(hours=a[1], minutes=a[2])
        return "%d %d" % (z.hours, z.minutes)

    def oracle(self, a, out):
        ok = oracle.tz_valid(a[1], a[2])
        if ok and out != "%d %d" % (a[1], a[2]):
            return "TimeZone(%d, %d) is a legal offset but gave %s" % (a[1], a[2], out)
        if not ok and out != "err":
            return "TimeZone(%d, %d) is not a legal offset but was accepted as %s" % (a[1], a[2], out)

    def label(self, a):
        return "mktz/%s" % ("legal" if oracle.tz_valid(a[1], a[2]) else "illegal")


ZONE_FORMATS = ["Z", "+hh", "+hhmm", "+hh:mm"]


class DumpZone(Op):
    """Dumping with a format that spells a literal zone, then parsing the text back."""
    prop = PROP
    name = "dumpzone"
    model = False

    def gen(self, rng, tier, boost):
        n = 1200 * boost if tier == "quick" else 5000 * boost
        for _ in range(n):
            m = gens.mode(rng)
            # (a third of the points lie within days of a year end, where the week year, the ordinal year and the
            #  calendar year of one local date differ)
            t = T.gen_year_edge_tp(rng, m) if rng.random() < 0.33 else T.gen_tp(rng, m)
            if not 0 <= t[1] <= 9998 or t[1] < 1:
                t = (t[0], rng.randint(1, 9998)) + t[2:]
                if not T.valid(m, t):
                    continue
            r = rng.random()
            h, mi = gens.offset(rng)
            if abs(h) > 23:
                h = h % 24 if h > 0 else -((-h) % 24)
            style = rng.choice(["Z", "hh", "hhmm", "hh:mm"])
            if style == "Z":
                lit, h, mi = "Z", 0, 0
            else:
                sign = "-" if (h < 0 or mi < 0) else "+"
                if style == "hh":
                    mi = 0
                    sign = "-" if h < 0 else "+"
                    lit = "%s%02d" % (sign, abs(h))
                elif style == "hhmm":
                    lit = "%s%02d%02d" % (sign, abs(h), abs(mi))
                else:
                    lit = "%s%02d:%02d" % (sign, abs(h), abs(mi))
            basic = style == "hhmm" or (style in ("Z", "hh") and rng.random() < 0.5)
            datefmt = {"c": ("CCYYMMDD", "CCYY-MM-DD"), "o": ("CCYYDDD", "CCYY-DDD"),
                       "w": ("CCYYWwwD", "CCYY-Www-D")}[rng.choice("cow")][0 if basic else 1]
            timefmt = "Thhmmss" if basic else "Thh:mm:ss"
            yield (m, t, datefmt + timefmt + lit, h, mi)
        # the edges of what four year digits can print: points within a day of 0000-01-01 and of the end of 9999,
        # literal zones that carry the local date across the edge or not - the year to print (and to check) is
        # the year AFTER the conversion (week-year for a week format)
        for _ in range(n // 4):
            m = gens.mode(rng)
            edge = 86400 * oracle.dby(m, rng.choice([0, 10000, 0, 10000, 1, 9999]))
            tzh, tzm = gens.offset(rng)
            if abs(tzh) > 23:
                tzh, tzm = rng.choice([(0, 0), (5, 30), (-11, 0), (13, 0), (-1, 0)])
            inst_ = edge + rng.choice([-1, 1]) * rng.choice([1, 1800, 3600, 7200, 40000, 86399, 90000])
            t = T.tp_from_inst(m, inst_, rng.choice("cow"), tzh, tzm, use24=rng.random() < 0.2)
            if not 0 <= t[1] <= 9999:
                continue
            h, mi = rng.choice([(0, 0), (1, 0), (-1, 0), (5, 30), (-5, -30), (12, 0), (-12, 0), (0, -30), (14, 0), (-2, 0)])
            lit = "Z" if (h, mi) == (0, 0) and rng.random() < 0.7 else "%s%02d:%02d" % ("-" if (h < 0 or mi < 0) else "+", abs(h), abs(mi))
            datefmt = {"c": "CCYY-MM-DD", "o": "CCYY-DDD", "w": "CCYY-Www-D"}[rng.choice("cow")]
            yield (m, t, datefmt + "Thh:mm:ss" + lit, h, mi)

    @staticmethod
    def year_to_print(m, t, fmt, h, mi):
        local = T.inst(m, t) + 3600 * h + 60 * mi
        day = local // 86400
        if t[4] == 24 and (h, mi) == (t[7], t[8]):
            day -= 1
        return oracle.week_of_day_num(m, day)[0] if "W" in fmt else oracle.cal_of_day_num(m, day)[0]

    def line(self, a):
        return "dumpzone %s %s %s" % (a[0], T.tp_str(a[1]), a[2])

    sibling_rate = 0.4
    _dumper = None
    LAYOUTS = {"CCYYMMDD": "c", "CCYY-MM-DD": "c", "CCYYDDD": "o", "CCYY-DDD": "o", "CCYYWwwD": "w", "CCYY-Www-D": "w"}

    def sibling(self, a, rng):
        """The same instant again through the same long-lived dumper and the same literal zone, written in another
        date representation and dumped in another date layout."""
        m, t, fmt, h, mi = a
        out = []
        for layout in sorted(self.LAYOUTS, key=len, reverse=True):
            if fmt.startswith(layout):
                rest = fmt[len(layout):]
                basic = "-" not in layout
                for other in ("CCYYMMDD", "CCYYDDD", "CCYYWwwD") if basic else ("CCYY-MM-DD", "CCYY-DDD", "CCYY-Www-D"):
                    if other != layout:
                        rep = rng.choice([r for r in "cow" if r != t[0]])
                        t2 = T.tp_from_inst(m, T.inst(m, t), rep, t[7], t[8])
                        if 1 <= t2[1] <= 9998:
                            out.append((m, t2, other + rest, h, mi))
                break
        return out

    def impl(self, a):
        from metomi.isodatetime.dumpers import TimePointDumper
        from metomi.isodatetime.parsers import TimePointParser
        set_mode(a[0])
        p = T.mk_tp(a[1])
        if DumpZone._dumper is None:
            DumpZone._dumper = TimePointDumper()       # one dumper for the whole run, as str() uses
        text = DumpZone._dumper.dump(p, a[2])
        q = TimePointParser().parse(text)
        flags = ""
        if not (q == p):
            flags += " NOT-EQUAL"
        if hash(q) != hash(p):
            flags += " HASH-DIFFERS"
        return "%s -> %s%s" % (text, T.canon_tp(q), flags)

    def oracle(self, a, out):
        m, t, fmt, h, mi = a
        what = "%s dumped as %s in %s" % (T.describe_tp(t), fmt, m)
        yr = self.year_to_print(m, t, fmt, h, mi)
        if not 0 <= yr <= 9999:
            if out == "err":
                return None          # the year of the re-zoned point does not fit four digits: refusing is right
            return "%s printed %s although the year to print is %d (a bounds error is due)" % (what, out, yr)
        if " -> " not in out:
            return "%s failed: %s" % (what, out)
        text, rest = out.split(" -> ")
        parts = rest.split()
        if len(parts) != 9:
            return "%s gave %s, which parses back to %s" % (what, text, rest)
        r = T.parse_tp(rest)
        if T.inst(m, r) != T.inst(m, t):
            return "%s gave %s = a different instant (off by %d s)" % (what, text, T.inst(m, r) - T.inst(m, t))
        if (r[7], r[8]) != (h, mi):
            return "%s gave %s carrying offset %d:%d instead of %d:%d" % (what, text, r[7], r[8], h, mi)
        if not T.valid(m, r):
            return "%s gave %s with invalid local fields" % (what, text)

    def label(self, a):
        return "dumpzone/%s/%s/%s" % (a[0], a[1][0], "Z" if a[2].endswith("Z") else "num")


import qcommon as Q   # noqa: E402


class TzQ(Op):
    """to_time_zone on points with fractional / absent slots against the rational model toTimeZoneQ
    (Props/C02q: C06_to_time_zone_rat): representation, requested offset, slot pattern and the instant
    to the microsecond; the re-zoned point must compare equal to the original (both orders) when the
    slots are exactly representable."""
    prop = PROP
    name = "tzq"

    def from_corpus(self, a):
        return (a[0], Q.norm_point(a[1])) + tuple(a[2:])

    def gen(self, rng, tier, boost):
        n = (2000 if tier == "quick" else 30000) * boost
        if getattr(self, "shard", None):
            n = n // self.shard[1] + 1
        for _ in range(n):
            m = gens.mode(rng)
            p = Q.gen_qpoint(rng, m)
            yield (m, p) + tuple(gens.offset(rng))

    def line(self, a):
        return "tzq %s %s %d %d" % (a[0], Q.tokens(a[1]), a[2], a[3])

    def impl(self, a):
        from metomi.isodatetime.data import TimeZone
        set_mode(a[0])
        p = Q.mk_point(a[1])
        r = p.to_time_zone(TimeZone(hours=a[2], minutes=a[3]))
        date, H, M, S, tzh, tzm = Q.slots_of(r)
        self.last = (H, M, S, r == p and p == r)
        return Q.canon(a[0], date, H, M, S, tzh, tzm)

    def canon_model(self, a, out):
        return Q.canon_model_point(a[0], out)

    def oracle(self, a, out):
        m, p, h, mi = a
        f = out.split()
        what = "%s re-zoned to %+d:%02d in %s" % (Q.describe(p), h, abs(mi), m)
        if len(f) != 5:
            return "%s failed: %s" % (what, out)
        if abs(int(f[4]) - Q.inst(m, p) * 10 ** 6) > 1:
            return "%s moved the instant by %s us" % (what, int(f[4]) - Q.inst(m, p) * 10 ** 6)
        if (int(f[1]), int(f[2])) != (h, mi) or f[0] != p[0]:
            return "%s: offset or representation not as requested (%s)" % (what, out)
        if f[3] != {"s": "hms", "m": "hm", "h": "h"}[Q.form_of(p)]:
            return "%s changed the precision form to %s" % (what, f[3])
        H, M, S, equal = self.last
        if p[4] == 24 and (h, mi) == (p[7], p[8]):
            pass        # unchanged offset: the point itself is returned, 24:00 kept as written
        elif not Q.in_range(H, M, S):
            return "%s left a slot out of range: %r" % (what, (float(H), M and float(M), S and float(S)))
        # (a decimal-hour point shifted by a number of minutes that is not a multiple of 15 gets an hour
        # value binary64 cannot hold: equality is then float noise, finding F17, judged by cmpq)
        if not equal and Q.dyadic(p) and ((mi - p[8]) % 15 == 0 or Q.form_of(p) != "h"):
            return "%s does not compare equal to the original" % what

    def label(self, a):
        return "tzq/%s" % Q.form_of(a[1])


def ops():
    return [ToTZ(), Local(), MkTZ(), DumpZone(), TzQ()]
