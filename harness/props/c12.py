"""C12 — a recurrence iterates exactly the series it denotes."""
import oracle
import gens
import tpcommon as T
import reccommon as R
from engine import Op, set_mode

PROP = "C12"
QUICK_BOOST = 2
LEAN_MODULES = ["IsoDT.Props.C12", "IsoDT.Props.C12b", "IsoDT.Props.C12mm", "IsoDT.Props.C12q"]
RULE = ("recurrences over the 3 notations x bounded (n = 1, 2, ...) / unbounded x anchors in any representation "
        "and zone (incl. 24:00) x exact intervals of many sizes and nominal (month/year, alone or mixed) "
        "intervals, first K points; non-trivial when the series crosses a month end, year boundary or uses a "
        "nominal interval; distinct by (op, arguments)")
K = 30


class Iter(Op):
    prop = PROP
    name = "riter"

    def gen(self, rng, tier, boost):
        n = 1500 * boost if tier == "quick" else 6000 * boost
        for _ in range(n):
            m = gens.mode(rng)
            rec, info = R.gen_rec(rng, m)
            yield (m, rec, tuple(sorted(info.items())))
        # F5 witnesses
        yield ("greg", (12, ("w", 2004, 31, 2, 23, 59, 0, 0, 0), ("U", 1, 13, 0, 0, 0, 0), None),
               tuple(sorted(dict(fmt=3, anchor=("w", 2004, 31, 2, 23, 59, 0, 0, 0),
                                 interval=("U", 1, 13, 0, 0, 0, 0), reps=12).items())))
        yield ("greg", (2, None, ("U", 0, 1, 2, 0, 0, 0), ("c", 2016, 8, 1, 0, 59, 0, 0, 0)),
               tuple(sorted(dict(fmt=4, anchor=("c", 2016, 8, 1, 0, 59, 0, 0, 0),
                                 interval=("U", 0, 1, 2, 0, 0, 0), reps=2).items())))

    sibling_rate = 0.35

    def sibling(self, a, rng):
        m, rec, info = a
        if rng.random() < 0.4:     # the same arguments under another calendar mode
            return [(m2, r2, tuple(sorted(i2.items()))) for m2, r2, i2 in R.mode_siblings(m, rec, info, limit=1)]
        rec2, info2 = R.respell_rec(rng, m, rec, dict(info))
        return [(m, rec2, tuple(sorted(info2.items())))]

    def line(self, a):
        return "riter %s %d %s" % (a[0], K, R.rec_line(a[1]))

    def impl(self, a):
        set_mode(a[0])
        rec = R.mk_rec(a[1])
        pts = []
        for p in rec:
            pts.append(p)
            if len(pts) >= K:
                break
        return R.canon_pts(pts)

    def oracle(self, a, out):
        m, rec, info = a
        info = dict(info)
        what = "R%s/%s (notation %d, %s) in %s" % (
            "" if info["reps"] is None else info["reps"], T.dur_str(info["interval"]), info["fmt"],
            T.describe_tp(info["anchor"]), m)
        if out.startswith(("err", "EXC", "Timeout")):
            return "%s: construction or iteration failed: %s" % (what, out)
        got = R.parse_pts(out)
        want, rev = R.expected_series(m, info, K)
        if len(got) != len(want):
            return "%s yields %d points, the series has %d (first %d): got %s" % (
                what, len(got), len(want), K, [T.describe_tp(t) for t in got[:4]] + ["..."])
        for i, (g, w) in enumerate(zip(got, want)):
            if not T.valid(m, g):
                return "%s: point %d = %s is not a valid date-time" % (what, i, T.describe_tp(g))
            if not R.same_point(m, g, w):
                return "%s: point %d is %s, the series has %s" % (what, i, T.describe_tp(g), T.describe_tp(w))
        insts = [T.inst(m, t) for t in got]
        if len(got) > 1:
            mono = all(x > y for x, y in zip(insts, insts[1:])) if rev else \
                all(x < y for x, y in zip(insts, insts[1:]))
            if not mono:
                return "%s: iteration is not strictly %s" % (what, "decreasing" if rev else "increasing")
        if info["reps"] is not None and info["reps"] <= K:
            if not any(T.inst(m, t) == T.inst(m, info["anchor"]) for t in got):
                return "%s: the %d points do not include the anchor" % (what, len(got))

    def label(self, a):
        info = dict(a[2])
        kind = "zero" if R.is_zero(info["interval"]) else ("exact" if R.is_exact(info["interval"]) else "nominal")
        return "riter/%s/fmt%d/%s/%s/%s" % (a[0], info["fmt"], "bounded" if info["reps"] else "unbounded", kind,
                                            info["anchor"][0])

    def nontrivial(self, a):
        info = dict(a[2])
        return not R.is_exact(info["interval"]) or (info["reps"] or 2) > 1


class IterText(Iter):
    """The same through text: str(r) read back by ONE long-lived TimeRecurrenceParser (as an application keeps
    one), then iterated; sibling cases re-read the same text under another calendar mode."""
    name = "ritertext"
    sibling_rate = 0.6
    _parser = None

    def gen(self, rng, tier, boost):
        n = 350 * boost if tier == "quick" else 3000 * boost
        for _ in range(n):
            m = gens.mode(rng)
            rec, info = R.gen_rec(rng, m)
            if not 0 <= info["anchor"][1] <= 9000:
                continue
            if rec[1] is not None and rec[3] is not None and not 0 <= rec[3][1] <= 9000:
                continue
            yield (m, rec, tuple(sorted(info.items())))

    def sibling(self, a, rng):
        m, rec, info = a
        out = []
        for m2 in T.OTHER_MODES[m][:2]:
            if not all(t is None or T.valid(m2, t) for t in (rec[1], rec[3])):
                continue
            info2 = info
            if rec[2] is None:
                # start/second-point: the interval is the distance of the two points IN THAT CALENDAR
                secs = T.inst(m2, rec[3]) - T.inst(m2, rec[1])
                if secs < 0:
                    continue
                d2 = dict(info)
                d2["interval"] = ("U", 0, 0, secs // 86400, 0, 0, secs % 86400)
                info2 = tuple(sorted(d2.items()))
            out.append((m2, rec, info2))
        return out

    def impl(self, a):
        from metomi.isodatetime.parsers import TimeRecurrenceParser
        set_mode(a[0])
        text = str(R.mk_rec(a[1]))
        if IterText._parser is None:
            IterText._parser = TimeRecurrenceParser()
        rec = IterText._parser.parse(text)
        pts = []
        for p in rec:
            pts.append(p)
            if len(pts) >= K:
                break
        return R.canon_pts(pts)


class IterFrac(Op):
    """Bounded recurrences whose exact interval has a fractional number of seconds (dyadic, so binary64 is exact):
    n repetitions yield exactly n strictly increasing points, interval apart, the anchor included - also when
    the interval is shorter than a second."""
    prop = PROP
    name = "riterfrac"
    model = False

    def gen(self, rng, tier, boost):
        from fractions import Fraction
        n = 250 * boost if tier == "quick" else 2500 * boost
        for _ in range(n):
            m = gens.mode(rng)
            anchor = R.gen_anchor(rng, m)
            anchor = T.tp_from_inst(m, T.inst(m, anchor), anchor[0], anchor[7], anchor[8])
            eighths = rng.choice([1, 2, 3, 4, 5, 7, 9, 12, 20, 8 * 60 + 1, 8 * 3600 + 4])
            reps = rng.choice([2, 3, 4, 5, 9])
            yield (m, anchor, eighths, reps, rng.choice([3, 4]))
        # the same with the fraction on the MINUTES or HOURS of the interval (PT7,5M, PT0,5M, PT1H2,5M, PT0,25H),
        # anchors near the top of an hour / of a day so that walking back borrows across it
        for _ in range(n):
            m = gens.mode(rng)
            anchor = R.gen_anchor(rng, m)
            t = list(T.tp_from_inst(m, T.inst(m, anchor), anchor[0], anchor[7], anchor[8]))
            if rng.random() < 0.7:
                t[4] = rng.choice([0, 0, 6, 23])
                t[5] = rng.choice([0, 1, 5, 10, 59])
                t[6] = rng.choice([0, 0, 30])
            unit = rng.choice(["m", "m", "h", "hm"])
            eighths = rng.choice([4, 12, 20, 60, 2, 1, 36, 100, 8 * 7 + 4, 8 * 61 + 4])
            yield (m, tuple(t), eighths, rng.choice([2, 3, 4, 5, 9]), rng.choice([3, 4, 4]), unit)

    UNIT_S = {"s": 1, "m": 60, "h": 3600, "hm": 60}

    def line(self, a):
        unit = a[5] if len(a) > 5 else "s"
        return "riterfrac %s %s %d/8 %s x%d fmt%d" % (a[0], T.tp_str(a[1]), a[2], unit, a[3], a[4])

    def interval(self, a):
        from metomi.isodatetime.data import Duration
        unit = a[5] if len(a) > 5 else "s"
        if unit == "s":
            return Duration(seconds=a[2] / 8.0)
        if unit == "m":
            return Duration(minutes=a[2] / 8.0)
        if unit == "h":
            return Duration(hours=a[2] / 8.0)
        return Duration(hours=1, minutes=a[2] / 8.0)

    def step_seconds(self, a):
        from fractions import Fraction
        unit = a[5] if len(a) > 5 else "s"
        return Fraction(a[2], 8) * self.UNIT_S[unit] + (3600 if unit == "hm" else 0)

    def impl(self, a):
        from fractions import Fraction
        from metomi.isodatetime.data import TimeRecurrence, Duration
        m, anchor, eighths, reps, fmt = a[:5]
        set_mode(m)
        d = self.interval(a)
        p = T.mk_tp(anchor)
        rec = TimeRecurrence(repetitions=reps, start_point=p, duration=d) if fmt == 3 else \
            TimeRecurrence(repetitions=reps, duration=d, end_point=p)
        pts = []
        for q in rec:
            pts.append(q)
            if len(pts) > reps + 6:
                break
        # instants relative to the anchor, exactly
        rel = []
        for q in pts:
            dd = q - p
            rel.append(Fraction(dd.get_seconds()).limit_denominator(64))
        return "%d %s" % (len(pts), " ".join(str(x) for x in rel))

    def oracle(self, a, out):
        from fractions import Fraction
        m, anchor, eighths, reps, fmt = a[:5]
        if out.startswith(("err", "EXC", "Timeout")):
            return "%s failed: %s" % (self.line(a), out)
        step = self.step_seconds(a)
        want = [step * k for k in range(reps)] if fmt == 3 else [-step * (reps - 1 - k) for k in range(reps)]
        exp = "%d %s" % (reps, " ".join(str(x) for x in want))
        if out != exp:
            return "%s: yields (count, offsets from the anchor in s) %s; the series is %s" % (self.line(a), out, exp)

    def label(self, a):
        unit = a[5] if len(a) > 5 else "s"
        return "riterfrac/%s/fmt%d/%s" % (a[0], a[4], ("sub-second" if a[2] < 8 else "fractional") if unit == "s"
                                          else "fraction-on-" + unit)


def defect_series(m, info, k):
    """What the recorded defect F5 produces: the far bound is derived by ONE addition of the
    interval multiplied by (n - 1); the points are then repeated additions from the near end while
    they stay within that bound."""
    fmt, anchor, d, reps = info["fmt"], info["anchor"], info["interval"], info["reps"]
    mult = ("U",) + tuple(x * (reps - 1) for x in d[1:])
    norm = T.tp_from_inst(m, T.inst(m, anchor), anchor[0], anchor[7], anchor[8])
    if fmt == 3:
        start, end = norm, R.step(m, norm, mult, 1)
    else:
        start, end = R.step(m, norm, mult, -1), norm
    pts, cur = [], start
    while T.inst(m, cur) <= T.inst(m, end) and len(pts) < k:
        pts.append(cur)
        cur = R.step(m, cur, d, 1)
    return pts


def _f5(op, a, out, msg):
    info = dict(a[2])
    if not (op.name in ("riter", "ritertext") and not R.is_exact(info["interval"]) and info["reps"] is not None
            and info["reps"] >= 2 and info["fmt"] in (3, 4)):
        return False
    try:
        got = R.parse_pts(out)
        want = defect_series(a[0], info, K)
    except Exception:
        return False
    return len(got) == len(want) and all(R.same_point(a[0], g, w) for g, w in zip(got, want))


KNOWN_PREDICATES = {"nominal_bounded_far_bound": _f5}


class Notations(Op):
    """For exact intervals the three notations of one finite series are equal and iterate
    identically; one repetition or a zero interval yields exactly the anchor."""
    prop = PROP
    name = "rnotations"
    model = False

    def gen(self, rng, tier, boost):
        for _ in range(500 * boost):
            m = gens.mode(rng)
            start = R.gen_anchor(rng, m)
            if start[4] == 24:
                continue
            d = R.gen_interval(rng, nominal=0)
            n = rng.choice([1, 2, 3, 7, 20])
            yield (m, start, d, n)

    def line(self, a):
        return "rnotations %s %s %s %d" % (a[0], T.tp_str(a[1]), T.dur_str(a[2]), a[3])

    def impl(self, a):
        from metomi.isodatetime.data import TimeRecurrence
        m, start, d, n = a
        set_mode(m)
        s, dur = T.mk_tp(start), T.mk_dur(d)
        r1 = TimeRecurrence(repetitions=n, start_point=s, end_point=s + dur)
        r3 = TimeRecurrence(repetitions=n, start_point=s, duration=dur)
        r4 = TimeRecurrence(repetitions=n, duration=dur, end_point=s + dur * (n - 1))
        problems = []
        if not (r1 == r3 and r3 == r4 and r1 == r4):
            problems.append("notations unequal: %s | %s | %s" % (r1, r3, r4))
        if not (hash(r1) == hash(r3) == hash(r4)):
            problems.append("hashes differ")
        l1, l3, l4 = [list(r) for r in (r1, r3, r4)]
        if not (R.canon_pts(l1) == R.canon_pts(l3) == R.canon_pts(l4)):
            problems.append("iterate differently: %s | %s | %s" % (
                R.canon_pts(l1)[:80], R.canon_pts(l3)[:80], R.canon_pts(l4)[:80]))
        if len(l3) != n:
            problems.append("%d points for n = %d" % (len(l3), n))
        for zero in (TimeRecurrence(repetitions=5, start_point=s, duration=dur * 0),
                     TimeRecurrence(repetitions=1, start_point=s, duration=dur),
                     TimeRecurrence(repetitions=1, duration=dur, end_point=s),
                     TimeRecurrence(repetitions=4, start_point=s, end_point=s)):
            if R.canon_pts(list(zero)) != T.canon_tp(s):
                problems.append("single-point recurrence %s yields %s" % (zero, R.canon_pts(list(zero))))
        return "ok" if not problems else "; ".join(problems)

    def oracle(self, a, out):
        if out != "ok":
            return "start %s, interval %s, n=%d in %s: %s" % (T.describe_tp(a[1]), T.dur_str(a[2]), a[3], a[0], out)


class Mk(Op):
    """Constructor normalisation: model correspondence of what is stored."""
    prop = PROP
    name = "rmk"

    def gen(self, rng, tier, boost):
        for _ in range(600 * boost):
            m = gens.mode(rng)
            rec, info = R.gen_rec(rng, m)
            yield (m, rec)
        # refused shapes
        t = ("c", 2000, 1, 1, 0, 0, 0, 0, 0)
        for rec in [(0, t, ("U", 0, 0, 1, 0, 0, 0), None), (-1, t, None, t), (2, t, None, None),
                    (None, None, ("U", 0, 0, 1, 0, 0, 0), None), (2, t, ("U", 0, 0, -1, 0, 0, 0), None),
                    (2, t, ("U", 0, 0, 1, 0, 0, 0), t), (3, t, None, ("c", 1999, 1, 1, 0, 0, 0, 0, 0))]:
            yield ("greg", rec)

    def line(self, a):
        return "rmk %s %s" % (a[0], R.rec_line(a[1]))

    def impl(self, a):
        set_mode(a[0])
        return R.canon_rec(R.mk_rec(a[1]))

    def label(self, a):
        return "rmk/%s" % a[0]


def ops():
    import common
    common.foreign_configurations()
    import recmm
    import recqops
    return [Iter(), IterText(), IterFrac(), Notations(), Mk(), recmm.RecMMOp(PROP, "mmiter", ["mmrmk", "mmriter", "mmriter", "mmriter"], 500),
            recqops.RecQOp(PROP, "riterq", ["riterq"], 400)]
