"""C05 — month and year arithmetic follows calendar rules with end-of-period clamping."""
import oracle
import gens
import tpcommon as T
from engine import Op, set_mode

PROP = "C05"
LEAN_MODULES = ["IsoDT.Props.C05"]
RULE = ("time points at month ends, leap days, day 365/366, week 52/53 (3 representations, any offset) x "
        "month / year counts of either sign, alone and mixed with exact units; thorough: exhaustive over "
        "(mode, year type, month, day >= 28) x n in [-25, 25]; non-trivial when a clamp applies or a year "
        "boundary is crossed; distinct by (op, arguments)")


def spec_add_months(m, date, n):
    """The property's rule: n single steps, each clamping to the month's last day; ordinal and
    week dates go through their calendar form and back."""
    y, mo, d = oracle.cal_of_day_num(m, oracle.date_day_num(m, date))
    for _ in range(abs(n)):
        mo += 1 if n > 0 else -1
        if mo > 12:
            mo, y = 1, y + 1
        if mo < 1:
            mo, y = 12, y - 1
        d = min(d, oracle.month_len(m, y, mo))
    num = oracle.day_num_cal(m, y, mo, d)
    if date[0] == "c":
        return ("c", y, mo, d)
    if date[0] == "o":
        return ("o",) + oracle.ord_of_day_num(m, num)
    return ("w",) + oracle.week_of_day_num(m, num)


def spec_add_years(m, date, n):
    if n == 0:
        return date
    if date[0] == "c":
        _, y, mo, d = date
        return ("c", y + n, mo, min(d, oracle.month_len(m, y + n, mo)))
    if date[0] == "o":
        _, y, doy = date
        return ("o", y + n, min(doy, oracle.year_len(m, y + n)))
    _, y, w, d = date
    return ("w", y + n, min(w, oracle.weeks_in_year(m, y + n)), d)


def spec_add(m, t, dur):
    """exact part first (instant arithmetic), then months, then years."""
    _, y, mo, d, h, mi, s = dur
    secs = d * 86400 + h * 3600 + mi * 60 + s
    p1 = T.tp_from_inst(m, T.inst(m, t) + secs, t[0], t[7], t[8])
    date = spec_add_years(m, spec_add_months(m, T.date_of(p1), mo), y)
    if date[0] == "o":
        return ("o", date[1], date[2], 0) + p1[4:]
    return date + p1[4:]


def gen_nominal(rng):
    r = rng.random()
    y = mo = 0
    if r < 0.4:
        mo = rng.choice([1, -1, 2, -2, 11, 12, -12, 13, 24, -25, 6, -6, 3])
    elif r < 0.7:
        y = rng.choice([1, -1, 4, -4, 3, 100, -100, 400, 7, 28, -2001])
    else:
        mo = rng.randint(-30, 30)
        y = rng.randint(-10, 10)
    d = h = mi = s = 0
    if rng.random() < 0.3:
        e = T.gen_exact_dur(rng, max_days=2000)
        if e[0] == "W":
            e = ("U", 0, 0, e[1] * 7, 0, 0, 0)
        _, _, _, d, h, mi, s = e
    return ("U", y, mo, d, h, mi, s)


def clamp_points(m, y):
    """Starting points where a clamp can apply in year y of mode m."""
    out = []
    for mo in range(1, 13):
        ml = oracle.month_len(m, y, mo)
        for d in range(28, ml + 1):
            out.append(("c", y, mo, d))
    yl = oracle.year_len(m, y)
    out += [("o", y, yl), ("o", y, yl - 1), ("o", y, 59), ("o", y, 60), ("o", y, 61)]
    wiy = oracle.weeks_in_year(m, y)
    out += [("w", y, wiy, 7), ("w", y, wiy, 1), ("w", y, wiy - 1, 4), ("w", y, 1, 1)]
    return out


class AddNominal(Op):
    prop = PROP
    name = "addnom"
    shard = None

    def gen(self, rng, tier, boost):
        n = 1500 * boost if tier == "quick" else 5000 * boost
        for _ in range(n):
            m = gens.mode(rng)
            yield (m, T.gen_tp(rng, m), gen_nominal(rng))
        years = [1999, 2000, 2004, 2100, 2020, 2015, 0, -4]
        for m in oracle.MODES:
            for y in years if tier == "quick" else years + [1900, 2001, 2008, 2026, 2032, -1, 4, 400]:
                pts = clamp_points(m, y)
                if tier == "quick":
                    pts = [pts[i] for i in range(0, len(pts), 3)] + pts[-9:]
                for date in gens.shard_filter(pts, self.shard):
                    t = (date + (0,) if date[0] == "o" else date) + (12, 30, 15, 0, 0)
                    ns = [1, -1, 12, -12, 13, -11, 2] if tier == "quick" else range(-25, 26)
                    for k in ns:
                        yield (m, t, ("U", 0, k, 0, 0, 0, 0))
                    for k in [1, -1, 4, -4, 100, 3]:
                        yield (m, t, ("U", k, 0, 0, 0, 0, 0))
        # year steps that LAND on a distinguished year (0 - falsy in Python, yet leap -, the years around it,
        # century / 400-year rule years, the 4-digit limit) from the dates a clamp may or may not apply to
        targets = [0, 1, -1, 4, -4, 100, -100, 400, -400, 1900, 2000, 2100, 9999, 10000]
        for m in oracle.MODES:
            for y in [-4, 4, 400, 1996, 2000, 2003]:
                pts = [("c", y, 2, oracle.month_len(m, y, 2)), ("c", y, 2, 28), ("c", y, 1, 29), ("c", y, 1, 31 if m != "d360" else 30),
                       ("o", y, oracle.year_len(m, y)), ("o", y, 365 if m != "d360" else 360),
                       ("w", y, oracle.weeks_in_year(m, y), 7), ("w", y, 52 if m != "d360" else 51, 3)]
                for date in gens.shard_filter(pts, self.shard):
                    t = (date + (0,) if date[0] == "o" else date) + (23, 59, 59, 0, 0)
                    for tgt in targets:
                        k = tgt - y
                        if k == 0:
                            continue
                        yield (m, t, ("U", k, 0, 0, 0, 0, 0))
                        if date[0] == "c" and date[2] == 1:
                            yield (m, t, ("U", k, 1, 0, 0, 0, 0))      # ... then one month on into February
                        if abs(k) <= 8:
                            yield (m, t, ("U", 0, 12 * k, 0, 0, 0, 0))

    def line(self, a):
        return "add %s %s %s" % (a[0], T.tp_str(a[1]), T.dur_str(a[2]))

    def impl(self, a):
        set_mode(a[0])
        return T.canon_tp(T.mk_tp(a[1]) + T.mk_dur(a[2]))

    def oracle(self, a, out):
        m, t, d = a
        what = "%s + %s in %s" % (T.describe_tp(t), T.dur_str(d), m)
        if not out[:1] in "cow" or out.startswith("err"):
            return "%s failed: %s" % (what, out)
        r = T.parse_tp(out)
        want = spec_add(m, t, d)
        if not T.valid(m, r, strict=True):
            return "%s = %s is not a valid date-time of the mode" % (what, T.describe_tp(r))
        if r != want:
            return "%s = %s, the calendar rule gives %s" % (what, T.describe_tp(r), T.describe_tp(want))

    def label(self, a):
        m, t, d = a
        kind = ("y" if d[1] else "") + ("m" if d[2] else "") + ("x" if any(d[3:]) else "")
        return "addnom/%s/%s/%s" % (m, t[0], kind)

    def nontrivial(self, a):
        m, t, d = a
        try:
            plain = spec_add(m, t, ("U", 0, 0) + tuple(d[3:]))
            return spec_add(m, t, d)[1:4] != (plain[1] + d[1] + (plain[2] - 1 + d[2]) // 12,
                                             (plain[2] - 1 + d[2]) % 12 + 1, plain[3]) \
                if t[0] == "c" else True
        except Exception:
            return True


class AddMonths(Op):
    """TimePoint.add_months(n) and n single steps agree."""
    prop = PROP
    name = "addmonths"

    def gen(self, rng, tier, boost):
        n = 600 * boost if tier == "quick" else 3000 * boost
        for _ in range(n):
            m = gens.mode(rng)
            yield (m, T.gen_tp(rng, m, allow24=False), rng.choice([0, 1, -1, 2, -2, 12, -13, 25, rng.randint(-40, 40)]))

    def line(self, a):
        return "addmonths %s %s %d" % (a[0], T.tp_str(a[1]), a[2])

    def impl(self, a):
        set_mode(a[0])
        p = T.mk_tp(a[1])
        r = p.add_months(a[2])
        q = p
        for _ in range(abs(a[2])):
            q = q.add_months(1 if a[2] > 0 else -1)
        if T.canon_tp(q) != T.canon_tp(r):
            return "STEPS-DIFFER %s vs %s" % (T.canon_tp(r), T.canon_tp(q))
        return T.canon_tp(r)

    def oracle(self, a, out):
        m, t, n = a
        if out.startswith("STEPS"):
            return "add_months(%d) on %s differs from %d single steps: %s" % (n, T.describe_tp(t), abs(n), out)
        if not out[:1] in "cow" or out.startswith("err"):
            return "add_months(%d) on %s failed: %s" % (n, T.describe_tp(t), out)
        date = spec_add_months(m, T.date_of(t), n)
        want = (("o", date[1], date[2], 0) if date[0] == "o" else date) + t[4:]
        if T.parse_tp(out) != want:
            return "add_months(%d) on %s in %s = %s, the calendar rule gives %s" % (
                n, T.describe_tp(t), m, out, T.describe_tp(want))

    def label(self, a):
        return "addmonths/%s/%s" % (a[0], a[1][0])


THOROUGH_EXHAUSTIVE = False


def ops():
    return [AddNominal(), AddMonths()]
