"""C05 — month and year arithmetic follows calendar rules with end-of-period clamping."""
import oracle
import gens
import tpcommon as T
from engine import Op, set_mode
from props import c01

PROP = "C05"
QUICK_BOOST = 2
LEAN_MODULES = ["IsoDT.Props.C05", "IsoDT.Props.C05q"]
RULE = ("time points at month ends, leap days, day 365/366, week 52/53 (3 representations, any offset) x "
        "month / year counts of either sign, alone and mixed with exact units; thorough: exhaustive over "
        "(mode, year type, month, day >= 28) x n in [-25, 25]; non-trivial when a clamp applies or a year "
        "boundary is crossed; distinct by (op, arguments)")


def spec_add_months(m, date, n):
    """The property's rule: n single steps, each clamping to the month's last day; ordinal and
    week dates go through their calendar form and back."""
    y, mo, d = oracle.cal_of_day_num(m, oracle.date_day_num(m, date))
    for _ in range(abs(n)):
        mo += 1 if n > 0 else -1
        if mo > 12:
            mo, y = 1, y + 1
        if mo < 1:
            mo, y = 12, y - 1
        d = min(d, oracle.month_len(m, y, mo))
    num = oracle.day_num_cal(m, y, mo, d)
    if date[0] == "c":
        return ("c", y, mo, d)
    if date[0] == "o":
        return ("o",) + oracle.ord_of_day_num(m, num)
    return ("w",) + oracle.week_of_day_num(m, num)


def spec_add_years(m, date, n):
    if n == 0:
        return date
    if date[0] == "c":
        _, y, mo, d = date
        return ("c", y + n, mo, min(d, oracle.month_len(m, y + n, mo)))
    if date[0] == "o":
        _, y, doy = date
        return ("o", y + n, min(doy, oracle.year_len(m, y + n)))
    _, y, w, d = date
    return ("w", y + n, min(w, oracle.weeks_in_year(m, y + n)), d)


def spec_add(m, t, dur):
    """exact part first (instant arithmetic), then months, then years."""
    _, y, mo, d, h, mi, s = dur
    secs = d * 86400 + h * 3600 + mi * 60 + s
    p1 = T.tp_from_inst(m, T.inst(m, t) + secs, t[0], t[7], t[8])
    date = spec_add_years(m, spec_add_months(m, T.date_of(p1), mo), y)
    if date[0] == "o":
        return ("o", date[1], date[2], 0) + p1[4:]
    return date + p1[4:]


def gen_nominal(rng):
    r = rng.random()
    y = mo = 0
    if r < 0.4:
        mo = rng.choice([1, -1, 2, -2, 11, 12, -12, 13, 24, -25, 6, -6, 3])
    elif r < 0.7:
        y = rng.choice([1, -1, 4, -4, 3, 100, -100, 400, 7, 28, -2001])
    else:
        mo = rng.randint(-30, 30)
        y = rng.randint(-10, 10)
    d = h = mi = s = 0
    if rng.random() < 0.3:
        e = T.gen_exact_dur(rng, max_days=2000)
        if e[0] == "W":
            e = ("U", 0, 0, e[1] * 7, 0, 0, 0)
        _, _, _, d, h, mi, s = e
    return ("U", y, mo, d, h, mi, s)


def clamp_points(m, y):
    """Starting points where a clamp can apply in year y of mode m."""
    out = []
    for mo in range(1, 13):
        ml = oracle.month_len(m, y, mo)
        for d in range(28, ml + 1):
            out.append(("c", y, mo, d))
    yl = oracle.year_len(m, y)
    out += [("o", y, yl), ("o", y, yl - 1), ("o", y, 59), ("o", y, 60), ("o", y, 61)]
    wiy = oracle.weeks_in_year(m, y)
    out += [("w", y, wiy, 7), ("w", y, wiy, 1), ("w", y, wiy - 1, 4), ("w", y, 1, 1)]
    return out


class AddNominal(Op):
    prop = PROP
    name = "addnom"
    shard = None
    sibling = T.tp_sibling(1)
    sibling_rate = 0.1

    def gen(self, rng, tier, boost):
        n = 1500 * boost if tier == "quick" else 5000 * boost
        for _ in range(n):
            m = gens.mode(rng)
            yield (m, T.gen_tp(rng, m), gen_nominal(rng))
        years = [1999, 2000, 2004, 2100, 2020, 2015, 0, -4]
        for m in oracle.MODES:
            for y in years if tier == "quick" else years + [1900, 2001, 2008, 2026, 2032, -1, 4, 400]:
                pts = clamp_points(m, y)
                if tier == "quick":
                    pts = [pts[i] for i in range(0, len(pts), 3)] + pts[-9:]
                for date in gens.shard_filter(pts, self.shard):
                    t = (date + (0,) if date[0] == "o" else date) + (12, 30, 15, 0, 0)
                    ns = [1, -1, 12, -12, 13, -11, 2] if tier == "quick" else range(-25, 26)
                    for k in ns:
                        yield (m, t, ("U", 0, k, 0, 0, 0, 0))
                    for k in [1, -1, 4, -4, 100, 3]:
                        yield (m, t, ("U", k, 0, 0, 0, 0, 0))
        # the EXACT part carries the point onto a clamp-prone date (29 Feb, a 31st, day 366, week 53) or off it, and
        # only then the months / years are applied - to the date after the exact part, not to the operand's
        for m in oracle.MODES:
            for y in gens.shard_filter([2020, 2019, 2000, 2004, 1900, 0, 4], self.shard):
                for target in clamp_points(m, y)[::2] + [("c", y, 2, oracle.month_len(m, y, 2)), ("o", y, oracle.year_len(m, y))]:
                    tgt = (target + (0,) if target[0] == "o" else target) + (12, 0, 0, 0, 0)
                    if not T.valid(m, tgt):
                        continue
                    for (d, h) in ((1, 0), (-1, 0), (0, 13), (0, -13), (2, 0), (0, 36)):
                        start = T.tp_from_inst(m, T.inst(m, tgt) - 86400 * d - 3600 * h, tgt[0], 0, 0)
                        for (yy, mo) in ((1, 0), (-1, 0), (4, 0), (0, 1), (0, -1), (1, 1), (0, 12)):
                            if rng.random() < (0.25 if tier == "quick" else 1.0):
                                yield (m, start, ("U", yy, mo, d, h, 0, 0))
        # year steps that LAND on a distinguished year (0 - falsy in Python, yet leap -, the years around it,
        # century / 400-year rule years, the 4-digit limit) from the dates a clamp may or may not apply to
        targets = [0, 1, -1, 4, -4, 100, -100, 400, -400, 1900, 2000, 2100, 9999, 10000]
        for m in oracle.MODES:
            for y in [-4, 4, 400, 1996, 2000, 2003]:
                pts = [("c", y, 2, oracle.month_len(m, y, 2)), ("c", y, 2, 28), ("c", y, 1, 29), ("c", y, 1, 31 if m != "d360" else 30),
                       ("o", y, oracle.year_len(m, y)), ("o", y, 365 if m != "d360" else 360),
                       ("w", y, oracle.weeks_in_year(m, y), 7), ("w", y, 52 if m != "d360" else 51, 3)]
                for date in gens.shard_filter(pts, self.shard):
                    t = (date + (0,) if date[0] == "o" else date) + (23, 59, 59, 0, 0)
                    for tgt in targets:
                        k = tgt - y
                        if k == 0:
                            continue
                        yield (m, t, ("U", k, 0, 0, 0, 0, 0))
                        if date[0] == "c" and date[2] == 1:
                            yield (m, t, ("U", k, 1, 0, 0, 0, 0))      # ... then one month on into February
                        if abs(k) <= 8:
                            yield (m, t, ("U", 0, 12 * k, 0, 0, 0, 0))

    def line(self, a):
        return "add %s %s %s" % (a[0], T.tp_str(a[1]), T.dur_str(a[2]))

    def impl(self, a):
        set_mode(a[0])
        return T.canon_tp(T.mk_tp(a[1]) + T.mk_dur(a[2]))

    def oracle(self, a, out):
        m, t, d = a
        what = "%s + %s in %s" % (T.describe_tp(t), T.dur_str(d), m)
        if not out[:1] in "cow" or out.startswith("err"):
            return "%s failed: %s" % (what, out)
        r = T.parse_tp(out)
        want = spec_add(m, t, d)
        if not T.valid(m, r, strict=True):
            return "%s = %s is not a valid date-time of the mode" % (what, T.describe_tp(r))
        if r != want:
            return "%s = %s, the calendar rule gives %s" % (what, T.describe_tp(r), T.describe_tp(want))

    def label(self, a):
        m, t, d = a
        kind = ("y" if d[1] else "") + ("m" if d[2] else "") + ("x" if any(d[3:]) else "")
        return "addnom/%s/%s/%s" % (m, t[0], kind)

    def nontrivial(self, a):
        m, t, d = a
        try:
            plain = spec_add(m, t, ("U", 0, 0) + tuple(d[3:]))
            return spec_add(m, t, d)[1:4] != (plain[1] + d[1] + (plain[2] - 1 + d[2]) // 12,
                                             (plain[2] - 1 + d[2]) % 12 + 1, plain[3]) \
                if t[0] == "c" else True
        except Exception:
            return True


class AddMonths(Op):
    """TimePoint.add_months(n) and n single steps agree."""
    prop = PROP
    name = "addmonths"

    def gen(self, rng, tier, boost):
        n = 600 * boost if tier == "quick" else 3000 * boost
        for _ in range(n):
            m = gens.mode(rng)
            yield (m, T.gen_tp(rng, m, allow24=False), rng.choice([0, 1, -1, 2, -2, 12, -13, 25, rng.randint(-40, 40)]))

    def line(self, a):
        return "addmonths %s %s %d" % (a[0], T.tp_str(a[1]), a[2])

    def impl(self, a):
        set_mode(a[0])
        p = T.mk_tp(a[1])
        r = p.add_months(a[2])
        q = p
        for _ in range(abs(a[2])):
            q = q.add_months(1 if a[2] > 0 else -1)
        if T.canon_tp(q) != T.canon_tp(r):
            return "STEPS-DIFFER %s vs %s" % (T.canon_tp(r), T.canon_tp(q))
        return T.canon_tp(r)

    def oracle(self, a, out):
        m, t, n = a
        if out.startswith("STEPS"):
            return "add_months(%d) on %s differs from %d single steps: %s" % (n, T.describe_tp(t), abs(n), out)
        if not out[:1] in "cow" or out.startswith("err"):
            return "add_months(%d) on %s failed: %s" % (n, T.describe_tp(t), out)
        date = spec_add_months(m, T.date_of(t), n)
        want = (("o", date[1], date[2], 0) if date[0] == "o" else date) + t[4:]
        if T.parse_tp(out) != want:
            return "add_months(%d) on %s in %s = %s, the calendar rule gives %s" % (
                n, T.describe_tp(t), m, out, T.describe_tp(want))

    def label(self, a):
        return "addmonths/%s/%s" % (a[0], a[1][0])


THOROUGH_EXHAUSTIVE = False


class AddNominalQ(Op):
    """`p + d` for a mixed duration on points in any precision form (decimal seconds / minutes / hours), against the
    rational-slot model `addDurQ` (Props/C05q): representation, offset, slot pattern and the instant to 1 us; the
    oracle is the property's rule - exact part first (instant arithmetic), then months, then years on the local
    date, time of day untouched."""
    prop = PROP
    name = "addnomq"

    def gen(self, rng, tier, boost):
        from fractions import Fraction
        n = (2500 if tier == "quick" else 40000) * boost
        if getattr(self, "shard", None):
            n = n // self.shard[1] + 1
        for _ in range(n):
            m = gens.mode(rng)
            t = T.gen_tp(rng, m, allow24=rng.random() < 0.15)
            if abs(t[1]) > 9000:
                continue
            form = rng.choice("smh")
            frac = Fraction(rng.choice([0, 1, 5, 25, 125, 250, 500, 750, 999, rng.randint(0, 999)]), 1000)
            if t[4] == 24:
                frac = Fraction(0)
            nom = gen_nominal(rng)
            _, y, mo, d, h, mi, sec = nom
            r = rng.random()
            fh = fmi = fs = Fraction(0)
            if r < 0.4:
                fh, fmi, fs = (Fraction(rng.choice([0, 1, -1, 23, 25]), rng.choice([1, 2, 4])),
                               Fraction(rng.choice([0, 1, -59, 61]), rng.choice([1, 2, 8])),
                               Fraction(rng.choice([0, 1, -1, 86399]), rng.choice([1, 4, 1000])))
            yield (m, t, form, c01._q(frac), y, mo, d, c01._q(h + fh), c01._q(mi + fmi), c01._q(sec + fs))

    slots = None

    def _slots(self, a):
        from fractions import Fraction
        m, t, form, frac = a[:4]
        rep, y, aa, b, hh, mi, ss, tzh, tzm = t
        fr = c01._parse_q(frac)
        if form == "s":
            return (Fraction(hh), Fraction(mi), ss + fr)
        if form == "m":
            return (Fraction(hh), mi + fr, None)
        return (hh + fr, None, None)

    def line(self, a):
        m, t, form, frac, y, mo, d, dh, dmi, ds = a
        rep, yy, aa, b, hh, mi, ss, tzh, tzm = t
        h_, m_, s_ = self._slots(a)
        return "addnomq %s %s %d %d %d %s %s %s %d %d %d %d %d %s %s %s" % (
            m, rep, yy, aa, b, c01._q(h_), "_" if m_ is None else c01._q(m_), "_" if s_ is None else c01._q(s_),
            tzh, tzm, y, mo, d, dh, dmi, ds)

    def impl(self, a):
        from fractions import Fraction
        from metomi.isodatetime.data import TimePoint, Duration
        m, t, form, frac, y, mo, d, dh, dmi, ds = a
        set_mode(m)
        rep, yy, aa, b, hh, mi, ss, tzh, tzm = t
        kw = dict(year=yy, time_zone_hour=tzh, time_zone_minute=tzm, hour_of_day=hh)
        if not 0 <= yy <= 9999:
            kw["num_expanded_year_digits"] = 3
        if rep == "c":
            kw.update(month_of_year=aa, day_of_month=b)
        elif rep == "o":
            kw.update(day_of_year=aa)
        else:
            kw.update(week_of_year=aa, day_of_week=b)
        fr = float(c01._parse_q(frac))
        if form == "s":
            kw.update(minute_of_hour=mi, second_of_minute=ss, second_of_minute_decimal=fr)
        elif form == "m":
            kw.update(minute_of_hour=mi, minute_of_hour_decimal=fr)
        else:
            kw.update(hour_of_day_decimal=fr)
        p = TimePoint(**kw)

        def num(tok):
            v = c01._parse_q(tok)
            return int(v) if v.denominator == 1 else float(v)
        dur = Duration(years=y, months=mo, days=d, hours=num(dh), minutes=num(dmi), seconds=num(ds))
        r = p + dur
        if r.get_is_calendar_date():
            date = ("c",) + tuple(r.get_calendar_date())
        elif r.get_is_ordinal_date():
            date = ("o",) + tuple(r.get_ordinal_date())
        else:
            date = ("w",) + tuple(r.get_week_date())
        h2, m2, s2 = r._hour_of_day, r._minute_of_hour, r._second_of_minute
        self.last = (h2, m2, s2)
        return c01.AddQ.canon(m, date[0], date, Fraction(h2), None if m2 is None else Fraction(m2),
                              None if s2 is None else Fraction(s2), r.time_zone.hours, r.time_zone.minutes)

    def canon_model(self, a, out):
        f = out.split()
        if len(f) != 9:
            return out
        rep, y, aa, b = f[0], int(f[1]), int(f[2]), int(f[3])
        date = (rep, y, aa) if rep == "o" else (rep, y, aa, b)
        return c01.AddQ.canon(a[0], rep, date, c01._parse_q(f[4]), c01._parse_q(f[5]), c01._parse_q(f[6]),
                              int(f[7]), int(f[8]))

    def oracle(self, a, out):
        from fractions import Fraction
        m, t, form, frac, y, mo, d, dh, dmi, ds = a
        f = out.split()
        what = "%s (form %s, fraction %s) + P%dY%dM%dDT%sH%sM%sS in %s" % (T.describe_tp(t), form, frac, y, mo, d, dh,
                                                                        dmi, ds, m)
        if len(f) != 5:
            return "%s failed: %s" % (what, out)
        rep, yy, aa, b, hh, mi, ss, tzh, tzm = t
        h_, m_, s_ = self._slots(a)
        date = (rep, yy, aa) if rep == "o" else (rep, yy, aa, b)
        off = 3600 * tzh + 60 * tzm
        local = (86400 * oracle.date_day_num(m, date) + 3600 * h_ + 60 * (m_ or 0) + (s_ or 0)
                 + 86400 * d + 3600 * c01._parse_q(dh) + 60 * c01._parse_q(dmi) + c01._parse_q(ds))
        day = local // 86400          # floor on a Fraction
        tod = local - 86400 * day
        if rep == "c":
            date1 = ("c",) + oracle.cal_of_day_num(m, day)
        elif rep == "o":
            date1 = ("o",) + oracle.ord_of_day_num(m, day)
        else:
            date1 = ("w",) + oracle.week_of_day_num(m, day)
        date2 = spec_add_years(m, spec_add_months(m, date1, mo), y)
        want = 86400 * oracle.date_day_num(m, date2) + tod - off
        if abs(int(f[4]) - want * 10 ** 6) > 1:
            return "%s is off by %.6f s from the calendar rule (exact part, then months, then years)" % (
                what, float(Fraction(int(f[4]), 10 ** 6) - want))
        if f[0] != rep or (int(f[1]), int(f[2])) != (tzh, tzm):
            return "%s changed representation or offset" % what
        if f[3] != {"s": "hms", "m": "hm", "h": "h"}[form]:
            return "%s changed the precision form (%s from %s)" % (what, f[3], form)
        h2, m2, s2 = self.last
        if not (0 <= h2 < 24 and (m2 is None or 0 <= m2 < 60) and (s2 is None or 0 <= s2 < 60)):
            return "%s left a time slot out of range: %r" % (what, (h2, m2, s2))

    def label(self, a):
        return "addnomq/%s/%s/%s" % (a[0], a[2], "24" if a[1][4] == 24 else "n")


def ops():
    return [AddNominal(), AddMonths(), AddNominalQ()]
