"""C04 — subtracting time points inverts addition."""
import oracle
import gens
import tpcommon as T
from engine import Op, set_mode

PROP = "C04"
QUICK_BOOST = 2
LEAN_MODULES = ["IsoDT.Props.C04", "IsoDT.Props.C04b", "IsoDT.Props.C02q"]
RULE = ("ordered pairs at a chosen instant distance (0 .. thousands of years, across year 0) in mixed "
        "representations / offsets / 24:00; non-trivial when a borrow (s, min, h or day) occurs or the "
        "operands differ in representation or offset; distinct by (op, arguments)")
ASSUMPTIONS = ["fractional (float) operands are observed only; F13 (seconds == 60.0 from float rounding) "
               "is a known finding reported in the fractional stream"]


class SubTP(Op):
    prop = PROP
    name = "subtp"
    sibling_rate = 0.12

    def sibling(self, a, rng):
        pos = rng.choice([1, 2])
        b = list(a)
        b[pos] = T.respell(rng, a[0], a[pos])
        return [tuple(b)]

    def gen(self, rng, tier, boost):
        n = 3000 * boost if tier == "quick" else 12000 * boost
        for _ in range(n):
            m = gens.mode(rng)
            a, b = T.gen_pair(rng, m)
            yield (m, a, b)
        for _ in range(n // 4):
            m = gens.mode(rng)
            p, q, _d = T.gen_year_edge_pair(rng, m)
            yield (m, q, p) if rng.random() < 0.5 else (m, p, q)
        for m in oracle.MODES:      # across year 0 and far
            for ya, yb in [(-1, 1), (0, 1), (-400, 400), (-5000, 5000), (1, 9999), (2000, -2000)]:
                yield (m, ("c", ya, 12, 30, 23, 59, 59, 0, 0), ("o", yb, 1, 0, 0, 0, 0, 5, 45))
                yield (m, ("w", ya, 1, 1, 0, 0, 1, -3, -30), ("c", yb, 1, 1, 24, 0, 0, 0, 0))

    def line(self, a):
        return "subtp %s %s %s" % (a[0], T.tp_str(a[1]), T.tp_str(a[2]))

    def impl(self, a):
        set_mode(a[0])
        p, q = T.mk_tp(a[1]), T.mk_tp(a[2])
        return T.canon_dur(p - q)

    def oracle(self, a, out):
        m, p, q = a
        what = "%s - %s in %s" % (T.describe_tp(p), T.describe_tp(q), m)
        if not out.startswith("U "):
            return "%s is not a day/time duration: %s" % (what, out)
        _, y, mo, d, h, mi, s = out.split()
        y, mo, d, h, mi, s = int(y), int(mo), int(d), int(h), int(mi), int(s)
        want = T.inst(m, p) - T.inst(m, q)
        if y or mo:
            return "%s has nominal units: %s" % (what, out)
        if d * 86400 + h * 3600 + mi * 60 + s != want:
            return "%s = %s is %d s long, the instants are %d s apart" % (
                what, out, d * 86400 + h * 3600 + mi * 60 + s, want)
        if not (abs(h) < 24 and abs(mi) < 60 and abs(s) < 60):
            return "%s = %s has a time unit out of range" % (what, out)
        vals = [d, h, mi, s]
        if any(v > 0 for v in vals) and any(v < 0 for v in vals):
            return "%s = %s mixes signs" % (what, out)

    def label(self, a):
        m, p, q = a
        return "subtp/%s/%s-%s/%s" % (m, p[0], q[0], "sameTZ" if p[7:] == q[7:] else "diffTZ")

    def nontrivial(self, a):
        m, p, q = a
        return p[0] != q[0] or p[7:] != q[7:] or p[6] < q[6] or p[5] < q[5] or p[4] < q[4]


class Identities(Op):
    """(a-b) == -(b-a); b + (a-b) == a; (p+d) - p == d for exact d."""
    prop = PROP
    name = "subident"
    model = False

    def gen(self, rng, tier, boost):
        n = 800 * boost if tier == "quick" else 4000 * boost
        for _ in range(n):
            m = gens.mode(rng)
            a, b = T.gen_pair(rng, m)
            yield (m, a, b, T.gen_exact_dur(rng))
        for _ in range(n // 3):       # operands near year boundaries, whole leap cycles apart among others
            m = gens.mode(rng)
            p, q, d = T.gen_year_edge_pair(rng, m)
            yield (m, q, p, d)

    def line(self, a):
        return "subident %s %s %s %s" % (a[0], T.tp_str(a[1]), T.tp_str(a[2]), T.dur_str(a[3]))

    def impl(self, a):
        set_mode(a[0])
        p, q, d = T.mk_tp(a[1]), T.mk_tp(a[2]), T.mk_dur(a[3])
        problems = []
        if not (p - q) == -1 * (q - p):
            problems.append("(a-b) != -(b-a): %s vs %s" % (p - q, q - p))
        if not (q + (p - q)) == p:
            problems.append("b + (a-b) != a")
        back = (p + d) - p
        if not back == d:
            problems.append("(p+d)-p = %s != d = %s" % (back, d))
        return "ok" if not problems else "; ".join(problems)

    def oracle(self, a, out):
        if out != "ok":
            return "%s, %s, %s in %s: %s" % (T.describe_tp(a[1]), T.describe_tp(a[2]),
                                            T.dur_str(a[3]), a[0], out)


class SubFrac(Op):
    """Float domain (not modelled): decimal-second operands; length to 1 us, fields in range."""
    prop = PROP
    name = "subfrac"
    model = False

    def gen(self, rng, tier, boost):
        for _ in range(500 * boost):
            m = gens.mode(rng)
            a, b = T.gen_pair(rng, m)
            if a[4] == 24 or b[4] == 24:
                continue
            yield (m, a, rng.randint(0, 999999), b, rng.randint(0, 999999))

    def line(self, a):
        return "subfrac %s %s %d %s %d" % (a[0], T.tp_str(a[1]), a[2], T.tp_str(a[3]), a[4])

    def mk(self, t, micro):
        from metomi.isodatetime.data import TimePoint
        rep, y, aa, b, hh, mi, ss, tzh, tzm = t
        kw = dict(year=y, hour_of_day=hh, minute_of_hour=mi, second_of_minute=ss,
                  second_of_minute_decimal=micro / 1e6, time_zone_hour=tzh, time_zone_minute=tzm)
        if not 0 <= y <= 9999:
            kw["num_expanded_year_digits"] = 3
        if rep == "c":
            kw.update(month_of_year=aa, day_of_month=b)
        elif rep == "o":
            kw.update(day_of_year=aa)
        else:
            kw.update(week_of_year=aa, day_of_week=b)
        return TimePoint(**kw)

    def impl(self, a):
        set_mode(a[0])
        d = self.mk(a[1], a[2]) - self.mk(a[3], a[4])
        return repr((d.days, float(d.hours), float(d.minutes), float(d.seconds)))

    def oracle(self, a, out):
        from fractions import Fraction
        m = a[0]
        if not out.startswith("("):
            return "fractional subtraction failed: " + out
        d, h, mi, s = eval(out)
        want = (T.inst(m, a[1]) + Fraction(a[2], 10 ** 6)) - (T.inst(m, a[3]) + Fraction(a[4], 10 ** 6))
        got = d * 86400 + Fraction(h) * 3600 + Fraction(mi) * 60 + Fraction(s)
        if abs(got - want) > Fraction(2, 10 ** 6):
            return "fractional subtraction is off by %.9f s" % float(got - want)
        if not (abs(h) < 24 and abs(mi) < 60 and abs(s) < 60):
            return "fractional subtraction: time unit out of range %r" % ((d, h, mi, s),)


def _f13(op, a, out, msg):
    # F13: only the float stream, only seconds == +-60.0 (everything else in range)
    if op.name != "subfrac" or "out of range" not in msg:
        return False
    d, h, mi, s = eval(out)
    return abs(s) == 60.0 and abs(h) < 24 and abs(mi) < 60


import qcommon as Q          # noqa: E402
from fractions import Fraction as _Fr   # noqa: E402
from props.c02 import gen_qpair   # noqa: E402


class SubQ(Op):
    """a - b on points with fractional / absent slots against the rational model subTPQ (Props/C02q:
    C04_sub_rat).  Compared: the length of the difference to the microsecond.  The property's shape
    clauses (|h| < 24, |m|, |s| < 60, one sign) are judged on the implementation's own answer; when the
    two operands denote exactly the same instant through slots binary64 cannot hold, the float answer
    is rounding noise of either sign (known finding F17: mixed signs, or RecursionError because both
    a > b and b > a hold)."""
    prop = PROP
    name = "subq"

    def from_corpus(self, a):
        return (a[0], Q.norm_point(a[1]), Q.norm_point(a[2]))

    def gen(self, rng, tier, boost):
        n = (2000 if tier == "quick" else 30000) * boost
        if getattr(self, "shard", None):
            n = n // self.shard[1] + 1
        for _ in range(n):
            m = gens.mode(rng)
            a, b = gen_qpair(rng, m)
            yield (m, a, b)

    def line(self, a):
        return "subq %s %s %s" % (a[0], Q.tokens(a[1]), Q.tokens(a[2]))

    def impl(self, a):
        set_mode(a[0])
        x, y = Q.mk_point(a[1]), Q.mk_point(a[2])
        try:
            d = x - y
        except RecursionError:
            self.last = None
            return "RecursionError"
        parts = (d.years, d.months, d.weeks if d.weeks is not None else 0, d.days, d.hours, d.minutes, d.seconds)
        self.last = parts
        total = 86400 * _Fr(parts[3]) + 3600 * _Fr(parts[4]) + 60 * _Fr(parts[5]) + _Fr(parts[6])
        if parts[0] or parts[1] or parts[2]:
            return "NOMINAL %r" % (parts,)
        return "len %d" % round(total * 10 ** 6)

    def canon_model(self, a, out):
        f = out.split()
        if len(f) != 4:
            return out
        if self.float_domain(a):
            # exactly equal instants through values binary64 cannot hold: the implementation's answer is
            # rounding noise (or RecursionError), judged by the oracle / known finding F17, not by the model
            return self.impl(a)
        d, h, mi, s_ = (Q.parse_q(t) for t in f)
        return "len %d" % round((86400 * d + 3600 * h + 60 * mi + s_) * 10 ** 6)

    def float_domain(self, a):
        return Q.float_noise_pair(a[0], a[1], a[2])

    def oracle(self, a, out):
        m, x, y = a
        want = Q.inst(m, x) - Q.inst(m, y)
        what = "%s - %s in %s" % (Q.describe(x), Q.describe(y), m)
        if not out.startswith("len "):
            return "%s failed: %s" % (what, out)
        if abs(int(out[4:]) - want * 10 ** 6) > 1:
            return "%s has length %s us, the instants differ by %s s" % (what, out[4:], float(want))
        _, _, _, d, h, mi, s_ = self.last
        if not (abs(h) < 24 and abs(mi) < 60 and abs(s_) < 60):
            return "%s: a time unit is out of range: %r" % (what, (d, h, mi, s_))
        if min(d, h, mi, s_) < 0 < max(d, h, mi, s_):
            return "%s: mixed signs: %r" % (what, (d, h, mi, s_))

    def label(self, a):
        return "subq/%s%s/%s" % (Q.form_of(a[1]), Q.form_of(a[2]),
                                 "equal" if Q.inst(a[0], a[1]) == Q.inst(a[0], a[2]) else "distinct")


def _f17sub(op, a, out, msg):
    """F17 in subtraction: exactly equal instants, a slot binary64 cannot hold: the float difference is
    rounding noise (mixed signs / seconds of 60 / RecursionError from the inconsistent comparison)."""
    if op.name != "subq":
        return False
    if not Q.float_noise_pair(a[0], a[1], a[2]):
        return False
    return "mixed signs" in msg or "RecursionError" in msg or "out of range" in msg


def _f13q(op, a, out, msg):
    """F13 seen through subq: only |seconds| == 60.0 exactly, everything else in range and the length right."""
    if op.name != "subq" or "out of range" not in msg:
        return False
    import re
    mt = re.search(r"out of range: \(([^)]*)\)", msg)      # (the op object of another shard is not at hand)
    if not mt:
        return False
    d, h, mi, s_ = (float(x) for x in mt.group(1).split(","))
    return abs(s_) == 60.0 and abs(h) < 24 and abs(mi) < 60


KNOWN_PREDICATES = {"float_rounding_seconds_sixty": lambda op, a, out, msg: _f13(op, a, out, msg) or _f13q(op, a, out, msg),
                    "float_equal_instants_compare_unequal": _f17sub}


def ops():
    return [SubTP(), Identities(), SubFrac(), SubQ()]
