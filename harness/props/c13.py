"""C13 — recurrence queries agree with iteration."""
import itertools
import oracle
import gens
import tpcommon as T
import reccommon as R
from engine import Op, set_mode

PROP = "C13"
LEAN_MODULES = ["IsoDT.Props.C13", "IsoDT.Props.C13b", "IsoDT.Props.C13c", "IsoDT.Props.C13mm", "IsoDT.Props.C13q", "IsoDT.Props.C13r"]
RULE = ("recurrences as in C12 x probe points before, on, between and after members, members re-expressed in "
        "another zone/representation, the last member, one second either side; non-trivial when the probe is "
        "within the span of the series; distinct by (op, arguments)")
K = 60
FUEL = 700


def gen_probe(rng, m, info, series):
    """A probe point relative to the series (list of strict tuples in iteration order)."""
    anchor = info["anchor"]
    r = rng.random()
    if series and r < 0.55:
        base = rng.choice(series[:K])
        if rng.random() < 0.35 and len(series) > 0:
            base = series[-1]
        delta = rng.choice([0, 0, 0, 1, -1, 60, -60, 3600])
    else:
        base = anchor
        d = info["interval"]
        unit = 86400 * 31 if not R.is_exact(d) else max(1, abs(T.dur_seconds(d) if d[0] == "U" else d[1] * 604800))
        delta = rng.choice([-400, -3, -1, 1, 2, 50, 300]) * unit + rng.choice([0, 0, 1, -1, 1800])
    tzh, tzm = gens.offset(rng) if rng.random() < 0.5 else (anchor[7], anchor[8])
    return T.tp_from_inst(m, T.inst(m, base) + delta, rng.choice("cow"), tzh, tzm)



def fuel_for(a):
    """Fuel for the model's iteration: the Python loops until its early exit, the model needs to be told
    how far (C13_is_valid_*_unbounded state which fuel suffices: more than (distance / interval))."""
    m, rec, info, probe = a[:4]
    info = dict(info)
    d = info["interval"]
    if info["reps"] is None and R.is_exact(d) and not R.is_zero(d):
        secs = abs(T.dur_seconds(d) if d[0] == "U" else d[1] * 7 * 86400)
        need = abs(T.inst(m, probe) - T.inst(m, info["anchor"])) // max(secs, 1) + 3
        return int(max(FUEL, min(need, 60000)))
    return FUEL


class RecProbe(Op):
    prop = PROP
    nominal = 0.3
    need_start = False
    members_only = False

    def gen(self, rng, tier, boost):
        n = 900 * boost if tier == "quick" else 4000 * boost
        for _ in range(n):
            m = gens.mode(rng)
            rec, info = R.gen_rec(rng, m, nominal=self.nominal, max_reps=25)
            if self.need_start and info["fmt"] == 4 and info["reps"] is None:
                continue
            series, rev = R.expected_series(m, info, K)
            if self.members_only:
                if not series:
                    continue
                base = rng.choice(series)
                tzh, tzm = gens.offset(rng) if rng.random() < 0.3 else (base[7], base[8])
                probe = T.tp_from_inst(m, T.inst(m, base), rng.choice("cow") if rng.random() < 0.3 else base[0],
                                       tzh, tzm)
            else:
                probe = gen_probe(rng, m, info, series)
            yield (m, rec, tuple(sorted(info.items())), probe)

    def known(self, a):
        """True when the recurrence is in the domain of known finding F5 (series itself differs)."""
        info = dict(a[2])
        return (not R.is_exact(info["interval"]) and info["reps"] is not None and info["reps"] >= 2
                and info["fmt"] in (3, 4))

    def series(self, a, k=K):
        return R.expected_series(a[0], dict(a[2]), k)

    def label(self, a):
        info = dict(a[2])
        kind = "exact" if R.is_exact(info["interval"]) else "nominal"
        return "%s/%s/fmt%d/%s/%s" % (self.name, a[0], info["fmt"], "bounded" if info["reps"] else "unbounded", kind)


class IsValid(RecProbe):
    name = "rvalid"
    sibling = T.tp_sibling(3)
    sibling_rate = 0.2

    def gen(self, rng, tier, boost):
        yield from RecProbe.gen(self, rng, tier, boost)
        # midnights: series anchored at 00:00 or at the 24:00 spelling, stepping by whole days / weeks / months /
        # years (or half days), probed at members written either way - the two spellings of a midnight are one
        # instant with different seconds-of-day
        n = 150 * boost if tier == "quick" else 1500 * boost
        for _ in range(n):
            m = gens.mode(rng)
            base = R.gen_anchor(rng, m)
            tzh, tzm = (base[7], base[8]) if rng.random() < 0.6 else gens.offset(rng)
            day = (T.inst(m, base) // 86400) * 86400 - (3600 * tzh + 60 * tzm)      # a local midnight
            anchor = T.tp_from_inst(m, day, base[0], tzh, tzm, use24=rng.random() < 0.5)
            d = rng.choice([("U", 0, 0, 1, 0, 0, 0), ("U", 0, 0, 1, 0, 0, 0), ("W", 1), ("U", 0, 1, 0, 0, 0, 0),
                            ("U", 1, 0, 0, 0, 0, 0), ("U", 0, 0, 0, 12, 0, 0), ("U", 0, 0, 2, 0, 0, 0)])
            fmt = rng.choice([3, 3, 4])
            reps = rng.choice([None, 3, 5, 12]) if R.is_exact(d) else None
            if fmt == 3:
                rec, info = (reps, anchor, d, None), dict(fmt=3, anchor=anchor, interval=d, reps=reps)
            else:
                rec, info = (reps, None, d, anchor), dict(fmt=4, anchor=anchor, interval=d, reps=reps)
            series, _rev = R.expected_series(m, info, 6)
            if not series:
                continue
            member = rng.choice(series)
            pz = (tzh, tzm) if rng.random() < 0.7 else gens.offset(rng)
            probe = T.tp_from_inst(m, T.inst(m, member) + rng.choice([0, 0, 0, 1, -1]), rng.choice([base[0], "c", "o", "w"]),
                                   pz[0], pz[1], use24=rng.random() < 0.6)
            yield (m, rec, tuple(sorted(info.items())), probe)
        # whole-year (and whole-month) steps from anchors next to a year boundary, probed at members written in
        # another representation - around New Year the ISO week-year of a day differs from its calendar year
        n2 = 150 * boost if tier == "quick" else 1500 * boost
        for _ in range(n2):
            m = gens.mode(rng)
            anchor = T.gen_year_edge_tp(rng, m, year=rng.choice([2000, 2004, 2005, 2009, 2010, 2015, 2016, 2020, 2021, 1999,
                                                                 rng.randint(1900, 2100)]))
            d = rng.choice([("U", 1, 0, 0, 0, 0, 0), ("U", 2, 0, 0, 0, 0, 0), ("U", 2, 0, 0, 0, 0, 0), ("U", 3, 0, 0, 0, 0, 0),
                            ("U", 4, 0, 0, 0, 0, 0), ("U", 5, 0, 0, 0, 0, 0), ("U", 0, 12, 0, 0, 0, 0), ("U", 0, 24, 0, 0, 0, 0)])
            fmt = rng.choice([3, 3, 4])
            if fmt == 3:
                rec, info = (None, anchor, d, None), dict(fmt=3, anchor=anchor, interval=d, reps=None)
            else:
                rec, info = (None, None, d, anchor), dict(fmt=4, anchor=anchor, interval=d, reps=None)
            series, _rev = R.expected_series(m, info, 6)
            if not series:
                continue
            member = rng.choice(series[1:] or series)
            rep = rng.choice([x for x in "cow" if x != anchor[0]])
            pz = (anchor[7], anchor[8]) if rng.random() < 0.6 else gens.offset(rng)
            probe = T.tp_from_inst(m, T.inst(m, member) + rng.choice([0, 0, 0, 0, 1, -86400]), rep, pz[0], pz[1],
                                   use24=rng.random() < 0.2)
            yield (m, rec, tuple(sorted(info.items())), probe)

    def line(self, a):
        return "rvalid %s %d %s %s" % (a[0], fuel_for(a), R.rec_line(a[1]), T.tp_str(a[3]))

    def impl(self, a):
        set_mode(a[0])
        return "1" if R.mk_rec(a[1]).get_is_valid(T.mk_tp(a[3])) else "0"

    def oracle(self, a, out):
        m, rec, info, probe = a
        if self.known(a):
            # F5's domain: the iterated series itself differs from the denoted one, but the property's
            # clause is about iteration - "true exactly when iteration yields a point equal to p" -
            # and a bounded recurrence can simply be iterated
            set_mode(m)
            point = T.mk_tp(probe)
            member = any(q == point for q in R.mk_rec(rec))
            if out != ("1" if member else "0"):
                return "get_is_valid(%s) on %s in %s gives %s, but iterating it %s an equal point" % (
                    T.describe_tp(probe), R.rec_line(rec), m, out, "yields" if member else "does not yield")
            return None
        info = dict(info)
        # membership by the series the property denotes (far enough to pass the probe)
        series, rev = R.expected_series(m, info, FUEL)
        member = any(T.inst(m, t) == T.inst(m, probe) for t in series)
        if len(series) == FUEL:
            last = T.inst(m, series[-1])
            if (rev and T.inst(m, probe) < last) or (not rev and T.inst(m, probe) > last):
                return None       # beyond what the oracle enumerated
        if out != ("1" if member else "0"):
            return "get_is_valid(%s) on %s in %s gives %s, iteration %s that instant" % (
                T.describe_tp(probe), R.rec_line(rec), m, out, "yields" if member else "does not yield")


class GetItem(Op):
    prop = PROP
    name = "ritem"

    def gen(self, rng, tier, boost):
        for _ in range(500 * boost):
            m = gens.mode(rng)
            if rng.random() < 0.25:
                rec, info = R.gen_sticky_rec(rng, m)
                yield (m, rec, tuple(sorted(info.items())), rng.choice([1, 2, 3, 4, 5, 6, 8, 9, 12]))
                continue
            rec, info = R.gen_rec(rng, m, max_reps=12)
            yield (m, rec, tuple(sorted(info.items())), rng.choice([0, 1, 2, 3, 5, 11, 12, 13, 29]))

    def line(self, a):
        return "ritem %s %d %s" % (a[0], a[3], R.rec_line(a[1]))

    def impl(self, a):
        set_mode(a[0])
        try:
            return T.canon_tp(R.mk_rec(a[1])[a[3]])
        except IndexError:
            return "IndexError"

    def oracle(self, a, out):
        m, rec, info, i = a
        info = dict(info)
        if (not R.is_exact(info["interval"]) and info["reps"] is not None and info["reps"] >= 2):
            return None
        series, _ = R.expected_series(m, info, i + 1)
        if i < len(series):
            if out == "IndexError" or not R.same_point(m, T.parse_tp(out), series[i]):
                return "r[%d] of %s in %s = %s, the %d-th iterated point is %s" % (
                    i, R.rec_line(rec), m, out, i, T.describe_tp(series[i]))
        elif out != "IndexError":
            return "r[%d] of %s in %s = %s but the series has only %d points" % (i, R.rec_line(rec), m, out, len(series))

    def label(self, a):
        return "ritem/%s/fmt%d" % (a[0], dict(a[2])["fmt"])


class Next(RecProbe):
    """get_next / get_prev from a member: the adjacent member, None at the ends."""
    name = "rnext"
    members_only = True
    direction = 1

    def line(self, a):
        return "%s %s %s %s" % (self.name, a[0], R.rec_line(a[1]), T.tp_str(a[3]))

    def impl(self, a):
        set_mode(a[0])
        rec = R.mk_rec(a[1])
        p = T.mk_tp(a[3])
        q = rec.get_next(p) if self.direction > 0 else rec.get_prev(p)
        return "_" if q is None else T.canon_tp(q)

    def oracle(self, a, out):
        if self.known(a):
            return None
        m, rec, info, probe = a
        info = dict(info)
        exact = R.is_exact(info["interval"])
        if not exact and (probe[0] != info["anchor"][0] or probe[7:] != info["anchor"][7:]):
            return None     # nominal steps are only claimed in the recurrence's own representation and offset
        series, rev = R.expected_series(m, info, FUEL)
        insts = [T.inst(m, t) for t in series]
        if T.inst(m, probe) not in insts:
            return None
        i = insts.index(T.inst(m, probe))
        # direction in iteration order
        forward_in_series = (self.direction > 0) != rev
        if not exact and not forward_in_series:
            return None     # month/year intervals: only the direction of iteration is claimed
        j = i + 1 if forward_in_series else i - 1
        if len(series) == FUEL and j >= FUEL:
            return None
        want = None if (j < 0 or j >= len(series)) else insts[j]
        single = info["reps"] == 1 or R.is_zero(info["interval"])
        if single:
            want = None
        got = None if out == "_" else T.inst(m, T.parse_tp(out)) if out[:1] in "cow" else "?"
        if got != want:
            return "%s(%s) on %s in %s gives %s, the adjacent member is %s" % (
                "get_next" if self.direction > 0 else "get_prev", T.describe_tp(probe), R.rec_line(rec), m, out,
                "None" if want is None else "at instant %d" % want)


class Prev(Next):
    name = "rprev"
    direction = -1


class FirstAfter(RecProbe):
    sibling = T.tp_sibling(3)
    sibling_rate = 0.2
    name = "rfirst"
    need_start = True

    def line(self, a):
        return "rfirst %s %d %s %s" % (a[0], fuel_for(a), R.rec_line(a[1]), T.tp_str(a[3]))

    def impl(self, a):
        set_mode(a[0])
        q = R.mk_rec(a[1]).get_first_after(T.mk_tp(a[3]))
        return "_" if q is None else T.canon_tp(q)

    def oracle(self, a, out):
        if self.known(a):
            return None
        m, rec, info, probe = a
        info = dict(info)
        series, rev = R.expected_series(m, info, FUEL)
        if rev:
            return None
        insts = [T.inst(m, t) for t in series]
        later = [x for x in insts if x > T.inst(m, probe)]
        if len(series) == FUEL and not later:
            return None
        want = min(later) if later else None
        got = None if out == "_" else (T.inst(m, T.parse_tp(out)) if out[:1] in "cow" else "?")
        if got != want:
            return "get_first_after(%s) on %s in %s gives %s, the earliest later member is %s" % (
                T.describe_tp(probe), R.rec_line(rec), m, out, "None" if want is None else "at instant %d" % want)


class QuerySeq(Op):
    """Several queries on ONE recurrence object, one after the other (an application keeps its recurrence): the
    answers must be what fresh objects give - membership, first-after, next / prev, indexing in any order."""
    prop = PROP
    name = "rqueryseq"
    model = False

    def gen(self, rng, tier, boost):
        n = 400 * boost if tier == "quick" else 4000 * boost
        for _ in range(n):
            m = gens.mode(rng)
            rec, info = R.gen_rec(rng, m, nominal=0.25, max_reps=12)
            d = info["interval"]
            if d[0] == "U" and d[3] >= 36500:
                continue
            series, _rev = R.expected_series(m, info, 8)
            if len(series) < 2:
                continue
            probes = []
            for _ in range(rng.randint(3, 7)):
                base = rng.choice(series)
                delta = rng.choice([0, 0, 0, 0, 1, -1, 3600])
                tzh, tzm = (base[7], base[8]) if rng.random() < 0.6 else gens.offset(rng)
                probes.append((rng.choice(["valid", "valid", "valid", "first", "item"]),
                               T.tp_from_inst(m, T.inst(m, base) + delta, rng.choice("cow"), tzh, tzm),
                               rng.randint(0, 7)))
            yield (m, rec, tuple(sorted(info.items())), tuple(probes))

    def line(self, a):
        return "rqueryseq %s %s | %s" % (a[0], R.rec_line(a[1]), " ; ".join(
            "%s %s %d" % (k, T.tp_str(p), i) for k, p, i in a[3]))

    @staticmethod
    def ask(rec, kind, probe, idx):
        if kind == "valid":
            return "1" if rec.get_is_valid(T.mk_tp(probe)) else "0"
        if kind == "first":
            if rec.start_point is None:
                return "-"
            q = rec.get_first_after(T.mk_tp(probe))
            return "_" if q is None else T.canon_tp(q)
        try:
            return T.canon_tp(rec[idx])
        except IndexError:
            return "IndexError"

    def impl(self, a):
        m, rec, info, probes = a
        set_mode(m)
        kept = R.mk_rec(rec)
        problems = []
        outs = []
        for k, (kind, probe, idx) in enumerate(probes):
            got = self.ask(kept, kind, probe, idx)
            fresh = self.ask(R.mk_rec(rec), kind, probe, idx)
            outs.append(got)
            if got != fresh:
                problems.append("query %d (%s %s %d): the kept object answers %s, a fresh one %s" % (
                    k, kind, T.describe_tp(probe), idx, got, fresh))
        return " ; ".join(outs) + (" PROBLEMS: " + " | ".join(problems[:3]) if problems else "")

    def oracle(self, a, out):
        if "PROBLEMS" in out or out.startswith(("err", "EXC", "Timeout")):
            return "%s in %s: %s" % (R.rec_line(a[1]), a[0], out)

    def label(self, a):
        info = dict(a[2])
        return "rqueryseq/%s/fmt%d/%s" % (a[0], info["fmt"], "bounded" if info["reps"] else "unbounded")


class QueryFrac(Op):
    """Queries with a sub-second part: a probe between 0 and 1 s away from a member (dyadic eighths of a second, so
    binary64 is exact) is NOT a member; a member reached with a fractional interval IS.  get_is_valid, get_next,
    get_prev and get_first_after must answer as iteration does - on whole-second series probed with decimal seconds
    and on series whose start or interval carries the fraction."""
    prop = PROP
    name = "rqueryfrac"
    model = False

    def gen(self, rng, tier, boost):
        n = 400 * boost if tier == "quick" else 5000 * boost
        for _ in range(n):
            m = gens.mode(rng)
            anchor = R.gen_anchor(rng, m)
            anchor = T.tp_from_inst(m, T.inst(m, anchor), anchor[0], anchor[7], anchor[8])
            start8 = rng.choice([0, 0, 0, 4, 1, 7])                 # eighths of a second on the start
            step8 = rng.choice([8, 8 * 60, 8 * 3600, 8 * 21600, 12, 4, 2, 20, 8 * 90 + 4, 8 * 86400])
            reps = rng.choice([None, None, None, 2, 3, 5, 9])
            fmt = rng.choice([3, 3, 3, 4])
            j = rng.choice([0, 1, 2, 3, 4, 8, 9, -1])
            e8 = rng.choice([0, 0, 1, 4, 7, -1, -4, 8, 3])           # eighths of a second off the lattice point
            yield (m, anchor, start8, step8, reps, fmt, j, e8)

    def line(self, a):
        return "rqueryfrac %s %s +%d/8s step %d/8s reps=%s fmt%d probe j=%d e=%d/8" % (
            a[0], T.tp_str(a[1]), a[2], a[3], a[4], a[5], a[6], a[7])

    def build(self, a):
        from metomi.isodatetime.data import TimeRecurrence, Duration
        m, anchor, start8, step8, reps, fmt, j, e8 = a
        p = T.mk_tp(anchor) + Duration(seconds=start8 / 8.0)
        d = Duration(seconds=step8 / 8.0)
        rec = TimeRecurrence(repetitions=reps, start_point=p, duration=d) if fmt == 3 else \
            TimeRecurrence(repetitions=reps, duration=d, end_point=p)
        sign = 1 if fmt == 3 else -1
        probe = p + Duration(seconds=(sign * j * step8 + e8) / 8.0)
        return p, rec, probe

    def impl(self, a):
        from fractions import Fraction
        set_mode(a[0])
        p, rec, probe = self.build(a)

        def rel(q):
            if q is None:
                return "None"
            return str(Fraction((q - p).get_seconds()).limit_denominator(64) * 8)
        # (get_first_after is defined for series that have a start point: C13_first_after_exact)
        first = rel(rec.get_first_after(probe)) if rec.start_point is not None else "n/a"
        return "valid=%s next=%s prev=%s first=%s" % (rec.get_is_valid(probe), rel(rec.get_next(probe)),
                                                       rel(rec.get_prev(probe)), first)

    def oracle(self, a, out):
        m, anchor, start8, step8, reps, fmt, j, e8 = a
        if out.startswith(("err", "EXC", "Timeout")):
            return "%s failed: %s" % (self.line(a), out)
        sign = 1 if fmt == 3 else -1
        x = sign * j * step8 + e8             # probe's offset from the anchor point, in eighths of a second
        # the members' offsets: k*step8 for k in the index range of the notation
        if fmt == 3:
            def member(v):
                return v % step8 == 0 and v >= 0 and (reps is None or v // step8 < reps)
        else:
            def member(v):
                return v % step8 == 0 and v <= 0 and (reps is None or -v // step8 < reps)
        got = dict(item.split("=") for item in out.split())
        want_valid = member(x)
        if got["valid"] != str(want_valid):
            return "%s: get_is_valid gives %s; the probe is %s of the series (offset %d/8 s from the anchor)" % (
                self.line(a), got["valid"], "a member" if want_valid else "NOT a member", x)
        if got["first"] != "n/a" and fmt == 3 and step8 > 0 and (start8 + x) % 8 == 0:
            # (the property claims get_first_after for whole-second probes; the series may carry fractions)
            # the earliest member strictly later than the probe
            k = max(0, x // step8 + 1)
            want_first = k * step8 if (reps is None or k < reps) else None
            if got["first"] != ("None" if want_first is None else str(want_first)):
                return "%s: get_first_after gives offset %s/8 s, the earliest later member is at %s" % (
                    self.line(a), got["first"], want_first)
        if not want_valid:
            return None          # neighbours are claimed from a member only
        nxt = x + step8 if member(x + step8) else None
        prv = x - step8 if member(x - step8) else None
        for name, want in (("next", nxt), ("prev", prv)):
            if got[name] != ("None" if want is None else str(want)):
                return "%s: get_%s gives offset %s/8 s, iteration gives %s" % (self.line(a), name, got[name], want)
        return None

    def label(self, a):
        return "rqueryfrac/%s/fmt%d/%s/%s" % (a[0], a[5], "unbounded" if a[4] is None else "bounded",
                                              "on" if a[7] % a[3] == 0 else "off")


class DerivedInterval(Op):
    """The interval of the recurrence is a Duration WITH A PAST: it was asked for its length, compared, hashed and
    printed, and then another Duration was derived from it by +, -, * or // - the value a client computes a step
    from.  Every query on the recurrence built with the derived interval must answer exactly as on the recurrence
    built with the same interval constructed afresh from its fields."""
    prop = PROP
    name = "rderivedint"
    model = False

    def gen(self, rng, tier, boost):
        n = 300 * boost if tier == "quick" else 3000 * boost
        for _ in range(n):
            m = gens.mode(rng)
            anchor = R.gen_anchor(rng, m)
            anchor = T.tp_from_inst(m, T.inst(m, anchor), anchor[0], anchor[7], anchor[8])
            base = (rng.choice([0, 1, 2]), rng.choice([0, 5, 6, 12]), rng.choice([0, 30]), rng.choice([0, 0, 15]))
            other = (rng.choice([0, 1]), rng.choice([0, 1, 3, 6]), rng.choice([0, 15, 30]), 0)
            how = rng.choice(["add", "sub", "mul", "floordiv", "radd"])
            k = rng.choice([2, 3, 4])
            reps = rng.choice([None, 5, 9, 12])
            j = rng.randint(0, 6)
            off = rng.choice([0, 0, 1, -1, 1800, 3600])
            yield (m, anchor, base, other, how, k, reps, j, off)

    def line(self, a):
        return "rderivedint %s %s base=%r other=%r %s k=%d reps=%s probe=member %d %+d s" % (
            a[0], T.tp_str(a[1]), a[2], a[3], a[4], a[5], a[6], a[7], a[8])

    def impl(self, a):
        from metomi.isodatetime.data import TimeRecurrence, Duration
        m, anchor, base, other, how, k, reps, j, off = a
        set_mode(m)

        def dur(t):
            return Duration(days=t[0], hours=t[1], minutes=t[2], seconds=t[3])
        d1, d2 = dur(base), dur(other)
        # the past of d1
        d1.get_seconds(), d1.get_days_and_seconds(), hash(d1), str(d1), d1 == d2, d1 > d2
        if how == "add":
            d = d1 + d2
        elif how == "radd":
            d = d2 + d1
        elif how == "sub":
            d = d1 - d2
        elif how == "mul":
            d = d1 * k
        else:
            d = d1 // k
        fresh = Duration(days=d.days, hours=d.hours, minutes=d.minutes, seconds=d.seconds)
        if not fresh.get_seconds() > 0:
            return "skip"
        p = T.mk_tp(anchor)
        outs = []
        for interval in (d, fresh):
            rec = TimeRecurrence(repetitions=reps, start_point=p, duration=interval)
            probe = p + fresh * j + Duration(seconds=off)
            outs.append("%s|%s|%s|%s|%s|%s" % (interval.get_seconds(), rec.get_is_valid(probe),
                                              rec.get_first_after(probe), rec.get_next(probe), rec.get_prev(probe),
                                              [str(q) for q in itertools.islice(rec, 4)]))
        return "same" if outs[0] == outs[1] else "DIFFERENT derived: %s fresh: %s" % (outs[0], outs[1])

    def oracle(self, a, out):
        if out not in ("same", "skip"):
            return "%s: %s" % (self.line(a), out)

    def label(self, a):
        return "rderivedint/%s/%s" % (a[0], a[4])


def ops():
    import recmm
    import recqops
    return [IsValid(), GetItem(), Next(), Prev(), FirstAfter(), QuerySeq(), QueryFrac(), DerivedInterval(),
            recmm.RecMMOp(PROP, "mmquery", ["mmritem", "mmrvalid", "mmrvalid", "mmrnext", "mmrprev", "mmrfirst", "mmrfirst"], 700),
            recqops.RecQOp(PROP, "rqueryq", ["rvalidq", "rvalidq", "ritemq", "rfirstq", "rfirstq"], 500)]
