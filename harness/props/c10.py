"""C10 — durations survive a round trip through text.

Line protocol (driver module lean/IsoDT/Driver/DurText.lean).  A string argument travels as ONE
token: the letter `x` followed by the code points in lower-case hex separated by `.`
(`x50.31.59` is "P1Y", a bare `x` is the empty string), so blanks, newlines and non-ASCII survive.

  dstr   U y mo d h mi s | W w        str(Duration) of any integer duration (mixed signs included)
  drt    <mode> <Dur>                 text | parse(text) | fix=b               (single-signed only)
  dparse <mode> <xstr>                U ... | W w | syntax | value | outside
  dalt   <mode> <xstr> <xstr>         the date-time-like spelling and its designator spelling
  dregex <i> <xstr>                   DURATION_REGEXES[i].search: none | match unit=<xstr> ...
  f64    <n>                          float("<digits>") of a natural number, as an integer

Oracle-only streams (model = False, "observed, not proved"): `drteq` (the library's own == / !=
between parse(str(d)) and d: Python evaluates the length in binary64 once a slot is a float, which
the integer model does not follow), `dfloat` (decimal hours / minutes / seconds: Duration -> text ->
Duration, judged with the float repr law) and `dfparse` (decimal designator strings with comma or
point, judged with exact Fractions; decimal / reduced / zoned alternative spellings).

`outside` is what the Lean model answers where it makes no claim (decimal or otherwise non-digit
float text that float() might accept, non-ASCII input, alternative spellings other than the four
complete forms whose date part could be a date expression, digit strings that overflow binary64);
`model_domain` below mirrors that rule on the Python side (with the live regexes through `re`) so
the two can be compared on everything else, including the malformed stream: ISO8601SyntaxError is
`syntax`, the ValueError of float() / of the two-T unpacking is `value`.

The oracles judge the property's own clauses independently of the model: `exp_text` (what the
designators prescribe for an integer duration), `decode_strict` (a hand-written scanner for the
strict designator grammar; no regex), `sem` (what Duration equality looks at), the alternative
spelling's fields as generated, "a leading '-' negates every field".
"""
import re
import json
from fractions import Fraction

import common
import gens
import gen_durregex
from engine import Op, set_mode

gen_durregex.register()     # translate.main() regenerates Gen/DurRegex.lean on every check run

PROP = "C10"
FOREIGN_FIRST = True
LEAN_MODULES = ["IsoDT.Props.C10", "IsoDT.Props.C10b", "IsoDT.Props.C10c"]
REQUIRED_THEOREMS = ["IsoDT.Props.C10." + n for n in (
    "C10_roundtrip", "C10_designators", "C10_designators_weeks", "C10_alt", "C10_alt_canonical",
    "C10_str_negative", "C10_roundtrip_counter_beyond_binary64", "C10_mixed_sign_unparseable_example")]
RULE = ("integer Durations: every absent/small/boundary pattern of the six units x sign + week form + "
        "magnitudes up to 10^40 (hours/minutes/seconds beyond 2^53 only where exactly representable, or "
        "when the binary64 finding is registered); designator strings built from structured fields with "
        "leading zeros / long digit runs / sign / T quirks; the four complete alternative spellings over "
        "full field ranges; character-level mutations of all of these (malformed stream); the three "
        "regexes against re on the same strings; decimal components observed with Fractions. Distinct by "
        "(op, arguments); non-trivial when more than one unit is present or a sign/zero/rounding boundary "
        "is involved")
ASSUMPTIONS = [
    "integer components are proved; decimal (float) hours/minutes/seconds are observed only (dfloat, "
    "dfparse: exact Fractions / float repr round-trip law), not proved",
    "float('<ASCII digits>') is the correctly rounded binary64 value (CPython); the Lean model computes "
    "that rounding (f64Nat) and is compared with it on every run (op f64)",
    "CPython's int<->str conversion limit (sys.int_max_str_digits, 4300 digits) is outside the model: "
    "components are taken below 10^4300",
    "the alternative spelling is modelled for the complete calendar/ordinal forms with whole seconds; "
    "reduced, decimal, zoned and expanded-year forms are observed only",
    "the Lean matcher is CPython `re` for the regex shapes of Gen/DurRegex.lean: checked differentially "
    "(op dregex), not proved",
]
TRUSTED_EXTRA = ["harness/gen_durregex.py (re._parser tree of the live DURATION_REGEXES -> Gen/DurRegex.lean)"]
EXPLANATION = ("C10_roundtrip: every single-signed integer Duration whose h/m/s are exactly representable in "
               "binary64; C10_designators(+_weeks): every designator string over arbitrary ASCII digit runs, "
               "either sign; C10_alt: all four complete alternative spellings; counter-witness for h/m/s "
               "integers beyond 2^53 (float-domain finding).")

TWO53 = 2 ** 53
F_OVER = 2 ** 1023
INT_KEYS = ("years", "months", "days", "weeks")
UNITS6 = ("years", "months", "days", "hours", "minutes", "seconds")
DIG = "0123456789"
MODES = ["greg", "d360", "d365", "d366"]
ALT_RE = re.compile(
    r"[0-9]{4}-[0-9]{2}-[0-9]{2}T[0-9]{2}:[0-9]{2}:[0-9]{2}|[0-9]{8}T[0-9]{6}|"
    r"[0-9]{4}-[0-9]{3}T[0-9]{2}:[0-9]{2}:[0-9]{2}|[0-9]{7}T[0-9]{6}")
DATE_CHARS = DIG + "W+-\n"
FINDING_PRED = "hms_integer_beyond_binary64"


def _finding_registered():
    try:
        with open(common.KNOWN_FINDINGS) as handle:
            data = json.load(handle)
    except (OSError, ValueError):
        return False
    return any(f.get("property") == PROP and f.get("predicate") == FINDING_PRED
               for f in data.get("findings", []))


# ---------------------------------------------------------------------------
# encoding, canonical forms

def enhex(s):
    return "x" + ".".join("%x" % ord(c) for c in s)


def all_digits(s):
    return bool(s) and all(c in DIG for c in s)


def representable(n):
    """Is the integer n exactly a binary64 value?"""
    n = abs(n)
    return n < F_OVER and int(float(n)) == n


def _comp(x):
    """Canonical text of one Duration slot: integers (also integer-valued floats) as integers."""
    if isinstance(x, bool):
        return "BOOL"
    if isinstance(x, int):
        return str(x)
    if isinstance(x, float):
        if x != x or x in (float("inf"), float("-inf")):
            return "f:" + repr(x)
        if x == int(x):
            return str(int(x))
        return "f:" + repr(x)
    return "?:" + type(x).__name__


def canon_dur(d):
    if d.get_is_in_weeks():
        return "W " + _comp(d._weeks)
    return "U " + " ".join(_comp(getattr(d, a)) for a in
                           ("_years", "_months", "_days", "_hours", "_minutes", "_seconds"))


def parse_outcome(text):
    """Run the real DurationParser.parse; canonical outcome."""
    from metomi.isodatetime.parsers import DurationParser
    from metomi.isodatetime.exceptions import ISO8601SyntaxError
    try:
        return canon_dur(DurationParser().parse(text))
    except ISO8601SyntaxError:
        return "syntax"
    except ValueError:
        return "value"


def mk_dur(d, fl=0):
    """A real Duration from ("W", w) | ("U", y, mo, d, h, mi, s); fl=1 passes the time units as floats
    where that is exact (the library's own parser always produces floats there)."""
    from metomi.isodatetime.data import Duration
    if d[0] == "W":
        return Duration(weeks=d[1])
    _, y, mo, dd, h, mi, s = d
    if fl:
        h, mi, s = [float(v) if representable(v) else v for v in (h, mi, s)]
    return Duration(years=y, months=mo, days=dd, hours=h, minutes=mi, seconds=s)


def dur_str(d):
    return " ".join(str(x) for x in d)


# ---------------------------------------------------------------------------
# independent reading of the property's clauses

def exp_text(d):
    """The text ISO 8601 designators prescribe for an integer duration (the reading of
    Duration.__str__ in the property): P0Y when empty, one leading '-' when nothing is positive,
    PnW for the week form, T only before time units, zero units omitted."""
    vals = d[1:]
    if all(v == 0 for v in vals):
        return "P0Y"
    if all(v <= 0 for v in vals):
        return "-" + exp_text((d[0],) + tuple(-v for v in vals))
    if d[0] == "W":
        return "P%dW" % d[1]
    date = "".join("%d%s" % (v, u) for v, u in zip(vals[:3], "YMD") if v)
    time = "".join("%d%s" % (v, u) for v, u in zip(vals[3:], "HMS") if v)
    return "P" + date + ("T" + time if time else "")


def sem(d):
    """What Duration equality looks at: (years, months, exact seconds)."""
    if d[0] == "W":
        return (0, 0, d[1] * 7 * 86400)
    _, y, mo, dd, h, mi, s = d
    return (y, mo, dd * 86400 + h * 3600 + mi * 60 + s)


def single_signed(d):
    vals = d[1:]
    return all(v >= 0 for v in vals) or all(v <= 0 for v in vals)


def canon_to_tuple(text):
    """'U 1 2 3 4 5 6' / 'W 3' -> tuple of ints, or None (non-integral, error ...)."""
    parts = text.split()
    try:
        if parts and parts[0] == "W" and len(parts) == 2:
            return ("W", int(parts[1]))
        if parts and parts[0] == "U" and len(parts) == 7:
            return ("U",) + tuple(int(x) for x in parts[1:])
    except ValueError:
        return None
    return None


def decode_strict(text):
    """Hand-written scanner (no regex) for the strict designator grammar
         [-] P [nY] [nM] [nD] [ T [xH] [xM] [xS] ]   |   [-] P n W
       n = ASCII digits, x = digits [(,|.) digits]; at least one component, and at least one time
       component after T.  Returns (sign, form, {unit: (int_text, frac_text or None)}) or None."""
    i = 0
    sign = 1
    if text.startswith("-"):
        sign, i = -1, 1
    if i >= len(text) or text[i] != "P":
        return None
    i += 1

    def number(j, decimal):
        k = j
        while k < len(text) and text[k] in DIG:
            k += 1
        if k == j:
            return None
        whole, frac = text[j:k], None
        if decimal and k < len(text) and text[k] in ",.":
            k2 = k + 1
            while k2 < len(text) and text[k2] in DIG:
                k2 += 1
            if k2 == k + 1:
                return None
            frac, k = text[k + 1:k2], k2
        return whole, frac, k

    fields = {}
    got = number(i, False)
    if got and got[2] < len(text) and text[got[2]] == "W":
        if got[2] + 1 != len(text):
            return None
        return sign, "W", {"weeks": (got[0], None)}
    for unit, name in (("Y", "years"), ("M", "months"), ("D", "days")):
        got = number(i, False)
        if got and got[2] < len(text) and text[got[2]] == unit:
            fields[name] = (got[0], None)
            i = got[2] + 1
    form = "D"
    if i < len(text) and text[i] == "T":
        form = "T"
        i += 1
        ntime = 0
        for unit, name in (("H", "hours"), ("M", "minutes"), ("S", "seconds")):
            got = number(i, True)
            if got and got[2] < len(text) and text[got[2]] == unit:
                fields[name] = (got[0], got[1])
                i = got[2] + 1
                ntime += 1
        if not ntime:
            return None
    if i != len(text) or not fields:
        return None
    return sign, form, fields


def decoded_value(sign, fields):
    """Expected slot values of a strictly well-formed designator string: exact ints for the date
    units, the nearest binary64 to the written decimal for the time units (float repr/parse law)."""
    if "weeks" in fields:
        return ("W", sign * int(fields["weeks"][0]))
    vals = []
    for name in UNITS6:
        if name not in fields:
            vals.append(0)
            continue
        whole, frac = fields[name]
        if name in INT_KEYS:
            vals.append(sign * int(whole))
        else:
            exact = Fraction(int(whole + (frac or "")), 10 ** len(frac or ""))
            try:
                vals.append(sign * float(exact))
            except OverflowError:
                vals.append(sign * float("inf"))
    return ("U",) + tuple(vals)


def canon_expected(val):
    return val[0] + " " + " ".join(_comp(v) for v in val[1:])


def live_regexes():
    from metomi.isodatetime.parsers import DurationParser
    return list(DurationParser.DURATION_REGEXES)


HOPELESS_OK = set(DIG + ".,eE+-_")


def hopeless(c):
    return 33 <= ord(c) <= 126 and c not in HOPELESS_OK


def model_domain(text):
    """Mirror of the Lean model's `outside` rule (IsoDT/Model/DurText.lean `parse`), evaluated with
    the live regexes through `re`: True = the model makes a claim about this string."""
    if any(ord(c) >= 128 for c in text):
        return False
    sign = 1
    e = text
    if e.startswith("-"):
        sign, e = -1, e[1:]
    for rx in live_regexes():
        mt = rx.search(e)
        if not mt:
            continue
        for key, value in mt.groupdict().items():
            if value is None:
                continue
            if key in INT_KEYS:
                if not all_digits(value):
                    return False
            elif all_digits(value):
                if int(value) >= F_OVER:
                    return False
            elif any(hopeless(c) for c in value):
                return True          # the model predicts the ValueError of float()
            else:
                return False
        return True
    if e.startswith("P") and sign == 1:
        rest = e[1:]
        if ALT_RE.fullmatch(rest) or rest.count("T") >= 2:
            return True
        date = rest.split("T")[0]
        return date == "" or any(c not in DATE_CHARS for c in date)
    return True


# ---------------------------------------------------------------------------
# generators

MAG_ANY = [1, 2, 9, 10, 11, 12, 23, 24, 59, 60, 61, 99, 100, 101, 365, 366, 999, 1000, 9999, 10000,
           86400, 10 ** 9, 2 ** 31, 2 ** 32 + 1, TWO53 - 1, TWO53, TWO53 + 1, 2 ** 63, 2 ** 64 + 1,
           10 ** 20 + 7, 10 ** 40 + 1]
MAG_SAFE = [v for v in MAG_ANY if v <= TWO53]
MAG_REPR_BIG = [TWO53 + 2, 2 ** 60, 2 ** 63, 2 ** 80, 3 * 2 ** 70, 10 ** 22]     # exactly representable
MAG_UNREPR = [TWO53 + 1, TWO53 + 3, 2 ** 64 + 1, 10 ** 20 + 7, 10 ** 40 + 1, 10 ** 23]


def mag(rng, time_unit, allow_unrepr):
    r = rng.random()
    if r < 0.45:
        v = rng.choice(MAG_ANY if not time_unit else MAG_SAFE)
    elif r < 0.75:
        v = rng.randint(1, 100)
    elif r < 0.9:
        v = rng.randint(1, 10 ** 6)
    elif time_unit:
        v = rng.choice(MAG_REPR_BIG + (MAG_UNREPR if allow_unrepr else []))
    else:
        v = rng.randint(1, 10 ** rng.randint(7, 45))
    return v


SEC_EDGE = {2: [TWO53 // 86400, TWO53 // 86400 - 1], 3: [TWO53 // 3600], 4: [TWO53 // 60], 5: [TWO53, TWO53 - 1]}


def binary64_exact(d):
    """Python evaluates the exact length of a duration with float slots in binary64: exact as long as
    every slot and the total number of seconds stay within 2^53."""
    if d[0] == "W":
        return True
    return all(representable(v) for v in d[4:7]) and abs(sem(d)[2]) <= TWO53


def gen_intdur(rng, mixed=False, allow_unrepr=False, exact_only=False):
    """An integer duration tuple; single-signed unless mixed; exact_only keeps the exact length
    within binary64 (biased to that boundary)."""
    if exact_only:
        for _ in range(50):
            d = gen_intdur(rng, mixed, False)
            if d[0] == "U" and rng.random() < 0.08:
                k = rng.choice([2, 3, 4, 5])
                vals = [0] * 6
                vals[k] = rng.choice(SEC_EDGE[k])
                if k != 5 and rng.random() < 0.5:
                    vals[5] = TWO53 - vals[k] * (86400, 3600, 60)[k - 2] - rng.randrange(2)
                d = ("U",) + tuple(-v if d[1:] < (0,) * 6 else v for v in vals)
            if binary64_exact(d):
                return d
        return ("U", 0, 0, 1, 0, 0, 0)
    r = rng.random()
    if r < 0.03:
        return rng.choice([("U", 0, 0, 0, 0, 0, 0), ("W", 0)])
    neg = rng.random() < 0.4
    if r < 0.15:
        w = mag(rng, False, False)
        return ("W", -w if neg else w)
    pres = rng.random()
    p = 0.2 if pres < 0.3 else (0.5 if pres < 0.7 else 0.9)
    vals = []
    for k in range(6):
        if rng.random() < p:
            vals.append(mag(rng, k >= 3, allow_unrepr))
        else:
            vals.append(0)
    if not any(vals):
        vals[rng.randrange(6)] = mag(rng, False, False) if rng.random() < 0.5 else 1
        if vals[3] > TWO53 or vals[4] > TWO53 or vals[5] > TWO53:
            vals[3:] = [min(v, 7) for v in vals[3:]]
    if mixed:
        vals = [-v if rng.random() < 0.5 else v for v in vals]
    elif neg:
        vals = [-v for v in vals]
    return ("U",) + tuple(vals)


def digit_text(rng, time_unit):
    """A run of ASCII digits: short, zero-padded, zero, long."""
    r = rng.random()
    if r < 0.5:
        s = str(rng.randint(0, 99))
    elif r < 0.65:
        s = "0" * rng.randint(1, 3) + str(rng.randint(0, 9999))
    elif r < 0.8:
        s = str(rng.choice(MAG_ANY + MAG_UNREPR + MAG_REPR_BIG))
    elif r < 0.9:
        s = "".join(rng.choice(DIG) for _ in range(rng.randint(1, 12)))
    elif r < 0.97:
        s = "".join(rng.choice(DIG) for _ in range(rng.randint(13, 60)))
    else:
        s = rng.choice("123456789") + "".join(rng.choice(DIG) for _ in range(rng.choice([307, 308, 309, 320])))
        if not time_unit:
            s = s[:rng.randint(20, 80)]
    return s


def gen_designator(rng):
    """(text, expected canonical outcome) of a strictly well-formed integer designator string."""
    sign = -1 if rng.random() < 0.3 else 1
    pre = "-" if sign < 0 else ""
    if rng.random() < 0.12:
        w = digit_text(rng, False)
        n = int(w)
        if n == 0:
            return pre + "P" + w + "W", "U 0 0 0 0 0 0"
        return pre + "P" + w + "W", "W %d" % (sign * n)
    p = rng.choice([0.25, 0.5, 0.85])
    texts = [digit_text(rng, k >= 3) if rng.random() < p else None for k in range(6)]
    if not any(t is not None for t in texts):
        texts[rng.randrange(6)] = digit_text(rng, False)[:15]
    out = pre + "P"
    for t, u in zip(texts[:3], "YMD"):
        if t is not None:
            out += t + u
    if any(t is not None for t in texts[3:]):
        out += "T"
        for t, u in zip(texts[3:], "HMS"):
            if t is not None:
                out += t + u
    vals = []
    for k, t in enumerate(texts):
        if t is None:
            vals.append(0)
        elif k < 3:
            vals.append(sign * int(t))
        else:
            n = int(t)
            if n >= F_OVER:
                return out, ""            # overflows binary64: outside the model, no claim here
            vals.append(sign * int(float(n)))
    return out, "U " + " ".join(str(v) for v in vals)


ALT_FORMS = ("xc", "bc", "xo", "bo")


def alt_texts(form, y, mo, d, h, mi, s):
    """(alternative spelling, designator spelling with the same digit runs)."""
    if form in ("xc", "bc"):
        sep, col = ("-", ":") if form == "xc" else ("", "")
        alt = "P%04d%s%02d%s%02dT%02d%s%02d%s%02d" % (y, sep, mo, sep, d, h, col, mi, col, s)
        des = "P%04dY%02dM%02dDT%02dH%02dM%02dS" % (y, mo, d, h, mi, s)
    else:
        sep, col = ("-", ":") if form == "xo" else ("", "")
        alt = "P%04d%s%03dT%02d%s%02d%s%02d" % (y, sep, d, h, col, mi, col, s)
        des = "P%04dY%03dDT%02dH%02dM%02dS" % (y, d, h, mi, s)
    return alt, des


def gen_alt(rng):
    form = rng.choice(ALT_FORMS)
    r = rng.random()

    def fld(hi, edge):
        if r < 0.25:
            return rng.choice(edge)
        return rng.randint(0, hi)
    y = fld(9999, [0, 1, 9, 10, 99, 100, 999, 1000, 1999, 2000, 9999])
    mo = fld(99, [0, 1, 9, 10, 12, 13, 99]) if form in ("xc", "bc") else 0
    d = fld(99, [0, 1, 9, 28, 31, 32, 99]) if form in ("xc", "bc") else fld(999, [0, 1, 9, 99, 100, 365, 366, 999])
    h = fld(99, [0, 1, 9, 23, 24, 25, 99])
    mi = fld(99, [0, 1, 9, 59, 60, 99])
    s = fld(99, [0, 1, 9, 59, 60, 61, 99])
    return (form, y, mo, d, h, mi, s)


MUT_ALPHABET = "PTYMDHWS0123456789-,.:+ \neE_Zpt/"
MUT_EXOTIC = ["١", "²", "１", "\r", "\t", "\x0b", "\x00", "−", "é"]


def mutate(rng, text):
    """One or two character-level edits."""
    s = text
    for _ in range(1 if rng.random() < 0.7 else 2):
        r = rng.random()
        pos = rng.randrange(len(s) + 1)
        ch = rng.choice(MUT_EXOTIC) if rng.random() < 0.06 else rng.choice(MUT_ALPHABET)
        if r < 0.25 and s:
            pos = min(pos, len(s) - 1)
            s = s[:pos] + s[pos + 1:]                     # delete
        elif r < 0.5:
            s = s[:pos] + ch + s[pos:]                    # insert
        elif r < 0.7 and s:
            pos = min(pos, len(s) - 1)
            s = s[:pos] + ch + s[pos + 1:]                # replace
        elif r < 0.8 and len(s) >= 2:
            pos = min(pos, len(s) - 2)
            s = s[:pos] + s[pos + 1] + s[pos] + s[pos + 2:]   # swap
        elif r < 0.88 and s:
            pos = min(pos, len(s) - 1)
            s = s[:pos] + s[pos] + s[pos:]                # duplicate
        elif r < 0.93:
            s = s + rng.choice(["\n", " ", "T", "\n\n", "S"])
        elif r < 0.97:
            s = rng.choice(["-", " ", "+", "--", "P"]) + s
        else:
            s = s.lower() if rng.random() < 0.5 else s.replace("T", "")
    return s


HAND_STRINGS = [
    "", "P", "PT", "-P", "-", "T", "P0Y", "P0W", "P00W", "-P0W", "P1W2D", "P1Y2W", "PT1H2H", "PT1M2M", "PT1S2M",
    "PT1H2M3S4", "P1Y2M3D4H", "P1M2Y", "P1D1Y", "PT1S1H", "P1YT", "P1Y2M3DT", "P1Y\n", "P1Y\n\n", "P\n",
    "PT\n", "P1W\n", "\nP1Y", "P1Y ", " P1Y", "--P1Y", "+P1Y", "-+P1Y", "P-1Y", "P1Y-2M", "P+1Y", "p1y", "P1y",
    "PT1e3S", "PT1E3S", "PT1_0S", "PT1 S", "PT1\tS", "PT1.S", "PT1,S", "PT.5S", "PT1.5S", "PT1,5S", "PT1,5,5S",
    "PT1.5.5S", "P1.5Y", "P1,5D", "PT1HM", "PTH", "PY", "PW", "PTS", "PT1H\nM", "PT1\nH", "PT1H2\nM", "PT5M",
    "P5M", "P5MT5M", "PT0S", "PT00S", "P0D", "P0Y0M0DT0H0M0S", "-P0Y", "-PT0S", "PT9007199254740992S",
    "PT9007199254740993S", "PT9007199254740994S", "PT9007199254740995S", "-PT9007199254740993H",
    "P9007199254740993Y", "PT18014398509481985M", "P0001-02-03T04:05:06", "P00010203T040506",
    "P0001-034T04:05:06", "P0001034T040506", "-P0001-02-03T04:05:06", "P0001-02-03T04:05:06\n",
    "P0001-02-03", "P0001-02", "P0001", "P00", "P0001-02-03T04", "P0001-02-03T04:05", "P0001-02-03T04:05:06Z",
    "P0001-02-03T04:05:06+01:00", "P0001-W02-3T04:05:06", "P0001-02-03T04:05:06,5", "P0001-02-03T04,5",
    "P+000001-02-03T04:05:06", "P9999-99-99T99:99:99", "P0000-00-00T00:00:00", "P0000000T000000",
    "P00000000T000000", "P0001-02-03t04:05:06", "P0001-02-03T04:05:6", "P001-02-03T04:05:06",
    "P00010203T04:05:06", "P0001-02-03T040506", "P0001-0203T04:05:06", "PT1H2M3SP", "P1Y2M3DT4H5M6S",
    "P01Y02M03DT04H05M06S", "P1Y2M3DT4H5M6S7", "PP1Y", "P1YP", "P1Y2M3DT4H5M6SS", "PT1S\x00", "PT1\x00S",
    "PT1S\r", "P١Y", "PT١S", "PT1١S", "P1１Y",
]


# ---------------------------------------------------------------------------
# known finding: h/m/s integers that binary64 cannot hold (proposed entry, see the report)

def _f_binary64(op, a, out, msg):
    """The duration is outside what binary64 holds exactly (an h/m/s integer that is not a binary64
    value, or more than 2^53 seconds in total), the text is right, and the only damage is the float
    rounding of the time slots / of the compared lengths."""
    if op.name not in ("drt", "drteq"):
        return False
    d = a[2:]
    if d[0] != "U" or binary64_exact(d):
        return False
    parts = out.split(" | ")
    if len(parts) != 3 or parts[0] != exp_text(d):
        return False
    got = canon_to_tuple(parts[1])
    if got is None or got[0] != "U":
        return False
    want = tuple(d[1:4]) + tuple(int(float(v)) if abs(v) < F_OVER else None for v in d[4:7])
    return tuple(got[1:]) == want


KNOWN_PREDICATES = {FINDING_PRED: _f_binary64}


# ---------------------------------------------------------------------------
# ops

def _dur_label(d):
    if d[0] == "W":
        return "week/" + ("zero" if d[1] == 0 else ("neg" if d[1] < 0 else "pos"))
    vals = d[1:]
    n = sum(1 for v in vals if v)
    sign = "zero" if n == 0 else ("pos" if all(v >= 0 for v in vals) else
                                  ("neg" if all(v <= 0 for v in vals) else "mixed"))
    shape = ("date" if not any(vals[3:]) else ("time" if not any(vals[:3]) else "both")) if n else "empty"
    big = "/big" if any(abs(v) >= TWO53 for v in vals) else ""
    return "%s/%s/%dunits%s" % (sign, shape, n, big)


def small_patterns():
    """Every absent / 1 / boundary pattern of the six units, both signs, + week forms."""
    out = []
    choices = [(0, 1, 12), (0, 1, 10), (0, 7, 31), (0, 1, 24), (0, 5, 60), (0, 9, 61)]
    for k in range(3 ** 6):
        vals = []
        kk = k
        for c in choices:
            vals.append(c[kk % 3])
            kk //= 3
        out.append(("U",) + tuple(vals))
        if any(vals):
            out.append(("U",) + tuple(-v for v in vals))
    for w in (0, 1, -1, 2, 52, 53, -7, 10, 100):
        out.append(("W", w))
    return out


class DStr(Op):
    """str(Duration) for any integer duration, mixed signs included (mixed-sign text is outside the
    round-trip property — it is not parseable — but the text itself is still as specified)."""
    prop = PROP
    name = "dstr"
    shard = None

    def gen(self, rng, tier, boost):
        n = 4000 * boost if tier == "quick" else 40000 * boost
        for _ in range(n):
            yield (rng.randrange(2),) + gen_intdur(rng, mixed=rng.random() < 0.4, allow_unrepr=True)

    sibling_rate = 0.25

    def sibling(self, a, rng):
        """An EQUAL duration (same years, months and exact length) in other units: equal and equally hashed,
        but printed differently."""
        d = a[1:]
        if d[0] == "W":
            return [(a[0], "U", 0, 0, 7 * d[1], 0, 0, 0)]
        _, y, mo, dd, h, mi, sec = d
        if max(abs(dd), abs(h), abs(mi), abs(sec)) > 10 ** 12:
            return []
        out = [(a[0], "U", y, mo, 0, h + 24 * dd, mi, sec), (a[0], "U", y, mo, dd, 0, mi + 60 * h, sec)]
        if y == 0 and mo == 0 and h == 0 and mi == 0 and sec == 0 and dd % 7 == 0 and dd != 0:
            out.append((a[0], "W", dd // 7))
        return [rng.choice(out)]

    def line(self, a):
        return "dstr " + dur_str(a[1:])

    def impl(self, a):
        return str(mk_dur(a[1:], a[0]))

    def oracle(self, a, out):
        want = exp_text(a[1:])
        if out != want:
            return "str(Duration %s) = %r, the designator text is %r" % (dur_str(a[1:]), out, want)

    def label(self, a):
        return "dstr/" + _dur_label(a[1:]) + ("/float" if a[0] else "/int")

    def nontrivial(self, a):
        return sum(1 for v in a[2:] if v) != 1


class DRoundTrip(Op):
    """Duration -> str -> DurationParser.parse -> str for single-signed integer durations."""
    prop = PROP
    name = "drt"
    shard = None
    exact_only = False

    def gen(self, rng, tier, boost):
        unrepr = _finding_registered()
        pats = small_patterns()
        if tier == "quick":
            off = rng.randrange(3)
            pats = [p for k, p in enumerate(pats) if k % 3 == off or p[0] == "W"]
        for k, d in enumerate(gens.shard_filter(pats, self.shard)):
            yield (MODES[k % 4], k % 2) + d
        n = 6000 * boost if tier == "quick" else 50000 * boost
        for _ in range(n):
            yield (gens.mode(rng), rng.randrange(2)) + gen_intdur(
                rng, allow_unrepr=unrepr, exact_only=self.exact_only and not unrepr)

    def line(self, a):
        return "drt %s %s" % (a[0], dur_str(a[2:]))

    def trip(self, a):
        from metomi.isodatetime.parsers import DurationParser
        from metomi.isodatetime.exceptions import ISO8601SyntaxError
        set_mode(a[0])
        d = mk_dur(a[2:], a[1])
        text = str(d)
        try:
            return d, text, DurationParser().parse(text)
        except ISO8601SyntaxError:
            return d, text, "syntax"
        except ValueError:
            return d, text, "value"

    def impl(self, a):
        d, text, d2 = self.trip(a)
        if isinstance(d2, str):
            return text + " | " + d2
        return "%s | %s | fix=%d" % (text, canon_dur(d2), 1 if str(d2) == text else 0)

    def oracle(self, a, out):
        d = a[2:]
        what = "Duration %s" % dur_str(d)
        parts = out.split(" | ")
        if parts[0] != exp_text(d):
            return "str(%s) = %r, the designator text is %r" % (what, parts[0], exp_text(d))
        if len(parts) != 3:
            return "%s prints as %r, which does not parse back (%s)" % (what, parts[0], " | ".join(parts[1:]))
        got = canon_to_tuple(parts[1])
        if got is None:
            return "%s prints as %r, which parses back to %s" % (what, parts[0], parts[1])
        if sem(got) != sem(d):
            return "%s prints as %r, which parses back to a different duration: %s" % (what, parts[0], parts[1])
        if parts[2] not in ("fix=1", "eq=1"):
            return "%s: %s (str(parse(%r)) / == )" % (what, parts[2], parts[0])

    def label(self, a):
        return self.name + "/" + _dur_label(a[2:]) + ("/float" if a[1] else "/int")

    def nontrivial(self, a):
        return sum(1 for v in a[3:] if v) != 1


class DRoundTripEq(DRoundTrip):
    """The library's own `==` / `!=` between parse(str(d)) and d, both operand orders (oracle only:
    Python evaluates the exact length in binary64 once a slot is a float, which the integer model
    does not follow; within 2^53 seconds the two agree)."""
    name = "drteq"
    model = False
    exact_only = True

    def impl(self, a):
        d, text, d2 = self.trip(a)
        if isinstance(d2, str):
            return text + " | " + d2
        eq = 1 if (d2 == d and d == d2 and not (d2 != d) and not (d != d2)) else 0
        return "%s | %s | eq=%d" % (text, canon_dur(d2), eq)


class DParse(Op):
    """DurationParser.parse on designator strings (structured + malformed) and alternative spellings."""
    prop = PROP
    name = "dparse"
    shard = None

    def gen(self, rng, tier, boost):
        for k, s in enumerate(gens.shard_filter(HAND_STRINGS, self.shard)):
            yield ("greg", s, "")
        n = 8000 * boost if tier == "quick" else 80000 * boost
        for _ in range(n):
            text, want = gen_designator(rng)
            yield (gens.mode(rng), text, want)
        for _ in range(n):
            r = rng.random()
            if r < 0.6:
                base = gen_designator(rng)[0]
            elif r < 0.8:
                base = alt_texts(*gen_alt(rng))[0]
                if rng.random() < 0.3:
                    yield (gens.mode(rng), "-" + base, "")
            elif r < 0.9:
                base = exp_text(gen_intdur(rng, mixed=True, allow_unrepr=True))
            else:
                base = rng.choice(HAND_STRINGS)
            yield (gens.mode(rng), mutate(rng, base), "")

    def line(self, a):
        return "dparse %s %s" % (a[0], enhex(a[1]))

    def impl(self, a):
        set_mode(a[0])
        if not model_domain(a[1]):
            return "outside"
        return parse_outcome(a[1])

    def oracle(self, a, out):
        m, text, want = a
        if out == "outside":
            return None
        if want and out != want:
            return "parse(%r) gave %s, its designators say %s" % (text, out, want)
        dec = decode_strict(text)
        if dec is not None:
            exp = decoded_value(dec[0], dec[2])
            if exp[0] == "W" and exp[1] == 0:
                exp = ("U", 0, 0, 0, 0, 0, 0)
            if out != canon_expected(exp):
                return "parse(%r) gave %s, its designators say %s" % (text, out, canon_expected(exp))
        got = canon_to_tuple(out)
        if text.startswith("-") and got is not None:
            # the leading '-' negates all: whatever the rest denotes, this is its negation
            rest = canon_to_tuple(parse_outcome(text[1:]))
            if rest is not None and (got[0] != rest[0] or tuple(got[1:]) != tuple(-v for v in rest[1:])):
                return "parse(%r) gave %s, but parse(%r) gives %s: the leading '-' must negate every field" % (
                    text, out, text[1:], " ".join(str(x) for x in rest))

    def label(self, a):
        text = a[1]
        if not model_domain(text):
            return "dparse/outside-model"
        dec = decode_strict(text)
        if dec is not None:
            return "dparse/strict/%s%s/%dunits" % ("neg" if dec[0] < 0 else "pos", dec[1], len(dec[2]))
        if text.startswith("P") and ALT_RE.fullmatch(text[1:]):
            return "dparse/alt-complete"
        return "dparse/other" + ("/generated" if a[2] else "")

    def nontrivial(self, a):
        dec = decode_strict(a[1])
        return dec is None or len(dec[2]) > 1


class DAlt(Op):
    """P[YYYY]-[MM]-[DD]T[hh]:[mm]:[ss] (and basic / ordinal variants) against the designator spelling
    with the same digit runs."""
    prop = PROP
    name = "dalt"
    shard = None

    def gen(self, rng, tier, boost):
        n = 4000 * boost if tier == "quick" else 40000 * boost
        for _ in range(n):
            yield (gens.mode(rng),) + gen_alt(rng)
        if tier != "quick":
            # every field over its full range, one at a time, in every form
            cases = []
            for form in ALT_FORMS:
                for v in range(100):
                    for pos in (2, 3, 4, 5, 6):
                        if form in ("xo", "bo") and pos == 2:
                            continue
                        f = [form, 1, 2 if form[1] == "c" else 0, 3, 4, 5, 6]
                        f[pos] = v
                        cases.append(tuple(f))
                for v in range(0, 10000, 7):
                    cases.append((form, v, 1 if form[1] == "c" else 0, 1, 0, 0, 0))
                if form[1] == "o":
                    for v in range(1000):
                        cases.append((form, 2000, 0, v, 0, 0, 0))
            for k, c in enumerate(gens.shard_filter(cases, self.shard)):
                yield ("greg",) + c

    def texts(self, a):
        return alt_texts(*a[1:])

    def line(self, a):
        alt, des = self.texts(a)
        return "dalt %s %s %s" % (a[0], enhex(alt), enhex(des))

    def impl(self, a):
        set_mode(a[0])
        alt, des = self.texts(a)
        return "%s | %s" % (parse_outcome(alt), parse_outcome(des))

    def oracle(self, a, out):
        m, form, y, mo, d, h, mi, s = a
        alt, des = self.texts(a)
        want = "U %d %d %d %d %d %d" % (y, mo, d, h, mi, s)
        parts = out.split(" | ")
        if parts[0] != want:
            return "parse(%r) gave %s; the spelling denotes %s" % (alt, parts[0], want)
        if len(parts) != 2 or parts[1] != want:
            return "parse(%r) gave %s; its designators say %s" % (des, parts[1:], want)

    def label(self, a):
        return "dalt/%s/%s" % (a[1], "zeros" if not any(a[3:]) else "fields")


def _groups(mt):
    return "match" + "".join(" %s=%s" % (k, enhex(v)) for k, v in mt.groupdict().items() if v is not None)


class DAltReduced(Op):
    """Reduced-precision alternative spellings (year-month, year only, date with hour / hour-minute; basic and
    extended): where the parser reads them, they denote the duration of their designator spelling - equal both
    ways, equally hashed, the same length - and the parsed value is usable (nothing raises)."""
    prop = PROP
    name = "daltred"
    model = False

    def gen(self, rng, tier, boost):
        n = 600 * boost if tier == "quick" else 6000 * boost
        for _ in range(n):
            y = rng.choice([0, 1, 4, 9, 10, 99, 2000, 9999, rng.randint(0, 9999)])
            mo = rng.choice([0, 1, 3, 11, 12, rng.randint(0, 12)])
            d = rng.choice([0, 1, 2, 28, 30, rng.randint(0, 30)])
            h = rng.choice([0, 1, 12, 23, rng.randint(0, 23)])
            mi = rng.choice([0, 1, 30, 59])
            yield (gens.mode(rng), rng.choice(["y", "ym", "ymdh", "ymdhm", "b-ymdh", "b-ymdhm", "ymd", "b-ymd", "o", "oh"]),
                   y, mo, d, h, mi)

    def texts(self, a):
        m, form, y, mo, d, h, mi = a
        des = lambda **kw: "P" + "".join("%d%s" % (kw[k], u) for k, u in (("y", "Y"), ("mo", "M"), ("d", "D")) if k in kw) + (
            ("T" + "".join("%d%s" % (kw[k], u) for k, u in (("h", "H"), ("mi", "M")) if k in kw)) if ("h" in kw or "mi" in kw) else "")
        if form == "y":
            return "P%04d" % y, des(y=y)
        if form == "ym":
            return "P%04d-%02d" % (y, mo), des(y=y, mo=mo)
        if form == "ymd":
            return "P%04d-%02d-%02d" % (y, mo, d), des(y=y, mo=mo, d=d)
        if form == "b-ymd":
            return "P%04d%02d%02d" % (y, mo, d), des(y=y, mo=mo, d=d)
        if form == "ymdh":
            return "P%04d-%02d-%02dT%02d" % (y, mo, d, h), des(y=y, mo=mo, d=d, h=h)
        if form == "ymdhm":
            return "P%04d-%02d-%02dT%02d:%02d" % (y, mo, d, h, mi), des(y=y, mo=mo, d=d, h=h, mi=mi)
        if form == "b-ymdh":
            return "P%04d%02d%02dT%02d" % (y, mo, d, h), des(y=y, mo=mo, d=d, h=h)
        if form == "b-ymdhm":
            return "P%04d%02d%02dT%02d%02d" % (y, mo, d, h, mi), des(y=y, mo=mo, d=d, h=h, mi=mi)
        if form == "o":
            return "P%04d-%03d" % (y, d), des(y=y, d=d)
        return "P%04d-%03dT%02d" % (y, d, h), des(y=y, d=d, h=h)

    def line(self, a):
        alt, desig = self.texts(a)
        return "daltred %s %s %s" % (a[0], alt, desig)

    def impl(self, a):
        from metomi.isodatetime.parsers import DurationParser
        set_mode(a[0])
        alt, desig = self.texts(a)
        parser = DurationParser()
        try:
            x = parser.parse(alt)
        except ValueError:
            return "alt-refused"
        y = parser.parse(desig)
        facts = [x == y, y == x, not (x != y), hash(x) == hash(y), x.get_seconds() == y.get_seconds(),
                 x.get_days_and_seconds() == y.get_days_and_seconds(), str(x) == str(y), (x + y) == (y + x)]
        return "ok" if all(facts) else "DIFFERS %s: %s vs %s" % (facts, x, y)

    def oracle(self, a, out):
        if out in ("ok", "alt-refused"):
            return None
        alt, desig = self.texts(a)
        return "%r is read as a duration but is not usable as / does not equal %r: %s" % (alt, desig, out)

    def label(self, a):
        return "daltred/%s" % a[1]


class DRegex(Op):
    """The generated regex AST run by the Lean matcher against `re` itself on the live patterns."""
    prop = PROP
    name = "dregex"
    shard = None

    def gen(self, rng, tier, boost):
        nrx = len(live_regexes())
        for s in gens.shard_filter(HAND_STRINGS, self.shard):
            for i in range(nrx):
                yield (i, s)
                if s.startswith("-"):
                    yield (i, s[1:])
        n = 6000 * boost if tier == "quick" else 60000 * boost
        for _ in range(n):
            r = rng.random()
            if r < 0.45:
                s = gen_designator(rng)[0].lstrip("-")
            elif r < 0.55:
                s = alt_texts(*gen_alt(rng))[0]
            else:
                s = mutate(rng, gen_designator(rng)[0].lstrip("-"))
            yield (rng.randrange(nrx), s)

    def line(self, a):
        return "dregex %d %s" % (a[0], enhex(a[1]))

    def impl(self, a):
        if any(ord(c) >= 128 for c in a[1]):
            return "outside"
        mt = live_regexes()[a[0]].search(a[1])
        return _groups(mt) if mt else "none"

    def oracle(self, a, out):
        i, text = a
        dec = decode_strict(text)
        if dec is None or dec[0] < 0 or out == "outside":
            return None
        # which of the three patterns a strictly well-formed string belongs to, and what it captures
        idx = {"D": 0, "T": 1, "W": 2}[dec[1]]
        order = [u for u in ("years", "months", "days", "weeks", "hours", "minutes", "seconds") if u in dec[2]]
        want = "match" + "".join(
            " %s=%s" % (u, enhex(dec[2][u][0])) for u in order)
        if any(v[1] is not None for v in dec[2].values()):
            return None
        if i == idx:
            if out != want:
                return "DURATION_REGEXES[%d] on the well-formed %r gave %s, expected %s" % (i, text, out, want)
        elif i < idx and out != "none":
            return "DURATION_REGEXES[%d] (tried first) matches %r, which belongs to pattern %d" % (i, text, idx)

    def label(self, a):
        dec = decode_strict(a[1])
        return "dregex/%d/%s" % (a[0], "strict-" + dec[1] if dec else "other")


class F64(Op):
    """float("<digits>") of a natural number (the conversion the parser applies to h/m/s groups)."""
    prop = PROP
    name = "f64"

    def gen(self, rng, tier, boost):
        for e in list(range(50, 70)) + [100, 200, 500, 1000, 1022]:
            for dlt in (-2, -1, 0, 1, 2, 3):
                yield (2 ** e + dlt,)
                yield (2 ** e + 2 ** (e - 53) + dlt,)
                yield (3 * 2 ** (e - 1) + 2 ** max(0, e - 54) + dlt,)
        for _ in range(600 * boost):
            bits = rng.choice([53, 54, 55, 60, 64, 70, 100, 300, 1000, 1023])
            yield (rng.getrandbits(bits) | (1 << (bits - 1)),)
        for v in MAG_ANY + MAG_UNREPR + MAG_REPR_BIG:
            yield (v,)

    def line(self, a):
        return "f64 %d" % a[0]

    def impl(self, a):
        return str(int(float(str(a[0]))))

    def oracle(self, a, out):
        n = a[0]
        got = int(out)
        # nearest binary64: no other float is strictly closer
        import math
        f = float(got)
        lo, hi = math.nextafter(f, 0.0), math.nextafter(f, math.inf)
        if abs(Fraction(got) - n) > abs(Fraction(lo) - n) or abs(Fraction(got) - n) > abs(Fraction(hi) - n):
            return "float(%d) = %d is not the nearest binary64" % (n, got)

    def label(self, a):
        return "f64/%s" % ("exact" if representable(a[0]) else "rounded")


# ---- oracle-only float streams -------------------------------------------------------------------

DEC_TEXTS = ["0.5", "1.5", "0.25", "12.125", "0.1", "0.2", "0.3", "2.675", "1.005", "59.999999", "0.000001",
             "0.0000001", "1e-7", "123456789.123", "3600.5", "0.999999999999", "4503599627370496.5",
             "1e15", "123456789012345.6", "1e22", "5e-324", "1.7976931348623157e308", "0.30000000000000004"]


def float_text(x):
    """The float repr law: an integer-valued component prints as that integer, anything else as repr
    (shortest string that float() maps back to x), decimal point written as a comma."""
    if x == int(x):
        return str(int(x))
    return repr(x).replace(".", ",")


class DFloat(Op):
    """Durations with decimal hours/minutes/seconds: Duration -> text -> Duration (observed only)."""
    prop = PROP
    name = "dfloat"
    model = False

    def gen(self, rng, tier, boost):
        n = 4000 * boost if tier == "quick" else 40000 * boost
        for _ in range(n):
            neg = rng.random() < 0.35
            comps = []
            for k in range(3):
                r = rng.random()
                if r < 0.35:
                    comps.append("0")
                elif r < 0.6:
                    comps.append(rng.choice(DEC_TEXTS))
                elif r < 0.8:
                    comps.append("%d.%0*d" % (rng.randint(0, 100), rng.randint(1, 9), rng.randint(0, 999)))
                elif r < 0.9:
                    comps.append(repr(rng.random() * 10 ** rng.randint(-8, 12)))
                else:
                    comps.append(str(rng.randint(0, 10 ** 6)))
            if all(float(c) == 0 for c in comps):
                comps[rng.randrange(3)] = rng.choice(DEC_TEXTS)
            ymd = tuple(rng.choice([0, 0, 1, 2, 12, 400]) for _ in range(3))
            yield (gens.mode(rng), 1 if neg else 0) + ymd + tuple(comps)

    def line(self, a):
        return "dfloat " + " ".join(str(x) for x in a)

    def build(self, a):
        from metomi.isodatetime.data import Duration
        sg = -1 if a[1] else 1
        h, mi, s = [sg * float(t) for t in a[5:8]]
        return Duration(years=sg * a[2], months=sg * a[3], days=sg * a[4], hours=h, minutes=mi, seconds=s), (h, mi, s)

    def impl(self, a):
        from metomi.isodatetime.parsers import DurationParser
        set_mode(a[0])
        d, _ = self.build(a)
        text = str(d)
        d2 = DurationParser().parse(text)
        eq = 1 if (d2 == d and d == d2) else 0
        fix = 1 if str(d2) == text else 0
        return "%s | %s | eq=%d | fix=%d" % (text, canon_dur(d2), eq, fix)

    def oracle(self, a, out):
        sg = -1 if a[1] else 1
        h, mi, s = [float(t) for t in a[5:8]]
        vals = [a[2], a[3], a[4], h, mi, s]
        date = "".join("%d%s" % (v, u) for v, u in zip(vals[:3], "YMD") if v)
        time = "".join(float_text(v) + u for v, u in zip(vals[3:], "HMS") if v)
        want = ("-" if sg < 0 else "") + "P" + date + ("T" + time if time else "")
        parts = out.split(" | ")
        if parts[0] != want:
            return "str of %s gave %r, expected %r" % (self.line(a), parts[0], want)
        if len(parts) != 4:
            return "%r does not parse back: %s" % (parts[0], out)
        wantc = "U " + " ".join(_comp(sg * v) for v in vals)
        if parts[1] != wantc:
            return "%r parses back to %s, the duration was %s" % (parts[0], parts[1], wantc)
        if parts[2] != "eq=1" or parts[3] != "fix=1":
            return "%r: %s %s" % (parts[0], parts[2], parts[3])

    def label(self, a):
        n = sum(1 for t in a[5:8] if float(t) != int(float(t)))
        return "dfloat/%s/%ddecimal" % ("neg" if a[1] else "pos", n)


class DFParse(Op):
    """Decimal designator strings (comma or point) and decimal / reduced alternative spellings
    (observed only): the value written is the value obtained."""
    prop = PROP
    name = "dfparse"
    model = False

    def gen(self, rng, tier, boost):
        n = 3000 * boost if tier == "quick" else 30000 * boost
        for _ in range(n):
            r = rng.random()
            if r < 0.7:
                sign = "-" if rng.random() < 0.3 else ""
                sep = rng.choice(",.")
                date = "".join("%d%s" % (rng.randint(1, 99), u) for u in "YMD" if rng.random() < 0.3)
                time = ""
                for u in "HMS":
                    if rng.random() < 0.5:
                        if rng.random() < 0.7:
                            time += "%d%s%s%s" % (rng.randint(0, 999), sep,
                                                  "".join(rng.choice(DIG) for _ in range(rng.randint(1, 12))), u)
                        else:
                            time += "%d%s" % (rng.randint(0, 99), u)
                if not time:
                    time = "0%s5S" % sep
                yield ("des", sign + "P" + date + "T" + time)
            else:
                y, mo, d, h, mi, s = (rng.randint(0, 9999), rng.randint(0, 99), rng.randint(0, 99),
                                      rng.randint(0, 99), rng.randint(0, 99), rng.randint(0, 99))
                frac = "".join(rng.choice(DIG) for _ in range(rng.randint(1, 6)))
                sep = rng.choice(",.")
                kind = rng.choice(["sec", "min", "hour", "date", "hm", "h", "zone"])
                if kind == "sec":
                    text = "P%04d-%02d-%02dT%02d:%02d:%02d%s%s" % (y, mo, d, h, mi, s, sep, frac)
                    want = (y, mo, d, Fraction(h), Fraction(mi), Fraction(int(str(s) + frac), 10 ** len(frac)))
                elif kind == "min":
                    text = "P%04d%02d%02dT%02d%02d%s%s" % (y, mo, d, h, mi, sep, frac)
                    want = (y, mo, d, Fraction(h), Fraction(int(str(mi) + frac), 10 ** len(frac)), Fraction(0))
                elif kind == "hour":
                    text = "P%04d-%02d-%02dT%02d%s%s" % (y, mo, d, h, sep, frac)
                    want = (y, mo, d, Fraction(int(str(h) + frac), 10 ** len(frac)), Fraction(0), Fraction(0))
                elif kind == "date":
                    text = "P%04d-%02d-%02d" % (y, mo, d)
                    want = (y, mo, d, Fraction(0), Fraction(0), Fraction(0))
                elif kind == "hm":
                    text = "P%04d-%02d-%02dT%02d:%02d" % (y, mo, d, h, mi)
                    want = (y, mo, d, Fraction(h), Fraction(mi), Fraction(0))
                elif kind == "h":
                    text = "P%04d%02d%02dT%02d" % (y, mo, d, h)
                    want = (y, mo, d, Fraction(h), Fraction(0), Fraction(0))
                else:
                    text = "P%04d-%02d-%02dT%02d:%02d:%02dZ" % (y, mo, d, h, mi, s)
                    want = (y, mo, d, Fraction(h), Fraction(mi), Fraction(s))
                yield ("alt", text) + tuple(str(v) for v in want)

    def line(self, a):
        return "dfparse " + enhex(a[1])

    def impl(self, a):
        from metomi.isodatetime.parsers import DurationParser
        d = DurationParser().parse(a[1])
        if d.get_is_in_weeks():
            return "W %d" % d._weeks
        return "U " + " ".join(str(Fraction(getattr(d, s))) for s in
                               ("_years", "_months", "_days", "_hours", "_minutes", "_seconds"))

    def oracle(self, a, out):
        parts = out.split()
        if not parts or parts[0] != "U" or len(parts) != 7:
            return "parse(%r) gave %s" % (a[1], out)
        got = [Fraction(x) for x in parts[1:]]
        if a[0] == "des":
            dec = decode_strict(a[1])
            if dec is None:
                return "internal: generator produced a non-strict string %r" % (a[1],)
            want = [Fraction(v) for v in decoded_value(dec[0], dec[2])[1:]]
            if got != want:
                return "parse(%r) gave %s; the nearest binary64 values of what is written are %s" % (
                    a[1], out, " ".join(str(w) for w in want))
        else:
            want = [Fraction(x) for x in a[2:]]
            for g, w in zip(got, want):
                if abs(g - w) > Fraction(1, 10 ** 9):
                    return "parse(%r) gave %s; the spelling denotes %s" % (a[1], out, " ".join(a[2:]))

    def label(self, a):
        return "dfparse/" + a[0]


def ops():
    import common
    common.foreign_configurations()
    import durtextqops
    import daltops
    return [DStr(), DRoundTrip(), DRoundTripEq(), DParse(), DAlt(), DAltReduced(), DRegex(), F64(), DFloat(), DFParse(),
            durtextqops.DurTextQOp(), daltops.DAltQOp()]
