"""C18 — Unix time and the system's local UTC offset are converted exactly."""
from fractions import Fraction

import oracle
import gens
import tpcommon as T
from engine import Op, set_mode

PROP = "C18"
QUICK_BOOST = 2
LEAN_MODULES = ["IsoDT.Props.C18", "IsoDT.Props.C18b", "IsoDT.Props.C18c"]
RULE = ("system zone configurations: every whole-minute standard offset within +-24 h x alternative offset "
        "(same, +-30, +-60 min) x daylight flag x is-dst in {-1,0,1} (exhaustive in the thorough tier, a "
        "stride in quick), entered by patching the `time` module object that timezone.py uses; second counts "
        "over +-10^11 s incl. non-negative fractions; non-trivial when the offset is negative or has non-zero "
        "minutes; distinct by (op, arguments)")
ASSUMPTIONS = ["the operating system's zone database is a parameter (time.timezone/altzone/daylight/localtime "
               "are patched); fractional second counts are observed only, to 1 us"]


class FakeTime:
    def __init__(self, timezone, altzone, daylight, isdst):
        self.timezone, self.altzone, self.daylight = timezone, altzone, daylight
        self._isdst = isdst

    def localtime(self, *a):
        class LT:
            pass
        lt = LT()
        lt.tm_isdst = self._isdst
        return lt


def with_fake_time(cfg, func):
    from metomi.isodatetime import timezone as tzmod
    saved = tzmod.time
    tzmod.time = FakeTime(*cfg)
    try:
        return func()
    finally:
        tzmod.time = saved


def configs(rng, tier, shard=None):
    step = 1 if tier != "quick" else 7
    offs = list(range(-24 * 60, 24 * 60 + 1, step))
    for extra in (0, -1, 1, -30, 30, -59, 59, -60, 60, -61, 61, 330, -330, 345, 765, -570, 1440, -1440):
        if extra not in offs:
            offs.append(extra)
    for k, std in enumerate(gens.shard_filter(offs, shard)):
        for dalt in (0, 30, -30, 60, -60):
            alt = std + dalt
            if abs(alt) > 24 * 60:
                continue
            for daylight in (0, 1):
                for isdst in (-1, 0, 1):
                    if tier == "quick" and (k + dalt + daylight + isdst) % 3:
                        continue
                    # time.timezone is seconds WEST of UTC
                    yield (-60 * std, -60 * alt, daylight, isdst)
    # a daylight offset of exactly zero (or of the opposite sign) against a non-zero standard offset, and the
    # reverse: the branch taken must not depend on the VALUE of either offset
    if not shard or shard[0] == 0:
        for std in (0, 60, -60, 30, -30, 90, -90, 330, -210, 1, -1, 59, -59, 720, -720):
            for alt in (0, 60, -60, 30, -30, 1, -1, std, -std):
                for daylight in (0, 1):
                    for isdst in (-1, 0, 1):
                        yield (-60 * std, -60 * alt, daylight, isdst)


class LocalTZ(Op):
    prop = PROP
    name = "localtz"
    shard = None

    def gen(self, rng, tier, boost):
        for cfg in configs(rng, tier, self.shard):
            yield cfg

    def impl(self, a):
        from metomi.isodatetime import timezone as tzmod
        h, mi = with_fake_time(a, tzmod.get_local_time_zone)
        return "%d %d" % (h, mi)

    def oracle(self, a, out):
        timezone, altzone, daylight, isdst = a
        off = -altzone if (isdst == 1 and daylight) else -timezone
        if not out.replace("-", "").replace(" ", "").isdigit():
            return "get_local_time_zone failed for %r: %s" % (a, out)
        h, mi = (int(x) for x in out.split())
        if 60 * h + mi != off // 60 or off % 60:
            return "local offset %d s reported as (%d, %d)" % (off, h, mi)
        if abs(mi) >= 60 or (off >= 0 and (h < 0 or mi < 0)) or (off < 0 and (h > 0 or mi > 0)):
            return "local offset %d s reported as (%d, %d): parts must carry the offset's sign" % (off, h, mi)

    def label(self, a):
        off = -a[1] if (a[3] == 1 and a[2]) else -a[0]
        cls = "neg" if off < 0 else ("zero" if off == 0 else "pos")
        return "localtz/%s/%s/%s" % (cls, "zeroH" if abs(off) < 3600 else "H", "min" if off % 3600 else "whole")

    def nontrivial(self, a):
        off = -a[1] if (a[3] == 1 and a[2]) else -a[0]
        return off < 0 or off % 3600 != 0


class LocalTZFormat(LocalTZ):
    name = "localtzfmt"

    def impl(self, a):
        from metomi.isodatetime import timezone as tzmod
        M = tzmod.TimeZoneFormatMode
        return with_fake_time(a, lambda: " ".join(
            tzmod.get_local_time_zone_format(mode) for mode in (M.normal, M.reduced, M.extended)))

    def oracle(self, a, out):
        timezone, altzone, daylight, isdst = a
        off = -altzone if (isdst == 1 and daylight) else -timezone
        mins = off // 60
        sign = "-" if mins < 0 else "+"
        hh, mm = divmod(abs(mins), 60)
        if mins == 0:
            want = "Z Z Z"
        else:
            normal = "%s%02d%02d" % (sign, hh, mm)
            want = "%s %s %s%02d:%02d" % (normal, normal if mm else "%s%02d" % (sign, hh), sign, hh, mm)
        if out != want:
            return "local offset %+d min formatted as %r, expected %r" % (mins, out, want)


class FromUnix(Op):
    prop = PROP
    name = "fromunix"

    def gen(self, rng, tier, boost):
        n = 600 * boost if tier == "quick" else 3000 * boost
        for _ in range(n):
            m = gens.mode(rng)
            r = rng.random()
            if r < 0.4:
                secs = rng.choice([0, 1, -1, 59, 60, 86399, 86400, -86400, 951782400, 946684800, 2 ** 31 - 1,
                                   2 ** 31, -2 ** 31, 4102444800, -2208988800, 253402300799, 253402300800,
                                   -62135596800, -62135596801, -62167219200])
            elif r < 0.8:
                secs = rng.randint(-10 ** 10, 10 ** 10)
            else:
                secs = rng.randint(-10 ** 11, 10 ** 11)
            if rng.random() < 0.5:
                yield (m, secs, "utc")
            else:
                h, mi = gens.offset(rng)
                if abs(h) > 24:
                    h = 0
                yield (m, secs, h, mi)

    def impl(self, a):
        from metomi.isodatetime import data, timezone as tzmod
        set_mode(a[0])
        if a[2] == "utc":
            return T.canon_tp(data.get_timepoint_from_seconds_since_unix_epoch(a[1], utc=True))
        saved = tzmod.get_local_time_zone
        tzmod.get_local_time_zone = lambda: (a[2], a[3])
        try:
            return T.canon_tp(data.get_timepoint_from_seconds_since_unix_epoch(a[1], utc=False))
        finally:
            tzmod.get_local_time_zone = saved

    def oracle(self, a, out):
        m = a[0]
        epoch = T.inst(m, ("c", 1970, 1, 1, 0, 0, 0, 0, 0))
        if len(out.split()) != 9:
            return "from Unix time %d in %s failed: %s" % (a[1], m, out)
        r = T.parse_tp(out)
        if T.inst(m, r) != epoch + a[1]:
            return "Unix time %d in %s gave %s, off by %d s" % (a[1], m, T.describe_tp(r), T.inst(m, r) - epoch - a[1])
        want_tz = (0, 0) if a[2] == "utc" else (a[2], a[3])
        if (r[7], r[8]) != want_tz or not T.valid(m, r, strict=True):
            return "Unix time %d in %s gave %s (zone requested %r)" % (a[1], m, T.describe_tp(r), want_tz)

    def label(self, a):
        return "fromunix/%s/%s/%s" % (a[0], "utc" if a[2] == "utc" else "local", "neg" if a[1] < 0 else "pos")


class Since(Op):
    prop = PROP
    name = "since"
    sibling = T.tp_sibling(1)
    sibling_rate = 0.25

    def gen(self, rng, tier, boost):
        n = 600 * boost if tier == "quick" else 3000 * boost
        for _ in range(n):
            m = gens.mode(rng)
            yield (m, T.gen_tp(rng, m))
        for _ in range(n):
            m = gens.mode(rng)
            yield (m, T.gen_year_edge_tp(rng, m))

    def line(self, a):
        return "since %s %s" % (a[0], T.tp_str(a[1]))

    def impl(self, a):
        set_mode(a[0])
        return T.mk_tp(a[1]).seconds_since_unix_epoch

    def oracle(self, a, out):
        m, t = a
        want = T.inst(m, t) - T.inst(m, ("c", 1970, 1, 1, 0, 0, 0, 0, 0))
        if out != str(want):
            return "seconds_since_unix_epoch of %s in %s = %s, the instant is %d s from the epoch" % (
                T.describe_tp(t), m, out, want)

    def label(self, a):
        return "since/%s/%s" % (a[0], a[1][0])


class FromUnixFrac(Op):
    """Non-negative fractional second counts (float domain, observed to 1 us)."""
    prop = PROP
    name = "fromunixfrac"
    model = False

    def gen(self, rng, tier, boost):
        for _ in range(300 * boost):
            yield (rng.randint(0, 10 ** 10), rng.randint(0, 999999))

    def impl(self, a):
        from metomi.isodatetime import data
        set_mode("greg")
        p = data.get_timepoint_from_seconds_since_unix_epoch(a[0] + a[1] / 1e6, utc=True)
        h, mi, s = p.get_hour_minute_second()
        return repr((tuple(p.get_calendar_date()), float(h), float(mi), float(s)))

    def oracle(self, a, out):
        if not out.startswith("(("):
            return "fractional Unix time failed: " + out
        (y, mo, d), h, mi, s = eval(out)
        got = (86400 * oracle.day_num_cal("greg", y, mo, d) + Fraction(h) * 3600 + Fraction(mi) * 60 + Fraction(s))
        want = 86400 * oracle.day_num_cal("greg", 1970, 1, 1) + Fraction(a[0] + a[1] / 1e6)
        if abs(got - want) > Fraction(1, 10 ** 5):   # float ULP at 1e10 s is ~2 us
            return "fractional Unix time %d.%06d is off by %.9f s" % (a[0], a[1], float(got - want))


class SinceFrac(Op):
    """seconds_since_unix_epoch of points with a fractional second, any offset, any representation, concentrated
    within two days of the epoch (and of the epoch read as wall-clock time in the point's own zone): the whole
    number of seconds from the epoch to the instant, the fraction dropped toward zero (the reading Props/C18b
    proves of the code: C18_seconds_since_rat).  Fractions are dyadic, so binary64 holds them exactly."""
    prop = PROP
    name = "sincefrac"
    model = False

    def gen(self, rng, tier, boost):
        n = (1500 if tier == "quick" else 20000) * boost
        epoch = T.inst("greg", ("c", 1970, 1, 1, 0, 0, 0, 0, 0))
        for _ in range(n):
            m = gens.mode(rng)
            ep = T.inst(m, ("c", 1970, 1, 1, 0, 0, 0, 0, 0))
            tzh, tzm = gens.offset(rng)
            off = 3600 * tzh + 60 * tzm
            r = rng.random()
            if r < 0.5:       # between the epoch and the epoch as wall-clock time in this zone, and just outside
                lo, hi = sorted((0, -off))
                base = ep + rng.randint(lo - 3, hi + 3)
            elif r < 0.8:
                base = ep + rng.randint(-2 * 86400, 2 * 86400)
            else:
                base = ep + rng.randint(-10 ** 9, 2 * 10 ** 9)
            t = T.tp_from_inst(m, base, rng.choice("cow"), tzh, tzm)
            num = rng.choice([0, 1, 2, 3, 4, 5, 6, 7, 1, 4, 7])
            yield (m, t, num)          # fraction num/8 of a second

    def line(self, a):
        return "sincefrac %s %s %d/8" % (a[0], T.tp_str(a[1]), a[2])

    def impl(self, a):
        import qcommon as Q
        m, t, num = a
        set_mode(m)
        rep, y, aa, b, hh, mi, ss, tzh, tzm = t
        p = Q.mk_point((rep, y, aa, b, Fraction(hh), Fraction(mi), ss + Fraction(num, 8), tzh, tzm))
        return str(p.seconds_since_unix_epoch)

    def oracle(self, a, out):
        m, t, num = a
        d = T.inst(m, t) + Fraction(num, 8) - T.inst(m, ("c", 1970, 1, 1, 0, 0, 0, 0, 0))
        want = int(d)          # toward zero
        if out != str(want):
            return "seconds_since_unix_epoch of %s + %d/8 s in %s = %s; the instant is %s s from the epoch (whole part %d)" % (
                T.describe_tp(t), num, m, out, float(d), want)

    def label(self, a):
        return "sincefrac/%s/%s" % (a[0], "frac" if a[2] else "whole")


class StrptimeUnix(Op):
    """The same translation reached through the parsers: TimePointParser(assumed_time_zone=...).strptime(n, "%s")
    and the CLI helper's parse format.  Whatever zone the parser assumes for texts WITHOUT zone information, a Unix
    time is an instant: the point returned is epoch + n, carrying the local offset.  Unix times are concentrated
    where a field of the translated point is zero (year 0, midnight, local offset 0), and around the epoch."""
    prop = PROP
    name = "strptimeunix"
    model = False

    ZONES = [None, (0, 0), (5, 30), (-3, 0), (-9, -30), (12, 0), (0, 45)]
    _parsers = {}

    def gen(self, rng, tier, boost):
        n = 250 * boost if tier == "quick" else 5000 * boost
        for _ in range(n):
            m = gens.mode(rng)
            ep = T.inst(m, ("c", 1970, 1, 1, 0, 0, 0, 0, 0))
            y = rng.choice([0, 0, 0, 1, -1, 1970, 1969, 2000, rng.randint(-3, 3), rng.randint(1, 9998)])
            lo = T.inst(m, ("c", y, 1, 1, 0, 0, 0, 0, 0)) - ep
            hi = T.inst(m, ("c", y + 1, 1, 1, 0, 0, 0, 0, 0)) - ep
            r = rng.random()
            if r < 0.3:
                secs = rng.choice([lo, lo + 1, hi - 1, lo - 1, hi, lo + 86400, hi - 86400])
            elif r < 0.5:
                secs = lo + 86400 * rng.randint(0, 359) + rng.choice([0, 0, 3600, 60, 1, 43200])
            else:
                secs = rng.randint(lo, hi - 1)
            local = rng.choice([(0, 0), (0, 0), (0, 0), (1, 0), (-5, 0), (5, 30), (-9, -30)])
            yield (m, secs, local, rng.choice(self.ZONES), rng.random() < 0.3)

    def line(self, a):
        return "strptimeunix %s %d local=%r assumed=%r unknown=%r" % a

    def impl(self, a):
        from metomi.isodatetime import timezone as tzmod
        from metomi.isodatetime.parsers import TimePointParser
        m, secs, local, assumed, unknown = a
        set_mode(m)
        saved = tzmod.get_local_time_zone
        tzmod.get_local_time_zone = lambda: local
        try:
            kw = {}
            if assumed is not None:
                kw["assumed_time_zone"] = assumed
            elif unknown:
                kw["default_to_unknown_time_zone"] = True
            key = tuple(sorted(kw.items()))
            if key not in self._parsers:
                self._parsers[key] = TimePointParser(**kw)
            return T.canon_tp(self._parsers[key].strptime(str(secs), "%s"))
        finally:
            tzmod.get_local_time_zone = saved

    def oracle(self, a, out):
        m, secs, local, assumed, unknown = a
        epoch = T.inst(m, ("c", 1970, 1, 1, 0, 0, 0, 0, 0))
        if len(out.split()) != 9:
            return "%s failed: %s" % (self.line(a), out)
        r = T.parse_tp(out)
        if T.inst(m, r) != epoch + secs:
            return "%s gave %s, off by %d s" % (self.line(a), T.describe_tp(r), T.inst(m, r) - epoch - secs)
        if (r[7], r[8]) != tuple(local) or not T.valid(m, r, strict=True):
            return "%s gave %s (local zone %r)" % (self.line(a), T.describe_tp(r), local)

    def label(self, a):
        return "strptimeunix/%s/%s/%s" % (a[0], "local0" if a[2] == (0, 0) else "local",
                                           "assumed" if a[3] else "default")


def ops():
    import strf2ops
    import strpzoneops
    return [LocalTZ(), LocalTZFormat(), FromUnix(), Since(), SinceFrac(), FromUnixFrac(), StrptimeUnix(),
            strpzoneops.StrpZone("C18"), strf2ops.UnixQOp()]
