"""C14 — recurrences are values: shifting, equality, hashing and text round trip."""
import oracle
import itertools
import gens
import tpcommon as T
import reccommon as R
from engine import Op, set_mode

PROP = "C14"
FOREIGN_FIRST = True
QUICK_BOOST = 2
LEAN_MODULES = ["IsoDT.Props.C14", "IsoDT.Props.C14b", "IsoDT.Props.C14c", "IsoDT.Props.C14mm"]
RULE = ("recurrences as in C12 x exact shift durations (either operand order, and subtraction); pairs differing in "
        "exactly one component, pairs spelling the same anchors and interval differently (other zone, other "
        "representation, other units); parser-producible recurrences for the text round trip; distinct by "
        "(op, arguments)")
K = 25


class Shift(Op):
    prop = PROP
    name = "rshift"

    def gen(self, rng, tier, boost):
        n = 900 * boost if tier == "quick" else 4000 * boost
        for _ in range(n):
            m = gens.mode(rng)
            rec, info = R.gen_rec(rng, m, max_reps=20)
            d = T.gen_exact_dur(rng, max_days=3000)
            yield (m, rec, tuple(sorted(info.items())), d)

    sibling_rate = 0.3

    def sibling(self, a, rng):
        m, rec, info, d = a
        return [(m2, r2, tuple(sorted(i2.items())), d) for m2, r2, i2 in R.mode_siblings(m, rec, info, limit=1)]

    def line(self, a):
        return "rshift %s %s %s" % (a[0], R.rec_line(a[1]), T.dur_str(a[3]))

    def impl(self, a):
        set_mode(a[0])
        rec, d = R.mk_rec(a[1]), T.mk_dur(a[3])
        shifted = rec + d
        problems = []
        other = d + rec
        if not (other == shifted) or R.canon_rec(other) != R.canon_rec(shifted):
            problems.append("d + r differs from r + d")
        back = shifted - d
        if not (back == rec):
            problems.append("(r + d) - d != r: %s vs %s" % (back, rec))
        # the recurrence with the same repetitions and interval whose anchor point(s) are moved by d
        from metomi.isodatetime.data import TimeRecurrence
        reps, start, dur, end = a[1]
        kw = {}
        if reps is not None:
            kw["repetitions"] = reps
        if start is not None:
            kw["start_point"] = T.mk_tp(start) + d
        if dur is not None:
            kw["duration"] = T.mk_dur(dur)
        if end is not None:
            kw["end_point"] = T.mk_tp(end) + d
        moved = TimeRecurrence(**kw)
        if not (shifted == moved) or hash(shifted) != hash(moved):
            problems.append("r + d = %s is not the recurrence with the anchors moved, %s" % (shifted, moved))
        else:
            pm = []
            for i, pt in enumerate(moved):
                pm.append(pt)
                if i + 1 >= K:
                    break
            ps = []
            for i, pt in enumerate(shifted):
                ps.append(pt)
                if i + 1 >= K:
                    break
            if R.canon_pts(pm) != R.canon_pts(ps):
                problems.append("r + d iterates differently from the recurrence with the anchors moved")
        pts0, pts1 = [], []
        for i, p in enumerate(rec):
            pts0.append(p)
            if i + 1 >= K:
                break
        for i, p in enumerate(shifted):
            pts1.append(p)
            if i + 1 >= K:
                break
        self._pts = (pts0, pts1)
        out = R.canon_rec(shifted)
        if problems:
            out += " PROBLEMS: " + "; ".join(problems)
        return out

    def oracle(self, a, out):
        m, rec, info, d = a
        info = dict(info)
        what = "%s shifted by %s in %s" % (R.rec_line(rec), T.dur_str(d), m)
        if "PROBLEMS" in out:
            return "%s: %s" % (what, out.split("PROBLEMS: ")[1])
        if out.startswith(("err", "EXC", "Timeout")):
            return "%s failed: %s" % (what, out)
        reps_s, start_s, dur_s, end_s, fmt_s = out.split(" ; ")
        secs = T.dur_seconds(d)
        single = info["reps"] == 1 or R.is_zero(info["interval"])
        want_reps = "1" if single else ("_" if info["reps"] is None else str(info["reps"]))
        if reps_s != want_reps:
            return "%s has repetitions %s, expected %s" % (what, reps_s, want_reps)
        anchor_s = end_s if info["fmt"] == 4 and not (single and False) else start_s
        if info["fmt"] == 4 and info["reps"] is None:
            anchor_s = end_s
        elif info["fmt"] == 4:
            anchor_s = end_s
        else:
            anchor_s = start_s
        if anchor_s == "_":
            return "%s lost its anchor" % what
        got = T.parse_tp(anchor_s)
        if T.inst(m, got) != T.inst(m, info["anchor"]) + secs:
            return "%s: anchor is %s, expected the original moved by %d s" % (what, T.describe_tp(got), secs)
        if not single and R.is_exact(info["interval"]):
            pts0, pts1 = self._pts
            i0 = [T.inst(m, T.tp_tuple(p)) for p in pts0]
            i1 = [T.inst(m, T.tp_tuple(p)) for p in pts1]
            if [x + secs for x in i0] != i1:
                return "%s: the points do not all move by %d s" % (what, secs)
        if not single and dur_s != "_":
            dtuple = tuple([dur_s.split()[0]] + [int(x) for x in dur_s.split()[1:]])
            if not R.is_exact(info["interval"]):
                if dtuple != info["interval"] and not (dtuple[0] == "U" and info["interval"][0] == "U" and
                                                       dtuple[1:3] == info["interval"][1:3]):
                    return "%s changed the interval to %s" % (what, dur_s)

    def label(self, a):
        info = dict(a[2])
        return "rshift/%s/fmt%d/%s" % (a[0], info["fmt"], "single" if (info["reps"] == 1) else
                                       ("bounded" if info["reps"] else "unbounded"))


def perturb(rng, m, rec, info):
    """A recurrence differing from rec in exactly one component (and denoting a different series)."""
    reps, start, dur, end = rec
    which = rng.choice(["reps", "anchor", "interval"])
    if which == "reps" and reps is not None and reps >= 2:
        return (reps + rng.choice([1, 2]), start, dur, end), which
    if which == "interval" and dur is not None and not R.is_zero(dur) and (reps is None or reps >= 2):
        if dur[0] == "W":
            return (reps, start, ("W", dur[1] + 1), end), which
        nd = list(dur)
        nd[6] += rng.choice([1, 60])
        return (reps, start, tuple(nd), end), which
    # move the anchor by a second (or a day)
    delta = rng.choice([1, -1, 86400])
    if info["fmt"] in (1, 3):
        ns = T.tp_from_inst(m, T.inst(m, start) + delta, start[0], start[7], start[8])
        ne = end
        if info["fmt"] == 1:
            ne = T.tp_from_inst(m, T.inst(m, end) + delta, end[0], end[7], end[8])
        return (reps, ns, dur, ne), "anchor"
    ne = T.tp_from_inst(m, T.inst(m, end) + delta, end[0], end[7], end[8])
    return (reps, start, dur, ne), "anchor"


def same_span_pair(rng, m):
    """Two bounded recurrences with the same repetitions and anchor whose intervals differ - one in months /
    years, one exact - but cover the same total span, so that the derived far end coincides: they differ in
    the interval and must compare unequal."""
    anchor = R.gen_anchor(rng, m)
    anchor = T.tp_from_inst(m, T.inst(m, anchor), anchor[0], anchor[7], anchor[8])
    n = rng.choice([2, 2, 3, 4, 5])
    y, mo = rng.choice([(0, 1), (0, 1), (1, 0), (0, 2), (0, 12), (2, 0), (0, 3)])
    d = ("U", y, mo, 0, 0, 0, 0)
    fmt = rng.choice([3, 4])
    mult = ("U", y * (n - 1), mo * (n - 1), 0, 0, 0, 0)
    far = R.step(m, anchor, mult, 1 if fmt == 3 else -1)
    span = abs(T.inst(m, far) - T.inst(m, anchor))
    if span % (n - 1) or span == 0:
        return None
    per = span // (n - 1)
    exact = ("U", 0, 0, per // 86400, 0, 0, per % 86400)
    if fmt == 3:
        x, yrec = (n, anchor, d, None), (n, anchor, exact, None)
    else:
        x, yrec = (n, None, d, anchor), (n, None, exact, anchor)
    info = dict(fmt=fmt, anchor=anchor, interval=d, reps=n)
    if rng.random() < 0.5:
        x, yrec = yrec, x
        info["interval"] = exact
    return (m, x, yrec, "differ:interval", tuple(sorted(info.items())))


def respell(rng, m, rec, info):
    """The same anchors and interval spelled differently (other zone/representation/units)."""
    reps, start, dur, end = rec

    def re(t):
        if t is None:
            return None
        tzh, tzm = gens.offset(rng)
        return T.tp_from_inst(m, T.inst(m, t), rng.choice("cow"), tzh, tzm, use24=rng.random() < 0.3)
    nd = dur
    if dur is not None and R.is_exact(dur) and not R.is_zero(dur):
        from props import c11
        nd = c11.respell(rng, dur)
    return (reps, re(start), nd, re(end))


class Eq(Op):
    prop = PROP
    name = "req"

    def gen(self, rng, tier, boost):
        n = 700 * boost if tier == "quick" else 3000 * boost
        for _ in range(n):
            m = gens.mode(rng)
            rec, info = R.gen_rec(rng, m, max_reps=15)
            r = rng.random()
            if rng.random() < 0.12:
                case = same_span_pair(rng, m)
                if case is not None:
                    yield case
                    continue
            if r < 0.45:
                other, which = perturb(rng, m, rec, info)
                yield (m, rec, other, "differ:" + which, tuple(sorted(info.items())))
            elif r < 0.9:
                yield (m, rec, respell(rng, m, rec, info), "same", tuple(sorted(info.items())))
            else:
                yield (m, rec, rec, "same", tuple(sorted(info.items())))

    def line(self, a):
        return "req %s %s %s" % (a[0], R.rec_line(a[1]), R.rec_line(a[2]))

    def impl(self, a):
        set_mode(a[0])
        x, y = R.mk_rec(a[1]), R.mk_rec(a[2])
        e = x == y
        flags = ""
        if e != (y == x):
            flags += " ASYMMETRIC"
        if (x != y) == e:
            flags += " NE-INCONSISTENT"
        if e and hash(x) != hash(y):
            flags += " HASH-DIFFERS"
        if e:
            info = dict(a[4])
            px, py = [], []
            for i, p in enumerate(x):
                px.append(p)
                if i + 1 >= K:
                    break
            for i, p in enumerate(y):
                py.append(p)
                if i + 1 >= K:
                    break
            same_inst = len(px) == len(py) and all(p == q for p, q in zip(px, py))
            if R.is_exact(info["interval"]) and not same_inst:
                flags += " ITERATE-DIFFERENTLY"
        return ("1" if e else "0") + flags

    def oracle(self, a, out):
        m, x, y, kind, info = a
        if out.startswith(("err", "EXC", "Timeout")):
            return None if kind.startswith("differ") else "equality of %s and %s failed: %s" % (
                R.rec_line(x), R.rec_line(y), out)
        if " " in out:
            return "%s vs %s in %s: %s" % (R.rec_line(x), R.rec_line(y), m, out)
        info = dict(info)
        single = info["reps"] == 1 or R.is_zero(info["interval"])
        if kind == "same" and out != "1":
            if not R.is_exact(info["interval"]) and info["reps"] is not None and info["reps"] >= 2:
                return None   # derived far bound of a nominal bounded recurrence depends on the spelling (F5 domain)
            return "%s and %s spell the same recurrence but compare unequal" % (R.rec_line(x), R.rec_line(y))
        if kind.startswith("differ") and out != "0":
            if single and kind in ("differ:interval", "differ:reps"):
                return None
            return "%s and %s differ in %s but compare equal" % (R.rec_line(x), R.rec_line(y), kind[7:])

    def label(self, a):
        return "req/%s/%s" % (a[0], a[3])


class HashEq(Op):
    prop = PROP
    name = "rhasheq"

    def gen(self, rng, tier, boost):
        for _ in range(400 * boost):
            m = gens.mode(rng)
            rec, info = R.gen_rec(rng, m, nominal=0, max_reps=15)
            yield (m, rec, respell(rng, m, rec, info))

    def line(self, a):
        return "rhasheq %s %s %s" % (a[0], R.rec_line(a[1]), R.rec_line(a[2]))

    def impl(self, a):
        set_mode(a[0])
        return "1" if hash(R.mk_rec(a[1])) == hash(R.mk_rec(a[2])) else "0"

    def oracle(self, a, out):
        if out != "1":
            return "%s and %s are equal recurrences but hash differently (%s)" % (
                R.rec_line(a[1]), R.rec_line(a[2]), out)

    def label(self, a):
        return "rhasheq/%s" % a[0]


class Text(Op):
    """TimeRecurrenceParser.parse(str(r)) == r with the same points (string layer: observed)."""
    prop = PROP
    name = "rtext"
    model = False

    def gen(self, rng, tier, boost):
        for _ in range(500 * boost):
            m = gens.mode(rng)
            rec, info = R.gen_rec(rng, m, max_reps=15)
            anchor = info["anchor"]
            if not 0 <= anchor[1] <= 9000:
                continue
            if any(t is not None and t[1] < 0 for t in (rec[1], rec[3])):
                continue      # (a week date of week-year -1 can be 1 January of year 0: years below 0 do not print)
            yield (m, rec, tuple(sorted(info.items())))

    def line(self, a):
        return "rtext %s %s" % (a[0], R.rec_line(a[1]))

    sibling_rate = 0.5
    _parser = None

    def sibling(self, a, rng):
        """The same text again under another calendar mode (through the same long-lived parser)."""
        m, rec, info = a
        out = []
        for m2 in T.OTHER_MODES[m][:2]:
            if not all(t is None or T.valid(m2, t) for t in (rec[1], rec[3])):
                continue
            if rec[2] is None and T.inst(m2, rec[1]) > T.inst(m2, rec[3]):
                continue      # start/second-point notation: the second point must not precede the start
            out.append((m2, rec, info))
        return out

    def impl(self, a):
        from metomi.isodatetime.parsers import TimeRecurrenceParser
        set_mode(a[0])
        rec = R.mk_rec(a[1])
        text = str(rec)
        if Text._parser is None:
            Text._parser = TimeRecurrenceParser()     # one parser for the whole run, as an application has
        back = Text._parser.parse(text)
        problems = []
        if not (back == rec):
            problems.append("parse(str(r)) != r")
        p0, p1 = [], []
        for i, p in enumerate(rec):
            p0.append(p)
            if i + 1 >= K:
                break
        for i, p in enumerate(back):
            p1.append(p)
            if i + 1 >= K:
                break
        if R.canon_pts(p0) != R.canon_pts(p1):
            problems.append("points differ")
        return text + (" PROBLEMS: " + "; ".join(problems) if problems else "")

    def oracle(self, a, out):
        if "PROBLEMS" in out or out.startswith(("err", "EXC", "Timeout")):
            return "text round trip of %s in %s: %s" % (R.rec_line(a[1]), a[0], out)

    def label(self, a):
        return "rtext/%s/fmt%d" % (a[0], dict(a[2])["fmt"])


class EqHashForms(Op):
    """Equal recurrences whose anchors are SPELLED differently - decimal hours / decimal minutes / h:m:s, calendar /
    ordinal / week date, another UTC offset - are equal and hash equally (and land in one set / dict entry).  Dyadic
    fractions (quarter hours, half minutes), so every spelling denotes exactly the same instant in binary64."""
    prop = PROP
    name = "reqforms"
    model = False

    def gen(self, rng, tier, boost):
        from fractions import Fraction as F
        for _ in range(300 * boost if tier == "quick" else 3000 * boost):
            m = gens.mode(rng)
            anchor = R.gen_anchor(rng, m)
            if not 2 <= anchor[1] <= 9000:
                continue
            # an instant on a half minute or a quarter hour
            base = T.inst(m, anchor)
            base -= base % 900
            form = rng.choice(["m", "m", "h"])
            extra = rng.choice([30, 90, 450]) if form == "m" else rng.choice([900, 1800, 2700])
            total = base + extra
            zones = [(0, 0), (0, 0), (anchor[7], anchor[8])] if form == "m" else [(0, 0), (1, 0), (-3, 0)]
            za = rng.choice(zones)
            zb = rng.choice([(0, 0), (5, 0), (-8, 0), za]) if form == "h" else rng.choice([(0, 0), (5, 30), (-3, -30), za])
            yield (m, total, form, rng.choice("ccow"), za, rng.choice("cow"), zb,
                   rng.choice([None, 2, 5]), rng.choice([3600, 86400, 1800, 7 * 86400]), rng.choice([3, 4]))

    def line(self, a):
        return "reqforms %s inst=%d form=%s repA=%s zoneA=%r repB=%s zoneB=%r reps=%s step=%ds fmt%d" % a

    def points(self, a):
        from fractions import Fraction as F
        import qcommon as Q
        m, total, form, ra, za, rb, zb, reps, step, fmt = a

        def spell(rep, z, fm):
            local = total + 3600 * z[0] + 60 * z[1]
            sod = local % 86400                                             # the time of day, exactly
            t = T.tp_from_inst(m, total - (sod % 60), rep, z[0], z[1])      # whole minute: the date fields
            if fm == "s":
                return Q.mk_point((t[0], t[1], t[2], t[3], F(sod // 3600), F(sod % 3600 // 60), F(sod % 60), z[0], z[1]))
            if fm == "m":
                return Q.mk_point((t[0], t[1], t[2], t[3], F(sod // 3600), F(sod % 3600, 60), None, z[0], z[1]))
            return Q.mk_point((t[0], t[1], t[2], t[3], F(sod, 3600), None, None, z[0], z[1]))
        return spell(ra, za, form), spell(rb, zb, "s")

    def impl(self, a):
        from metomi.isodatetime.data import TimeRecurrence, Duration
        m, total, form, ra, za, rb, zb, reps, step, fmt = a
        set_mode(m)
        pa, pb = self.points(a)
        d = Duration(seconds=step)
        if fmt == 3:
            r1 = TimeRecurrence(repetitions=reps, start_point=pa, duration=d)
            r2 = TimeRecurrence(repetitions=reps, start_point=pb, duration=d)
        else:
            r1 = TimeRecurrence(repetitions=reps, duration=d, end_point=pa)
            r2 = TimeRecurrence(repetitions=reps, duration=d, end_point=pb)
        problems = []
        if not (pa == pb) or hash(pa) != hash(pb):
            problems.append("the anchors %s and %s: == %s, hashes %s" % (pa, pb, pa == pb, "equal" if hash(pa) == hash(pb) else "differ"))
        if not (r1 == r2 and r2 == r1):
            problems.append("%s != %s" % (r1, r2))
        if hash(r1) != hash(r2):
            problems.append("hash(%s) != hash(%s)" % (r1, r2))
        if len({r1, r2}) != 1:
            problems.append("a set keeps both")
        return "ok" if not problems else "PROBLEMS " + "; ".join(problems)

    def oracle(self, a, out):
        if out != "ok":
            return "%s: %s" % (self.line(a), out)

    def label(self, a):
        return "reqforms/%s/%s/%s" % (a[0], a[2], a[3])


class TextTiny(Op):
    """The text round trip for intervals with a very small or long-fraction time component (hours, minutes or seconds
    below 1e-4, which str() prints in exponent notation; fractions with 7+ digits): parse(str(r)) == r with the same
    points, and the same after a shift.  The component values are exact binary64 numbers, so the round trip of
    repr(float) is exact."""
    prop = PROP
    name = "rtexttiny"
    model = False

    VALUES = [1e-05, 1.25e-05, 2.5e-05, 1e-07, 2.5e-07, 0.0000125, 0.00009999, 0.0001, 0.0001234567, 0.5 ** 17,
              0.5 ** 20, 1.0000001, 0.1234567, 12.0000125, 3e-06]

    def gen(self, rng, tier, boost):
        for _ in range(150 * boost if tier == "quick" else 1500 * boost):
            m = gens.mode(rng)
            anchor = R.gen_anchor(rng, m)
            anchor = T.tp_from_inst(m, T.inst(m, anchor), anchor[0], anchor[7], anchor[8])
            if not 2 <= anchor[1] <= 9000:      # (duration/end series reach back before the anchor; years below 0 do not print)
                continue
            unit = rng.choice(["seconds", "seconds", "minutes", "hours"])
            yield (m, anchor, unit, rng.randrange(len(self.VALUES)), rng.choice([None, 2, 3, 5]), rng.choice([3, 4]),
                   rng.choice([0, 0, 1, 2]))

    def line(self, a):
        return "rtexttiny %s %s %s=%r reps=%s fmt%d whole-days=%d" % (a[0], T.tp_str(a[1]), a[2], self.VALUES[a[3]],
                                                                      a[4], a[5], a[6])

    def impl(self, a):
        from metomi.isodatetime.data import TimeRecurrence, Duration
        from metomi.isodatetime.parsers import TimeRecurrenceParser
        m, anchor, unit, vi, reps, fmt, days = a
        set_mode(m)
        d = Duration(days=days, **{unit: self.VALUES[vi]})
        p = T.mk_tp(anchor)
        rec = TimeRecurrence(repetitions=reps, start_point=p, duration=d) if fmt == 3 else \
            TimeRecurrence(repetitions=reps, duration=d, end_point=p)
        problems = []
        for name, r in (("r", rec), ("r + P1D", rec + Duration(days=1))):
            text = str(r)
            back = TimeRecurrenceParser().parse(text)
            if not (back == r):
                problems.append("parse(str(%s)) != %s [%s]" % (name, name, text))
            pts0 = [str(q) for q in itertools.islice(r, 3)]
            pts1 = [str(q) for q in itertools.islice(back, 3)]
            if pts0 != pts1 or not all(x == y for x, y in zip(itertools.islice(r, 3), itertools.islice(back, 3))):
                problems.append("points of %s differ after the round trip [%s]" % (name, text))
        return "ok" if not problems else "PROBLEMS: " + "; ".join(problems)

    def oracle(self, a, out):
        if out != "ok":
            return "%s: %s" % (self.line(a), out)

    def label(self, a):
        return "rtexttiny/%s/%s/%s" % (a[0], a[2], "tiny" if self.VALUES[a[3]] < 1e-4 else "long-fraction")


def ops():
    import common
    common.foreign_configurations()
    import recmm
    return [Shift(), Eq(), HashEq(), EqHashForms(), Text(), TextTiny(),
            recmm.RecMMOp(PROP, "mmvalue", ["mmrshift", "mmreq", "mmreq", "mmrhasheq"], 500),
            __import__("rectextops").RecTextOp()]
