"""C15 — the active calendar mode alone determines calendar results.

Oracle-only operations (the Lean side of C15 is a proof about the cache state machine for any
function bodies that read/call what Gen.Cache says; there is no driver model of the bodies):

  c15hist   random histories of CALENDAR.set_mode over the 7 spellings (API, `--calendar`, the
            ISODATETIMECALENDAR environment variable) interleaved with calendar computations
            (module-level helpers, conversions, TimePoint arithmetic, constructor validation,
            parsing/dumping, recurrence expansion, `main([...])`).  Every result is compared with
            (1) a process-like state that only ever used the current mode: a brand-new Calendar
            singleton + cache_clear() on every lru_cache, (2) the pure Python calendar oracle
            (harness/oracle.py) for the helpers, (3) thorough tier: a fresh subprocess per mode
            fed the same computations.  A failing history is shrunk and printed.
  c15table  dynamic validation of the generated dependency table: every memoised helper (found
            by introspection, not by the translator) is called under all modes with warm caches
            and again with cleared caches; warm must equal cold, helpers the table calls
            mode-independent must not vary, and results must differ between modes exactly where
            the oracle says.
  c15attrs  every ordered pair of spellings: what set_mode leaves on the singleton equals the
            oracle's tables and derived constants, and the attributes the table classifies as
            mode-independent never change.
"""
import io
import os
import sys
import json
import zlib
import random
import inspect
import contextlib
import subprocess

import oracle
import common
import engine
import gen_cache
from engine import Op

PROP = "C15"
LEAN_MODULES = ["IsoDT.Props.C15", "IsoDT.Props.C15algo"]
REQUIRED_THEOREMS = ["IsoDT.Props.C15." + n for n in (
    "C15_inv", "C15_fresh", "C15_discipline", "C15_modes", "C15_modes_tables", "C15_modes_spec",
    "C15_unkeyed_independent")]
PARALLEL = False     # the thorough tier spawns its own subprocesses
RULE = ("histories: 25-70 steps drawn from a per-history pool of computations (so the same call "
        "recurs under different modes) x mode switches over the 7 spellings via API/CLI/env; a "
        "case is one history (op, seed, length), non-trivial when it visits >= 2 modes; table/attrs "
        "ops are exhaustive over (memoised helper x sample arguments) and (spelling x spelling)")
ASSUMPTIONS = [
    "the cache theorems are about arbitrary bodies that read/call what Gen.Cache records; that "
    "the Python bodies do so is established by the translator's AST walk and re-validated "
    "dynamically (c15table), not proved",
    "functools.lru_cache is a map keyed by the call arguments (CPython trusted)",
    "cached values are not mutated by callers (the list returned by _iter_months_days is only "
    "iterated in the package; not checked)",
    "single-threaded use: no set_mode between a wrapper reading CALENDAR.mode and the helper body",
]
TRUSTED_EXTRA = ["harness/gen_cache.py (AST walk of data.py/dumpers.py -> Gen/Cache.lean)"]
EXPLANATION = ("C15_inv/C15_fresh: for every table passing KeyDiscipline, any history, any bodies "
               "conforming to the table; C15_discipline: the regenerated table passes; C15_modes*: "
               "the seven spellings install the four calendars of the property text.")

SPELLINGS = ["gregorian", "360day", "360_day", "365day", "365_day", "366day", "366_day"]
CLI_CHOICES = ["gregorian", "360day", "365day", "366day"]
ENV_CAL = "ISODATETIMECALENDAR"
ENV_REF = "ISODATETIMEREF"


# ---------------------------------------------------------------------------------------------
# implementation access

_KEPT = {}

def _data():
    from metomi.isodatetime import data
    return data


def memoised_functions():
    """Every lru_cache wrapper reachable from the package's modules (by introspection)."""
    import metomi.isodatetime.data as data
    import metomi.isodatetime.dumpers as dumpers
    import metomi.isodatetime.parsers as parsers
    import metomi.isodatetime.datetimeoper as datetimeoper
    found = []
    for mod in (data, dumpers, parsers, datetimeoper):
        for name, obj in sorted(vars(mod).items()):
            if hasattr(obj, "cache_clear") and hasattr(obj, "__wrapped__"):
                found.append((mod.__name__.split(".")[-1] + "." + name, obj))
            elif inspect.isclass(obj) and obj.__module__ == mod.__name__:
                for mname, meth in sorted(vars(obj).items()):
                    if hasattr(meth, "cache_clear") and hasattr(meth, "__wrapped__"):
                        found.append(("%s.%s.%s" % (mod.__name__.split(".")[-1], name, mname),
                                      meth))
    return found


def clear_caches():
    for _, func in memoised_functions():
        func.cache_clear()


def fresh_state(spelling=None):
    """The in-process stand-in for a fresh process: a brand-new Calendar singleton (constructed
    the way import does it) and empty lru_caches; then at most one set_mode."""
    data = _data()
    data.Calendar._DEFAULT = None
    data.CALENDAR = data.Calendar.default()
    clear_caches()
    _KEPT.clear()           # a fresh process has no long-lived parser either
    if spelling is not None:
        data.CALENDAR.set_mode(spelling)


def current_spelling():
    return _data().CALENDAR.mode


def model_mode(spelling):
    return oracle.ALL_SPELLINGS.get(str(spelling).lower())


# ---------------------------------------------------------------------------------------------
# computations: (kind, args...) -> canonical string

def _fmt(t):
    return " ".join(str(int(x)) for x in t)


def _digest(pairs):
    pairs = list(pairs)
    if not pairs:
        return "0"
    return "%d %s %s %08x" % (len(pairs), _fmt(pairs[0]), _fmt(pairs[-1]),
                              zlib.crc32(repr([tuple(int(x) for x in p) for p in pairs]).encode()))


CONV = {
    "c2o": "get_ordinal_date_from_calendar_date", "o2c": "get_calendar_date_from_ordinal_date",
    "w2c": "get_calendar_date_from_week_date", "c2w": "get_week_date_from_calendar_date",
    "w2o": "get_ordinal_date_from_week_date", "o2w": "get_week_date_from_ordinal_date"}


def _tp(t):
    import tpcommon
    return tpcommon.mk_tp(tuple(t))


def run_cli(how, spelling, argv):
    from metomi.isodatetime import main as cli
    args = list(argv)
    saved = {k: os.environ.get(k) for k in (ENV_CAL, ENV_REF)}
    os.environ.pop(ENV_CAL, None)
    os.environ.pop(ENV_REF, None)
    if how == "opt":
        args = ["--calendar", spelling] + args
    elif how == "env":
        os.environ[ENV_CAL] = spelling
    buf = io.StringIO()
    try:
        with contextlib.redirect_stdout(buf), contextlib.redirect_stderr(io.StringIO()):
            cli.main(args)
        return "out:" + buf.getvalue().strip().replace("\n", "|")
    except SystemExit as exc:
        return "exit:%s" % (exc.code,)
    finally:
        for k, v in saved.items():
            if v is None:
                os.environ.pop(k, None)
            else:
                os.environ[k] = v


def compute(comp):
    """Run one computation on the implementation in whatever mode it is in."""
    data = _data()
    kind = comp[0]
    a = comp[1:]
    if kind == "leap":
        return str(bool(data.get_is_leap_year(a[0])))
    if kind == "diy":
        return str(data.get_days_in_year(a[0]))
    if kind == "dim":
        return str(data.get_days_in_month(a[0], a[1]))
    if kind == "dimflag":
        return str(data.get_days_in_month(a[0], a[1]))
    if kind == "range":
        return str(data.get_days_in_year_range(a[0], a[1]))
    if kind == "wiy":
        return str(data.get_weeks_in_year(a[0]))
    if kind == "wstart":
        return _fmt(data.get_calendar_date_week_date_start(a[0]))
    if kind == "owstart":
        return _fmt(data.get_ordinal_date_week_date_start(a[0]))
    if kind == "since1ad":
        return str(data.get_days_since_1_ad(a[0]))
    if kind == "iter":
        return _digest(data.iter_months_days(a[0], a[1], a[2], bool(a[3])))
    if kind in CONV:
        return _fmt(getattr(data, CONV[kind])(*a))
    if kind == "valid":
        rep = a[0]
        if rep == "c":
            data.TimePoint(year=a[1], month_of_year=a[2], day_of_month=a[3])
        elif rep == "o":
            data.TimePoint(year=a[1], day_of_year=a[2])
        else:
            data.TimePoint(year=a[1], week_of_year=a[2], day_of_week=a[3])
        return "ok"
    import tpcommon
    if kind == "add":
        return tpcommon.canon_tp(_tp(a[0]) + tpcommon.mk_dur(tuple(a[1])))
    if kind == "sub":
        return tpcommon.canon_dur(_tp(a[0]) - _tp(a[1]))
    if kind == "cmp":
        p, q = _tp(a[0]), _tp(a[1])
        return "<" if p < q else ("=" if p == q else ">")
    if kind == "views":
        p = _tp(a[0])
        return " | ".join([_fmt(p.get_calendar_date()), _fmt(p.get_ordinal_date()),
                           _fmt(p.get_week_date())])
    if kind == "durdays":
        return _fmt(data.Duration(years=a[0], months=a[1], days=a[2]).get_days_and_seconds())
    if kind == "unix":
        return str(data.get_timepoint_from_seconds_since_unix_epoch(a[0], utc=True))
    if kind == "unixlocal":
        # the same translation into a LOCAL zone (patched): west of UTC the epoch lies on the last day of a year
        from metomi.isodatetime import timezone as tzmod
        saved = tzmod.get_local_time_zone
        tzmod.get_local_time_zone = lambda: (a[1], a[2])
        try:
            return str(data.get_timepoint_from_seconds_since_unix_epoch(a[0], utc=False))
        finally:
            tzmod.get_local_time_zone = saved
    if kind == "since":
        return str(_tp(a[0]).seconds_since_unix_epoch)
    if kind == "parse":
        from metomi.isodatetime import parsers
        return str(parsers.TimePointParser().parse(a[0]))
    if kind == "parsekept":
        # one long-lived parser for the whole process (an application keeps its parser across mode switches)
        from metomi.isodatetime import parsers
        if "tp" not in _KEPT:
            _KEPT["tp"] = parsers.TimePointParser(assumed_time_zone=(0, 0))
        return str(_KEPT["tp"].parse(a[0]))
    if kind == "fmt":
        return data.TIMEPOINT_DUMPER_MAP[0].dump(_tp(a[0]), a[1])
    if kind == "rec":
        from metomi.isodatetime import parsers
        rec = parsers.TimeRecurrenceParser().parse(a[0])
        outs = []
        for point in rec:
            outs.append(str(point))
            if len(outs) >= a[1]:
                break
        return "|".join(outs)
    if kind == "cli":
        return run_cli(a[0], a[1], a[2])
    raise KeyError("unknown computation %r" % (kind,))


def safe_compute(comp):
    try:
        return engine.guarded(compute, comp)
    except BaseException as exc:  # noqa — SystemExit is handled inside run_cli
        if isinstance(exc, KeyboardInterrupt):
            raise
        return engine.canon_exc(exc)


def expected_mode_after(step, before):
    """The spelling CALENDAR.mode must hold after the step."""
    if step[0] == "mode":
        return step[1]
    if step[0] == "cli":
        how, spelling = step[1], step[2]
        if how == "none":
            return "gregorian"
        return spelling
    return before


def run_history(steps):
    """Execute steps in order from a fresh state; returns [(spelling in force, result)]."""
    fresh_state()
    data = _data()
    out = []
    for step in steps:
        before = data.CALENDAR.mode
        if step[0] == "mode":
            try:
                data.CALENDAR.set_mode(step[1])
                res = "set"
            except Exception as exc:  # noqa
                res = engine.canon_exc(exc)
        else:
            res = safe_compute(step)
        after = data.CALENDAR.mode
        want = expected_mode_after(step, before)
        if after != want:
            res = "MODE-LEFT %r (expected %r) after %s" % (after, want, res)
        out.append((after, res))
    return out


def reference_in_process(spelling, comps):
    fresh_state(spelling)
    return [safe_compute(c) for c in comps]


# ---------------------------------------------------------------------------------------------
# pure oracle for the helper computations (None = no opinion)

def _iter_oracle(m, y, mo, d, rev):
    tab = oracle.month_tab(m, oracle.leap(m, y))
    if d is not None and mo is None:
        return None
    if mo is not None and not (1 <= mo <= 12):
        return None
    pairs = []
    if rev:
        for month in range(12, 0, -1):
            if mo is not None and month > mo:
                continue
            top = d if (mo is not None and month == mo and d is not None) else tab[month - 1]
            pairs += [(month, day) for day in range(top, 0, -1)]
    else:
        for month in range(1, 13):
            if mo is not None and month < mo:
                continue
            lo = d if (mo is not None and month == mo and d is not None) else 1
            pairs += [(month, day) for day in range(lo, tab[month - 1] + 1)]
    return _digest(pairs)


def oracle_value(m, comp):
    kind = comp[0]
    a = comp[1:]
    if kind == "leap":
        return str(oracle.is_leap_g(a[0]))
    if kind == "diy":
        return str(oracle.year_len(m, a[0]))
    if kind == "dim":
        if isinstance(a[1], int) and 1 <= a[0] <= 12:
            return str(oracle.month_len(m, a[1], a[0]))
        return None
    if kind == "dimflag":
        if 1 <= a[0] <= 12:
            return str(oracle.month_tab(m, a[1] == "leap")[a[0] - 1])
        return None
    if kind == "range":
        return str(oracle.dby(m, a[1] + 1) - oracle.dby(m, a[0]) if a[0] <= a[1] else 0)
    if kind == "wiy":
        return str(oracle.weeks_in_year(m, a[0]))
    if kind == "wstart":
        return _fmt(oracle.cal_of_day_num(m, oracle.week_year_start(m, a[0])))
    if kind == "owstart":
        return _fmt(oracle.ord_of_day_num(m, oracle.week_year_start(m, a[0])))
    if kind == "since1ad":
        return str(oracle.dby(m, a[0] + 1) if a[0] >= 1 else 0)
    if kind == "iter":
        return _iter_oracle(m, a[0], a[1], a[2], a[3])
    if kind in CONV:
        src, dst = kind[0], kind[2]
        date = (src,) + tuple(a)
        if not oracle.date_valid(m, date):
            return None
        n = oracle.date_day_num(m, date)
        view = {"c": oracle.cal_of_day_num, "o": oracle.ord_of_day_num,
                "w": oracle.week_of_day_num}[dst]
        return _fmt(view(m, n))
    if kind == "valid":
        date = (a[0],) + tuple(a[1:])
        return "ok" if oracle.date_valid(m, date) else "err"
    if kind == "durdays":
        rough_year = sum(oracle.month_tab(m, False))
        return "%d 0" % (a[0] * rough_year + a[1] * 30 + a[2])
    return None


# ---------------------------------------------------------------------------------------------
# generators

YEARS = [0, 0, 1, 4, 100, 400, 1600, 1900, 1970, 1999, 2000, 2001, 2003, 2004, 2005, 2008, 2020, 2021,
         2024, 2099, 2100, 2400, 9998]


def g_year(rng):
    r = rng.random()
    if r < 0.5:
        return rng.choice(YEARS)
    if r < 0.9:
        return rng.randint(1890, 2110)
    return rng.randint(1, 9990)


def g_month(rng):
    return rng.choice([1, 2, 2, 2, 3, 12]) if rng.random() < 0.5 else rng.randint(1, 12)


def g_day(rng):
    return rng.choice([1, 28, 29, 30, 31]) if rng.random() < 0.6 else rng.randint(1, 31)


def g_doy(rng):
    return (rng.choice([1, 31, 59, 60, 61, 90, 359, 360, 361, 365, 366])
            if rng.random() < 0.6 else rng.randint(1, 366))


def g_week(rng):
    return rng.choice([1, 2, 9, 51, 52, 53]) if rng.random() < 0.6 else rng.randint(1, 53)


def g_date(rng):
    rep = rng.choice("cow")
    if rep == "c":
        return ("c", g_year(rng), g_month(rng), g_day(rng))
    if rep == "o":
        return ("o", g_year(rng), g_doy(rng))
    return ("w", g_year(rng), g_week(rng), rng.randint(1, 7))


def g_tp(rng):
    date = g_date(rng)
    hh, mi, ss = rng.choice([(0, 0, 0), (23, 59, 59), (12, 30, 0), (6, 0, 1)])
    tzh, tzm = rng.choice([(0, 0), (0, 0), (5, 30), (-9, -45), (13, 0)])
    if date[0] == "o":
        return ("o", date[1], date[2], 0, hh, mi, ss, tzh, tzm)
    return (date[0], date[1], date[2], date[3], hh, mi, ss, tzh, tzm)


def g_dur(rng):
    r = rng.random()
    if r < 0.15:
        return ("W", rng.choice([1, 2, 52, 53, -1, -52]))
    sign = rng.choice([1, 1, -1])
    if r < 0.22:
        # four centuries and more of days: a 400-year cycle is 146097 / 144000 / 146000 / 146400 days by mode
        return ("U", 0, 0, sign * rng.choice([144000, 146000, 146097, 146400, 150000, 200000, 292194]), 0, 0, 0)
    if r < 0.5:
        return ("U", 0, 0, sign * rng.choice([1, 2, 28, 29, 30, 31, 59, 60, 359, 360, 365, 366,
                                              367, 730, 1461]), 0, 0, 0)
    if r < 0.75:
        return ("U", 0, sign * rng.choice([1, 2, 11, 12, 13, 24]), rng.choice([0, 0, 1]), 0, 0, 0)
    if r < 0.9:
        return ("U", sign * rng.choice([1, 3, 4, 100]), rng.choice([0, 0, 1]), 0, 0, 0, 0)
    return ("U", 0, 0, sign * rng.randint(0, 800), sign * rng.randint(0, 47), 0,
            sign * rng.randint(0, 86400))


def _iso(date):
    if date[0] == "c":
        return "%04d-%02d-%02d" % date[1:]
    if date[0] == "o":
        return "%04d-%03d" % date[1:]
    return "%04d-W%02d-%d" % date[1:]


INTERVALS = ["P1D", "P2D", "P30D", "P1M", "P1Y", "PT12H", "P1W", "P1M1D"]
DUMP_FORMATS = ["CCYY-MM-DD", "CCYYDDD", "CCYY-Www-D", "CCYY-MM-DDThh:mm:ssZ", "CCYY-DDDThh+hh:mm"]


def g_comp(rng):
    """One calendar computation (not a mode switch)."""
    r = rng.random()
    y = g_year(rng)
    if r < 0.30:
        k = rng.choice(["leap", "diy", "dim", "dim", "dimflag", "range", "wiy", "wstart", "owstart",
                        "since1ad", "iter"])
        if k in ("leap", "diy", "wiy", "wstart", "owstart", "since1ad"):
            return (k, y)
        if k == "dim":
            if rng.random() < 0.25:       # February of the years a truth test or a table slip gets wrong
                return (k, 2, rng.choice([0, 0, 4, 100, 400, 1900, 2000, -4]))
            return (k, g_month(rng), y)
        if k == "dimflag":
            return (k, g_month(rng), rng.choice(["leap", None]))
        if k == "range":
            return (k, y, y + rng.choice([0, 1, 3, 4, 99, 400, -1]))
        mo = rng.choice([None, None, g_month(rng)])
        d = None if mo is None else rng.choice([None, 1, 15, 28])
        return (k, y, mo, d, int(rng.random() < 0.4))
    if r < 0.45:
        k = rng.choice(sorted(CONV))
        date = {"c": ("c", y, g_month(rng), g_day(rng)), "o": ("o", y, g_doy(rng)),
                "w": ("w", y, g_week(rng), rng.randint(1, 7))}[k[0]]
        return (k,) + date[1:]
    if r < 0.55:
        if rng.random() < 0.2:
            return ("valid", "c", rng.choice([0, 0, 4, 100, 1900, 2000, 2001]), 2, rng.choice([28, 29, 30]))
        return ("valid",) + g_date(rng)
    if r < 0.68:
        return ("add", g_tp(rng), g_dur(rng))
    if r < 0.74:
        p = g_tp(rng)
        q = g_tp(rng)
        if rng.random() < 0.7:
            q = (q[0], p[1] + rng.choice([0, 0, 1, -1, 4]),) + q[2:]
        return (rng.choice(["sub", "sub", "cmp"]), p, q)
    if r < 0.79:
        return ("views", g_tp(rng))
    if r < 0.82:
        return ("durdays", rng.choice([0, 1, 4]), rng.choice([0, 1, 13]), rng.choice([0, 1, 400]))
    if r < 0.85:
        n = rng.choice([0, 86400 * 59, 86400 * 365, 951782400, -86400 * 306, rng.randint(0, 2 * 10 ** 9)])
        k = rng.random()
        if k < 0.4:
            return ("unix", n)
        if k < 0.8:
            return ("unixlocal", rng.choice([0, 1, 3600, 86400 * 59, n]),
                    *rng.choice([(-5, 0), (-5, 0), (-9, -30), (-1, 0), (5, 30), (0, 0), (-12, 0)]))
        p = g_tp(rng)
        return ("since", p)
    if r < 0.90:
        date = g_date(rng)
        if rng.random() < 0.5:
            # dates that exist in some calendars only, spelled the same every time
            return ("parsekept", rng.choice(["2014-02-30", "2014-02-29", "2016-02-29", "2014-02-30T12Z", "2014-366", "2016-366",
                                             "2015-W53-1", "2014-361", "2014-12-31", "2014-W52-7", "20140230T00Z", "2014-03-31"]))
        return ("parse", _iso(date) + rng.choice(["T00Z", "T06:30+05:30", "T23:59:59Z"]))
    if r < 0.93:
        return ("fmt", g_tp(rng), rng.choice(DUMP_FORMATS))
    date = g_date(rng)
    n = rng.choice([2, 3, 5])
    if rng.random() < 0.75:
        s = "R%d/%sT00Z/%s" % (n, _iso(date), rng.choice(INTERVALS))
    else:
        s = "R%d/%s/%sT00Z" % (n, rng.choice(INTERVALS), _iso(date))
    return ("rec", s, n)


def g_cli(rng):
    how = rng.choice(["opt", "opt", "env", "env", "none"])
    spelling = rng.choice(CLI_CHOICES) if how != "env" else rng.choice(SPELLINGS)
    if how == "none":
        spelling = "gregorian"
    date = ("c", g_year(rng), rng.choice([1, 2, 2, 3, 12]), rng.choice([1, 27, 28, 29, 30]))
    kind = rng.random()
    if kind < 0.3:
        argv = [_iso(date) + "T00Z", "--offset", rng.choice(["P1D", "P2D", "P3D", "P1M", "-P1D",
                                                             "P1Y"])]
    elif kind < 0.5:
        argv = [_iso(date) + "T00Z", "%04d-03-01T00Z" % (date[1] + rng.choice([0, 1]))]
    elif kind < 0.7:
        argv = ["R3/%sT00Z/%s" % (_iso(date), rng.choice(["P1D", "P1M"]))]
    elif kind < 0.8:
        argv = ["--as-total", rng.choice(["h", "s"]), rng.choice(["P1Y", "P1Y1M", "P400D"])]
    elif kind < 0.9:
        argv = ["-f", rng.choice(["CCYYDDD", "CCYY-Www-D", "%j"]), _iso(date) + "T00Z"]
    else:
        argv = [_iso(date) + "T00Z"]
    return ("cli", how, spelling, argv)


def make_history(hseed, nsteps):
    rng = random.Random(hseed)
    pool = [g_comp(rng) for _ in range(rng.randint(5, 10))]
    steps = []
    for _ in range(nsteps):
        r = rng.random()
        if r < 0.22:
            steps.append(("mode", rng.choice(SPELLINGS)))
        elif r < 0.29:
            steps.append(g_cli(rng))
        elif r < 0.80:
            steps.append(rng.choice(pool))
        else:
            comp = g_comp(rng)
            if rng.random() < 0.5:
                pool[rng.randrange(len(pool))] = comp
            steps.append(comp)
    return steps


# ---------------------------------------------------------------------------------------------
# subprocess reference (thorough tier)

CHILD_CODE = ("import sys; sys.path.insert(0, %r); import common; common.use_repo(); "
              "from props import c15; c15.child_main()")


def child_main():
    job = json.loads(sys.stdin.read())
    data = _data()
    spelling = job["spelling"]
    if spelling is not None:
        data.CALENDAR.set_mode(spelling)
    outs = []
    for comp in job["comps"]:
        outs.append(safe_compute(_detuple(comp)))
    sys.stdout.write(json.dumps({"outs": outs, "mode": data.CALENDAR.mode}))


def _detuple(x):
    if isinstance(x, list):
        return tuple(_detuple(v) for v in x)
    return x


def _cli_argv_list(comp):
    # ("cli", how, spelling, argv): argv stays a list for argparse
    if comp[0] == "cli":
        return (comp[0], comp[1], comp[2], list(comp[3]))
    return comp


def reference_subprocess(spelling, comps):
    env = dict(os.environ)
    env["PYTHONPATH"] = common.REPO
    env["VERIF_REPO"] = common.REPO
    env.pop(ENV_CAL, None)
    env.pop(ENV_REF, None)
    job = json.dumps({"spelling": spelling, "comps": comps})
    proc = subprocess.run(["/venv/bin/python", "-c", CHILD_CODE % common.HERE],
                          input=job.encode(), stdout=subprocess.PIPE, stderr=subprocess.PIPE,
                          env=env, cwd="/", timeout=600)
    if proc.returncode != 0:
        raise RuntimeError("fresh subprocess failed: " + proc.stderr.decode()[-400:])
    return json.loads(proc.stdout.decode())["outs"]


# ---------------------------------------------------------------------------------------------
# the history operation

def describe_step(step):
    if step[0] == "mode":
        return "set_mode(%r)" % step[1]
    if step[0] == "cli":
        pre = {"opt": "--calendar %s " % step[2], "env": "%s=%s " % (ENV_CAL, step[2]),
               "none": ""}[step[1]]
        return "main(%s%s)" % (pre, " ".join(step[3]))
    return "%s%r" % (step[0], tuple(step[1:]))


def check_history(steps, use_subprocess=False):
    """Returns None if every result equals the single-mode reference (and the oracle), else
    (index of the first bad step, message)."""
    steps = [_cli_argv_list(s) for s in steps]
    got = run_history(steps)
    by_spelling = {}
    for i, (step, (spelling, res)) in enumerate(zip(steps, got)):
        if res.startswith("MODE-LEFT"):
            return i, res
        if step[0] == "mode":
            if res != "set":
                return i, "set_mode(%r) failed: %s" % (step[1], res)
            continue
        by_spelling.setdefault(spelling, []).append(i)
    bad = []
    for spelling, idxs in sorted(by_spelling.items()):
        comps = [steps[i] for i in idxs]
        m = model_mode(spelling)
        for i in idxs:
            want = oracle_value(m, steps[i]) if m else None
            if want is not None and got[i][1] != want and got[i][1] != "Timeout":
                bad.append((i, "in mode %s, %s returned %s; the calendar definition says %s" % (
                    spelling, describe_step(steps[i]), got[i][1], want)))
        ref = reference_in_process(spelling, comps)
        for i, want in zip(idxs, ref):
            if got[i][1] != want and "Timeout" not in (got[i][1], want):
                bad.append((i, "in mode %s, %s returned %s after this history; a state that only "
                               "ever used %s returns %s" % (spelling, describe_step(steps[i]),
                                                            got[i][1], spelling, want)))
        if use_subprocess:
            ref = reference_subprocess(spelling, comps)
            for i, want in zip(idxs, ref):
                if got[i][1] != want and "Timeout" not in (got[i][1], want):
                    bad.append((i, "in mode %s, %s returned %s after this history; a fresh "
                                   "process that only ever used %s returns %s" % (
                                       spelling, describe_step(steps[i]), got[i][1], spelling,
                                       want)))
    if not bad:
        return None
    return min(bad)


def shrink_history(steps, idx):
    """Greedy: keep the failing step last, drop earlier steps while some step still fails."""
    steps = list(steps[:idx + 1])
    budget = 250
    changed = True
    while changed and budget > 0:
        changed = False
        i = len(steps) - 2
        while i >= 0 and budget > 0:
            cand = steps[:i] + steps[i + 1:]
            budget -= 1
            res = check_history(cand)
            if res is not None and res[0] == len(cand) - 1:
                steps = cand
                changed = True
            i -= 1
    return steps


class History(Op):
    name = "c15hist"
    prop = PROP
    model = False

    def gen(self, rng, tier, boost):
        n = (150 if tier == "quick" else 1500) * boost
        for k in range(n):
            yield (rng.randrange(10 ** 11, 10 ** 12), rng.choice([25, 40, 70]))

    def line(self, a):
        return "c15hist seed=%d steps=%d" % (a[0], a[1])

    def label(self, a):
        return "c15hist/%d" % a[1]

    def nontrivial(self, a):
        steps = make_history(a[0], a[1])
        return len(set(expected_mode_after(s, None) for s in steps
                       if s[0] in ("mode", "cli"))) >= 2

    def impl(self, a):
        import signal
        signal.setitimer(signal.ITIMER_REAL, 0)     # steps are budgeted one by one
        steps = make_history(a[0], a[1])
        res = check_history(steps, use_subprocess=self.subprocesses)
        self.last = None
        if res is None:
            modes = len(set(s[1] for s in steps if s[0] == "mode"))
            return "ok steps=%d spellings=%d" % (len(steps), modes)
        idx, msg = res
        small = steps[:idx + 1]
        try:
            if History.shrunk < 3:      # the first failures are minimised, the rest only cut
                History.shrunk += 1
                cand = shrink_history(steps, idx)
                res2 = check_history(cand)
                if res2 is not None:
                    small, msg = cand[:res2[0] + 1], res2[1]
        except Exception:  # noqa
            small = steps[:idx + 1]
        finally:
            fresh_state()
        self.last = (small, msg)
        return "MISMATCH at step %d of %d" % (idx, len(steps))

    subprocesses = False
    shrunk = 0

    def oracle(self, a, out):
        if out.startswith("ok "):
            return None
        if out.startswith("MISMATCH") and getattr(self, "last", None):
            small, msg = self.last
            return "%s; failing history (from a fresh process): %s" % (
                msg, "; ".join(describe_step(s) for s in small))
        return "history could not be evaluated: %s" % out


class HistoryFresh(History):
    """Same histories, additionally compared with fresh subprocesses (thorough tier only)."""
    name = "c15fresh"
    subprocesses = True

    def gen(self, rng, tier, boost):
        if tier == "quick":
            n = 2
        else:
            n = 40 * boost
        for k in range(n):
            yield (rng.randrange(10 ** 11, 10 ** 12), rng.choice([25, 40]))

    def line(self, a):
        return "c15fresh seed=%d steps=%d" % (a[0], a[1])

    def label(self, a):
        return "c15fresh/%d" % a[1]


# ---------------------------------------------------------------------------------------------
# dynamic validation of the dependency table

SAMPLES = {
    "year": [2000, 2001, 2004, 2100, 1, 1999],
    "start_year": [1999, 2000],
    "end_year": [2000, 2004, 2401],
    "month_of_year": [1, 2, 3, 12],
    "day_of_month": [None, 1, 28],
    "day_of_year": [1, 59, 60, 61, 360, 361, 365],
    "week_of_year": [1, 9, 52],
    "day_of_week": [1, 7],
    "is_leap_year": [False, True],
    "in_reverse": [False, True],
    "formatting_string": ["CCYY-MM-DDThh:mm:ss+hh:mm", "CCYYDDD", "CCYY-Www-DThhZ"],
    "time_zone_string": ["+01:00", "-0530", "Z", "junk"],
}
# helper name -> (computation kind, how to build the computation from the sampled arguments)
HELPER_ORACLE = {
    "get_is_leap_year": lambda kw: ("leap", kw["year"]),
    "_get_days_in_year": lambda kw: ("diy", kw["year"]),
    "_get_days_in_year_range": lambda kw: ("range", kw["start_year"], kw["end_year"]),
    "_get_days_in_month": lambda kw: ("dim", kw["month_of_year"], kw["year"]),
    "_get_weeks_in_year": lambda kw: ("wiy", kw["year"]),
    "_get_calendar_date_week_date_start": lambda kw: ("wstart", kw["year"]),
    "_get_ordinal_date_week_date_start": lambda kw: ("owstart", kw["year"]),
    "_get_days_since_1_ad": lambda kw: ("since1ad", kw["year"]),
    "get_calendar_date_from_ordinal_date": lambda kw: ("o2c", kw["year"], kw["day_of_year"]),
    "get_ordinal_date_from_calendar_date":
        lambda kw: ("c2o", kw["year"], kw["month_of_year"], kw["day_of_month"] or 1),
}


def _canon_result(val):
    if isinstance(val, list):
        return _digest(val)
    if isinstance(val, tuple) and all(isinstance(x, (int, float)) for x in val):
        return _fmt(val)
    return str(val)


_ANALYSIS = []


def analysis():
    """gen_cache's reading of the source (once per process), or None when the translator cannot
    express it."""
    if not _ANALYSIS:
        try:
            _ANALYSIS.append(gen_cache.analyse(common.REPO))
        except Exception:  # noqa
            _ANALYSIS.append(None)
    return _ANALYSIS[0]


def table_info():
    """(names the table says are mode-dependent, names it lists as memoised) or None."""
    an = analysis()
    if an is None:
        return None
    return gen_cache.mode_dependent(an), set(r["name"] for r in an["rows"] if r["memo"])


class TableValidation(Op):
    name = "c15table"
    prop = PROP
    model = False

    def _targets(self):
        out = []
        for qual, func in memoised_functions():
            short = qual.split(".", 1)[1]
            params = list(inspect.signature(func.__wrapped__).parameters)
            out.append((qual, short, func, params))
        return out

    def gen(self, rng, tier, boost):
        for qual, short, func, params in self._targets():
            names = [p for p in params if p not in ("_", "self")]
            if any(p not in SAMPLES for p in names):
                yield (qual, "?")
                continue
            combos = [()]
            for p in names:
                combos = [c + (v,) for c in combos for v in SAMPLES[p]]
            rng.shuffle(combos)
            for combo in combos[:150 if tier == "quick" else 2000]:
                yield (qual,) + combo

    def label(self, a):
        return "c15table/" + a[0]

    def _call(self, qual, short, func, params, values):
        """Call the helper the way the package reaches it: through its public wrapper when
        there is one (the wrapper chooses the key), else directly with the current mode as key."""
        data = _data()
        kw = dict(zip([p for p in params if p not in ("_", "self")], values))
        if "self" in params:
            dumper = data.TIMEPOINT_DUMPER_MAP[0]
            return getattr(dumper, short.split(".")[-1])(**kw)
        pub = short.lstrip("_")
        if pub != short and hasattr(data, pub):
            wrapper = getattr(data, pub)
            wparams = list(inspect.signature(wrapper).parameters)
            if short == "_iter_months_days":
                year = 2004 if kw.pop("is_leap_year") else 2001
                return wrapper(year, **kw)
            if set(wparams) == set(kw):
                return wrapper(**kw)
        if "_" in params:
            kw["_"] = data.CALENDAR.mode
        return func(**kw)

    def impl(self, a):
        import signal
        signal.setitimer(signal.ITIMER_REAL, 0)
        qual = a[0]
        target = [t for t in self._targets() if t[0] == qual]
        self.last = None
        if not target:
            return "gone"
        qual, short, func, params = target[0]
        if a[1:] == ("?",):
            return "unsampled " + ",".join(params)
        values = a[1:]

        def one():
            try:
                return _canon_result(self._call(qual, short, func, params, values))
            except Exception as exc:  # noqa
                return engine.canon_exc(exc)

        fresh_state()
        order = list(SPELLINGS)
        random.Random(zlib.crc32(repr(a).encode())).shuffle(order)
        warm = {}
        for _ in range(2):      # two rounds: every mode is revisited with every cache warm
            for spelling in order:
                _data().CALENDAR.set_mode(spelling)
                res = one()
                if spelling in warm and warm[spelling] != res:
                    warm[spelling] = warm[spelling] + " THEN " + res
                else:
                    warm[spelling] = res
        cold = {}
        for spelling in SPELLINGS:
            fresh_state(spelling)
            cold[spelling] = one()
        fresh_state()
        self.last = (short, params, values, warm, cold, order)
        return " ".join("%s=%s" % (s, warm[s]) for s in SPELLINGS)

    def oracle(self, a, out):
        if out == "gone" or out.startswith("unsampled"):
            return None
        if not getattr(self, "last", None):
            return "table validation could not run: " + out
        short, params, values, warm, cold, order = self.last
        call = "%s(%s)" % (short, ", ".join(repr(v) for v in values))
        for s in order:
            if warm[s] != cold[s]:
                visited = (order + order)[:len(order) + order.index(s) + 1]
                if " THEN " not in warm[s] and warm[s].split(" THEN ")[0] != cold[s]:
                    visited = order[:order.index(s) + 1]
                return ("%s in mode %s returns %s with warm caches (after visiting other "
                        "modes) but %s in a fresh state; failing history (from a fresh process, "
                        "helper reached through its public wrapper): %s" % (
                            call, s, warm[s], cold[s],
                            "; ".join("set_mode(%r); %s" % (x, call) for x in visited)))
        # spellings of one mode agree
        for s in SPELLINGS:
            canon = oracle.SPELLING[oracle.ALL_SPELLINGS[s]]
            if cold[s] != cold[canon]:
                return "%s differs between spellings %s (%s) and %s (%s)" % (
                    call, s, cold[s], canon, cold[canon])
        info = table_info()
        name = tname = short
        varies = len(set(cold.values())) > 1
        if info is not None:
            dep, memo = info
            if tname not in memo:
                return "memoised function %s is missing from the generated table" % tname
            if varies and tname not in dep:
                return ("the table says %s does not depend on the mode, but %s gives %s" % (
                    tname, call, cold))
        build = HELPER_ORACLE.get(name)
        if build is not None:
            kw = dict(zip([p for p in params if p not in ("_", "self")], values))
            comp = build(kw)
            for s in SPELLINGS:
                want = oracle_value(oracle.ALL_SPELLINGS[s], comp)
                if want is not None and cold[s] != want:
                    return "%s in mode %s returns %s; the calendar definition says %s" % (
                        call, s, cold[s], want)
        return None


# ---------------------------------------------------------------------------------------------
# what set_mode installs

class ModeAttrs(Op):
    name = "c15attrs"
    prop = PROP
    model = False

    def gen(self, rng, tier, boost):
        for prev in SPELLINGS + [None]:
            for cur in SPELLINGS + [None]:
                yield (str(prev), str(cur))

    def label(self, a):
        return "c15attrs"

    def impl(self, a):
        data = _data()
        prev = None if a[0] == "None" else a[0]
        cur = None if a[1] == "None" else a[1]
        fresh_state()
        base = self._snapshot()
        data.CALENDAR.set_mode(prev)
        data.CALENDAR.set_mode(cur)
        snap = self._snapshot()
        fresh_state()
        self.last = (base, snap)
        cal = snap
        return "%s %s %s %s" % (cal.get("mode"), cal.get("DAYS_IN_YEAR"),
                                cal.get("DAYS_IN_YEAR_LEAP"), cal.get("MAX_WEEKS_IN_YEAR"))

    def _snapshot(self):
        cal = _data().CALENDAR
        snap = {}
        for name in dir(cal):
            if name.startswith("__") or callable(getattr(cal, name)):
                continue
            val = getattr(cal, name)
            if name.startswith("REVERSED_"):
                continue      # one-shot iterators, read by nothing
            snap[name] = repr(val)
        return snap

    def oracle(self, a, out):
        if not getattr(self, "last", None):
            return "could not snapshot the calendar: " + out
        base, snap = self.last
        cur = "gregorian" if a[1] == "None" else a[1]
        m = oracle.ALL_SPELLINGS[cur]
        common_tab = oracle.month_tab(m, False)
        leap_tab = oracle.month_tab(m, True)
        want = {
            "mode": repr(cur),
            "DAYS_IN_MONTHS": repr(tuple(common_tab)),
            "DAYS_IN_MONTHS_LEAP": repr(tuple(leap_tab)),
            "INDEXED_DAYS_IN_MONTHS": repr([(i + 1, d) for i, d in enumerate(common_tab)]),
            "INDEXED_DAYS_IN_MONTHS_LEAP": repr([(i + 1, d) for i, d in enumerate(leap_tab)]),
            "MONTHS_IN_YEAR": "12",
            "DAYS_IN_YEAR": repr(sum(common_tab)),
            "ROUGH_DAYS_IN_YEAR": repr(sum(common_tab)),
            "DAYS_IN_YEAR_LEAP": repr(sum(leap_tab)),
            "MAX_DAYS_IN_MONTH": repr(max(common_tab)),
            "MAX_WEEKS_IN_YEAR": repr(-(-sum(leap_tab) // 7)),
            "HOURS_IN_YEAR": repr(sum(common_tab) * 24),
            "MINUTES_IN_YEAR": repr(sum(common_tab) * 1440),
            "SECONDS_IN_YEAR": repr(sum(common_tab) * 86400),
            "HOURS_IN_YEAR_LEAP": repr(sum(leap_tab) * 24),
            "MINUTES_IN_YEAR_LEAP": repr(sum(leap_tab) * 1440),
            "SECONDS_IN_YEAR_LEAP": repr(sum(leap_tab) * 86400),
        }
        for name, val in want.items():
            if snap.get(name) != val:
                return ("after set_mode(%s); set_mode(%s): CALENDAR.%s = %s, the mode's "
                        "definition says %s" % (a[0], a[1], name, snap.get(name), val))
        an = analysis()
        if an is not None:
            indep = an["calendar"]["indep"]
        else:
            indep = [n for n in base if n not in want]
        for name in indep:
            if name == "_DEFAULT":
                continue
            if name in base and snap.get(name) != base[name]:
                return ("CALENDAR.%s is classified mode-independent but changed from %s to %s "
                        "after set_mode(%s); set_mode(%s)" % (name, base[name], snap.get(name),
                                                              a[0], a[1]))
        return None


def ops():
    return [ModeAttrs(), TableValidation(), History(), HistoryFresh()]
