"""C20 — adding a truncated time point finds the next matching date-time."""
import oracle
import gens
import tpcommon as T
from engine import Op, set_mode

PROP = "C20"
QUICK_BOOST = 2
LEAN_MODULES = ["IsoDT.Props.C20", "IsoDT.Props.C20b", "IsoDT.Props.C20q", "IsoDT.Props.C20r"]
RULE = ("truncated points of every shape (time-of-day fields T06, T-30, T--15, ...; one day designator: "
        "day-of-month, day-of-year, weekday, week + weekday; alone or combined) x every field value incl. day "
        "29-31, day-of-year 366, week 53 x full whole-second points (3 representations, any offset, incl. 24:00, "
        "exactly matching and one second before/after a match), truncated zone unknown or given; quick: "
        "gregorian-biased sample, thorough: every field value in all modes; non-trivial when the result is on a "
        "later day; distinct by (op, arguments)")

# a truncated point: (week, dow, dom, doy, hh, mi, ss, tzh, tzm) with None for absent


def mk_trunc(t):
    from metomi.isodatetime.data import TimePoint
    week, dow, dom, doy, hh, mi, ss, tzh, tzm = t
    kw = dict(truncated=True)
    for name, val in (("week_of_year", week), ("day_of_week", dow), ("day_of_month", dom),
                      ("day_of_year", doy), ("hour_of_day", hh), ("minute_of_hour", mi),
                      ("second_of_minute", ss), ("time_zone_hour", tzh), ("time_zone_minute", tzm)):
        if val is not None:
            kw[name] = val
    return TimePoint(**kw)


def trunc_str(t):
    return " ".join("_" if x is None else str(x) for x in t)


def time_pattern(t):
    """(hh|None, mi|None, ss|None) after the defaulting rule; None = free (or no time field at all)."""
    week, dow, dom, doy, hh, mi, ss, tzh, tzm = t
    if hh is None and mi is None and ss is None:
        return None
    if hh == 24:
        hh = 0      # the end-of-day hour is 00:00 of the next day, as 24:00 is read everywhere (finding F21)
    if hh is not None and mi is None:
        mi = 0
    if ss is None:
        ss = 0
    return (hh, mi, ss)


def day_matches(m, t, n):
    week, dow, dom, doy, hh, mi, ss, tzh, tzm = t
    if dom is not None and oracle.cal_of_day_num(m, n)[2] != dom:
        return False
    if doy is not None and oracle.ord_of_day_num(m, n)[1] != doy:
        return False
    if dow is not None or week is not None:
        wy, w, d = oracle.week_of_day_num(m, n)
        if dow is not None and d != dow:
            return False
        if week is not None and w != week:
            return False
    return True


def earliest_time(pattern, tau):
    """Smallest second-of-day >= tau matching pattern, or None."""
    hh, mi, ss = pattern
    best = None
    for h in ([hh] if hh is not None else range(24)):
        for x in ([mi] if mi is not None else range(60)):
            sod = h * 3600 + x * 60 + ss
            if sod >= tau and (best is None or sod < best):
                best = sod
    return best


def spec_add_trunc(m, p, t, horizon=4000):
    """The property: earliest full date-time >= p whose specified fields equal t's (read in t's zone
    if it has one, else p's), lower time fields zero, time unchanged when t names no time field;
    returned as an instant."""
    week, dow, dom, doy, hh, mi, ss, tzh, tzm = t
    if tzh is None and tzm is None:
        zh, zm = p[7], p[8]
    else:
        zh, zm = tzh or 0, tzm or 0
    inst_p = T.inst(m, p)
    local = inst_p + 3600 * zh + 60 * zm
    day0, tau = divmod(local, 86400)
    pattern = time_pattern(t)
    has_day = any(x is not None for x in (week, dow, dom, doy))
    for n in range(day0, day0 + horizon):
        if has_day and not day_matches(m, t, n):
            continue
        lo = tau if n == day0 else 0
        if pattern is None:
            sod = tau            # time of day unchanged
        else:
            sod = earliest_time(pattern, lo)
            if sod is None:
                continue
        return n * 86400 + sod - 3600 * zh - 60 * zm
    return None


def shapes():
    """(time fields present, day designator kind)."""
    times = [(), ("h",), ("h", "m"), ("h", "m", "s"), ("m",), ("m", "s"), ("s",)]
    days = [None, "dom", "doy", "dow", "week+dow"]
    return [(tm, dy) for tm in times for dy in days if tm or dy]


def gen_trunc(rng, m, shape=None):
    tm, dy = shape or rng.choice(shapes())
    hh = mi = ss = week = dow = dom = doy = None
    if "h" in tm:
        hh = rng.choice([0, 6, 12, 23, rng.randint(0, 23)])
        if rng.random() < 0.06:
            hh = 24          # the end-of-day spelling: legal on a truncated point with minute / second zero
    if "m" in tm:
        mi = rng.choice([0, 30, 59, rng.randint(0, 59)]) if hh != 24 else 0
    if "s" in tm:
        ss = rng.choice([0, 15, 59, rng.randint(0, 59)]) if hh != 24 else 0
    maxdom = max(oracle.month_tab(m, True))
    if dy == "dom":
        dom = rng.choice([1, 15, 28, 29, 30, 31, rng.randint(1, maxdom)])
        dom = min(dom, maxdom)
    elif dy == "doy":
        yl = oracle.year_len(m, 2000 if m == "greg" else 2001)
        doy = rng.choice([1, 59, 60, 61, 365, 366, rng.randint(1, yl)])
        doy = min(doy, yl)
    elif dy == "dow":
        dow = rng.randint(1, 7)
    elif dy == "week+dow":
        mw = 52 if m == "d360" else 53
        week = rng.choice([1, 2, 26, 52, 53, rng.randint(1, mw)])
        week = min(week, mw)
        dow = rng.randint(1, 7)
    tzh = tzm = None
    if rng.random() < 0.3 and tm:
        tzh, tzm = gens.offset(rng)
    return (week, dow, dom, doy, hh, mi, ss, tzh, tzm)


class AddTrunc(Op):
    prop = PROP
    name = "addtrunc"
    shard = None

    def gen(self, rng, tier, boost):
        n = 1800 * boost if tier == "quick" else 4000 * boost
        for i in range(n):
            m = "greg" if (tier == "quick" and rng.random() < 0.7) else gens.mode(rng)
            t = gen_trunc(rng, m)
            p = T.gen_tp(rng, m)
            if abs(p[1]) > 9000:
                p = (p[0], 2000 + rng.randint(-30, 30)) + p[2:]
                if not T.valid(m, p):
                    continue
            r = rng.random()
            if r < 0.35:
                # a point exactly at, one second before or after a match
                target = spec_add_trunc(m, p, t)
                if target is not None:
                    p = T.tp_from_inst(m, target + rng.choice([0, -1, 1]), p[0], p[7], p[8],
                                       use24=rng.random() < 0.2)
            yield (m, p, t)
        # month ends x day-of-month targets 28..31; year ends x day 365/366; week-year ends x week 52/53
        for m in (["greg", "d360"] if tier == "quick" else oracle.MODES):
            for y in (2019, 2020):
                for mo in range(1, 13):
                    ml = oracle.month_len(m, y, mo)
                    for d in sorted(set([1, 28, 29, 30, 31, ml]) & set(range(1, ml + 1))):
                        for target in (28, 29, 30, 31):
                            if target <= max(oracle.month_tab(m, True)):
                                yield (m, ("c", y, mo, d, 5, 7, 9, 0, 0),
                                       (None, None, target, None, None, None, None, None, None))
                yl = oracle.year_len(m, y)
                for doy in (1, 59, 60, yl - 1, yl):
                    for target in (1, 60, 365, 366):
                        if target <= (366 if m in ("greg", "d366") else yl):
                            yield (m, ("o", y, doy, 0, 23, 59, 59, 0, 30),
                                   (None, None, None, target, None, None, None, None, None))
                wiy = oracle.weeks_in_year(m, y)
                for w in (1, wiy - 1, wiy):
                    for target in (1, 52, 53):
                        if target <= (52 if m == "d360" else 53):
                            yield (m, ("w", y, w, 3, 0, 0, 1, -5, -45),
                                   (target, 3, None, None, None, None, None, None, None))
        # the longest waits: the rarest targets (last week number, last day number of a long year) asked for just
        # after they occurred at the start of their longest gap (week 53: 7 years once per 400; day 366: 8 years
        # across a common century year)
        for m in (oracle.MODES if tier != "quick" else ["greg", "d360", "d365"]):
            span = range(1600, 2001) if m == "greg" else range(1996, 2012)
            wmax = max(oracle.weeks_in_year(m, y) for y in span)
            ymax = max(oracle.year_len(m, y) for y in span)
            long_w = [y for y in span if oracle.weeks_in_year(m, y) == wmax]
            long_y = [y for y in span if oracle.year_len(m, y) == ymax]
            gaps_w = sorted(((b - a, a) for a, b in zip(long_w, long_w[1:])), reverse=True)[:3]
            gaps_y = sorted(((b - a, a) for a, b in zip(long_y, long_y[1:])), reverse=True)[:2]
            for gap, y in gens.shard_filter(gaps_w, self.shard):
                if len(set(oracle.weeks_in_year(m, yy) for yy in span)) == 1:
                    break
                for (yy, w, d) in ((y + 1, 1, 1), (y + 1, 46, 7), (y + 1, 30, 3), (y, wmax, 7), (y + gap - 1, 20, 1)):
                    if w <= oracle.weeks_in_year(m, yy):
                        yield (m, ("w", yy, w, d, 6, 30, 0, 0, 0), (wmax, rng.randint(1, 7), None, None, None, None, None, None, None))
                        yield (m, ("c",) + oracle.cal_of_day_num(m, oracle.date_day_num(m, ("w", yy, w, d))) + (23, 59, 59, 5, 30),
                               (wmax, 1, None, None, rng.choice([None, 0]), None, None, None, None))
            for gap, y in gens.shard_filter(gaps_y, self.shard):
                if len(set(oracle.year_len(m, yy) for yy in span)) == 1:
                    break
                for (yy, doy) in ((y + 1, 1), (y + 1, 200), (y, ymax), (y + gap - 1, 100)):
                    yield (m, ("o", yy, doy, 0, 0, 0, 1, 0, 0), (None, None, None, ymax, None, None, None, None, None))
        if tier != "quick":
            for m in gens.shard_filter(oracle.MODES, self.shard):
                base = ("c", 2021, 3, 1, 10, 0, 0, 0, 0)
                for dom in range(1, max(oracle.month_tab(m, True)) + 1):
                    yield (m, base, (None, None, dom, None, None, None, None, None, None))
                for doy in range(1, oracle.year_len(m, 2024) + 1, 3):
                    yield (m, base, (None, None, None, doy, 6, None, None, None, None))
                for week in range(1, (52 if m == "d360" else 53) + 1):
                    for dow in (1, 7):
                        yield (m, base, (week, dow, None, None, None, None, None, None, None))
                for h in range(24):
                    yield (m, base, (None, None, None, None, h, None, None, None, None))
                for x in range(60):
                    yield (m, base, (None, None, None, None, None, x, None, None, None))
                    yield (m, base, (None, None, None, None, None, None, x, None, None))

    sibling = T.tp_sibling(1, ymin=-8000, ymax=8000)
    sibling_rate = 0.3

    def line(self, a):
        return "addtrunc %s %s %s" % (a[0], T.tp_str(a[1]), trunc_str(a[2]))

    def impl(self, a):
        set_mode(a[0])
        p, t = T.mk_tp(a[1]), mk_trunc(a[2])
        r1 = t + p
        r2 = p + t
        out = T.canon_tp(r1)
        if T.canon_tp(r2) != out:
            out += " ORDER-DIFFERS %s" % T.canon_tp(r2)
        again = t + r1
        if T.canon_tp(again) != T.canon_tp(r1):
            out += " NOT-IDEMPOTENT %s" % T.canon_tp(again)
        return out

    def oracle(self, a, out):
        m, p, t = a
        what = "truncated %s + %s in %s" % (trunc_str(t), T.describe_tp(p), m)
        if out.startswith(("err", "EXC", "Timeout", "NONINT")):
            return "%s failed or did not terminate: %s" % (what, out)
        if "ORDER-DIFFERS" in out or "NOT-IDEMPOTENT" in out:
            return "%s: %s" % (what, out)
        r = T.parse_tp(out)
        if not T.valid(m, r, strict=True):
            return "%s = %s is not a valid date-time" % (what, T.describe_tp(r))
        if (r[7], r[8]) != (p[7], p[8]):
            return "%s = %s is not in p's UTC offset" % (what, T.describe_tp(r))
        want = spec_add_trunc(m, p, t)
        if want is None:
            return None
        got = T.inst(m, r)
        if got < T.inst(m, p):
            return "%s = %s is earlier than p" % (what, T.describe_tp(r))
        if got != want:
            return "%s = %s, the earliest matching date-time is %d s %s" % (
                what, T.describe_tp(r), abs(got - want), "earlier" if want < got else "later")

    def label(self, a):
        t = a[2]
        tm = "".join(c for c, v in zip("hms", t[4:7]) if v is not None) or "-"
        dy = "week" if t[0] is not None else ("dow" if t[1] is not None else
                                             ("dom" if t[2] is not None else ("doy" if t[3] is not None else "-")))
        return "addtrunc/%s/%s/%s/%s" % (a[0], tm, dy, "tz" if t[7] is not None else "notz")

    def nontrivial(self, a):
        m, p, t = a
        want = spec_add_trunc(m, p, t)
        return want is not None and want // 86400 != T.inst(m, p) // 86400


def _f9(op, a, out, msg):
    """F9: day designator + minute/second but no hour; the answer is what the code's order of loops
    gives (time loops first, keeping the hour, then the day loops)."""
    m, p, t = a
    week, dow, dom, doy, hh, mi, ss, tzh, tzm = t
    if not (hh is None and (mi is not None or ss is not None) and any(x is not None for x in (week, dow, dom, doy))):
        return False
    if "the earliest matching date-time" not in msg or "earlier" not in msg:
        return False
    try:
        r = T.parse_tp(out.split(" ORDER")[0])
        step1 = spec_add_trunc(m, p, (None, None, None, None, hh, mi, ss, tzh, tzm))
        zh, zm = (p[7], p[8]) if (tzh is None and tzm is None) else (tzh or 0, tzm or 0)
        p1 = T.tp_from_inst(m, step1, p[0], zh, zm)
        step2 = spec_add_trunc(m, p1, (week, dow, dom, doy, None, None, None, tzh, tzm))
        return T.inst(m, r) == step2
    except Exception:
        return False


KNOWN_PREDICATES = {"day_designator_with_minute_or_second_no_hour": _f9}


def ops():
    import truncqops
    return [AddTrunc(), truncqops.AddTruncQOp()]
