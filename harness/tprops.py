"""`TimePoint.get_truncated_properties()` of parsed texts - truncated date alone, truncated date T time zone, T time
zone, and non-truncated controls, rendered from parser_spec's own tables with boundary-biased values - against the
model `truncatedProperties` (lean/IsoDT/Model/TruncProps.lean; theorems Props/C07d)."""
import re
from fractions import Fraction

import gens
from engine import Op, set_mode

_TABLES = {}


def tables():
    if not _TABLES:
        from metomi.isodatetime import parser_spec as ps
        _TABLES["D"] = {f: {t: exprs(ps.DATE_EXPRESSIONS[f][t]) for t in ("complete", "reduced", "truncated")}
                        for f in ("basic", "extended")}
        _TABLES["T"] = {f: {t: exprs(ps.TIME_EXPRESSIONS[f][t]) for t in ("complete", "reduced", "truncated")}
                        for f in ("basic", "extended")}
        _TABLES["Z"] = {f: exprs(ps.TIME_ZONE_EXPRESSIONS[f]) for f in ("basic", "extended")}
    return _TABLES["D"], _TABLES["T"], _TABLES["Z"]


def exprs(text):
    out = []
    for line in text.splitlines():
        line = line.split("#", 1)[0].strip()
        if line:
            out.append(line)
    return out




def pick(rng, specials, lo, hi):
    return rng.choice(specials) if rng.random() < 0.6 else rng.randint(lo, hi)


def render_date(rng, expr, ned):
    v = dict(CC=pick(rng, [0, 19, 20, 99], 0, 99), YY=pick(rng, [0, 4, 5, 96, 99, 100 % 100], 0, 99),
             MM=pick(rng, [0, 1, 2, 12, 13], 1, 12), DDD=pick(rng, [0, 1, 60, 360, 365, 366, 367], 1, 366),
             DD=pick(rng, [0, 1, 28, 29, 30, 31, 32], 1, 31), ww=pick(rng, [0, 1, 52, 53, 54], 1, 53),
             D=pick(rng, [0, 1, 7, 8], 1, 7), z=rng.randint(0, 9), X=rng.randint(0, 10 ** ned - 1))

    def sub(m):
        t = m.group(0)
        if t == "Www":
            return "W%02d" % v["ww"]
        if t == "DDD":
            return "%03d" % v["DDD"]
        if t in ("D", "z"):
            return "%d" % v[t]
        if t == "X":
            return ("%0*d" % (ned, v["X"])) if ned else ""
        if t == "+":
            return rng.choice("+-")
        return "%02d" % v[t]
    return re.sub(r"Www|DDD|DD|D|CC|YY|MM|z|X|\+", sub, expr)


def render_time(rng, expr):
    v = dict(hh=pick(rng, [0, 23, 24, 25], 0, 23), mm=pick(rng, [0, 59, 60], 0, 59),
             ss=pick(rng, [0, 59, 60], 0, 59))
    dec = "".join(rng.choice("0123456789") for _ in range(rng.randint(1, 9)))
    if rng.random() < 0.3:
        dec = rng.choice(["0", "00", "5", "500", "000001", "999999", "9999999"])

    def sub(m):
        t = m.group(0)
        if t in ("ii", "nn", "tt"):
            return dec
        return "%02d" % v[t]
    return re.sub(r"hh|mm|ss|ii|nn|tt", sub, expr)


def render_zone(rng, expr):
    v = dict(hh=pick(rng, [0, 1, 14, 99], 0, 14), mm=pick(rng, [0, 30, 59, 60], 0, 59))

    def sub(m):
        t = m.group(0)
        if t == "+":
            return rng.choice("+-")
        return "%02d" % v[t]
    return re.sub(r"hh|mm|\+", sub, expr)


def enc(text):
    return "s" + ".".join(str(ord(c)) for c in text)


def unit(v):
    if isinstance(v, float):
        whole = int(v)
        n = round((Fraction(v) - whole) * 10 ** 12)
        return "%d+%s" % (whole, (("%012d" % n).rstrip("0") or "0"))
    return "%d" % v


_PARSERS = {}


def parser_for(cfg):
    from metomi.isodatetime.parsers import TimePointParser
    ned, basic, trunc, zone = cfg
    key = (ned, basic, trunc, zone if zone[0] == "a" else zone[0])
    if key not in _PARSERS:
        kw = dict(num_expanded_year_digits=ned, allow_only_basic=basic, allow_truncated=trunc)
        if zone[0] == "a":
            kw["assumed_time_zone"] = (zone[1], zone[2])
        elif zone[0] == "u":
            kw["default_to_unknown_time_zone"] = True
        _PARSERS[key] = TimePointParser(**kw)
    return _PARSERS[key]


def impl(mode, cfg, text):
    from metomi.isodatetime import timezone as tzmod
    set_mode(mode)
    saved = tzmod.get_local_time_zone
    if cfg[3][0] == "l":
        tzmod.get_local_time_zone = lambda: (cfg[3][1], cfg[3][2])
    try:
        try:
            p = parser_for(cfg).parse(text)
        except ValueError:
            return "err"
        try:
            props = p.get_truncated_properties()
        except TypeError:
            return "EXC"
        if props is None:
            return "None"
        return "D " + ";".join("%s=%s" % (k, unit(val)) for k, val in props.items())
    finally:
        tzmod.get_local_time_zone = saved


def zone_tok(z):
    return "u" if z[0] == "u" else "%s:%d:%d" % z




def gen_case(rng):
    DATES, TIMES, ZONES = tables()
    zones = [("u",), ("a", 5, 30), ("a", -3, -30), ("l", 1, 0), ("a", 0, 0)]
    ned = rng.choice([0, 2, 3])
    basic = rng.random() < 0.3
    trunc = rng.random() < 0.85
    cfg = (ned, basic, trunc, rng.choice(zones))
    mode = rng.choice(["greg", "greg", "d360", "d365", "d366"])
    fmts = ["basic"] if basic and rng.random() < 0.9 else ["basic", "extended"]
    r = rng.random()
    if r < 0.25:       # truncated date alone
        text = render_date(rng, rng.choice(DATES[rng.choice(fmts)]["truncated"]), ned)
    elif r < 0.6:      # truncated date T any time, any zone
        text = render_date(rng, rng.choice(DATES[rng.choice(fmts)]["truncated"]), ned)
        tt = rng.choice(["complete", "reduced", "truncated", "truncated"])
        text += "T" + render_time(rng, rng.choice(TIMES[rng.choice(fmts)][tt]))
        if rng.random() < 0.6:
            text += render_zone(rng, rng.choice(ZONES[rng.choice(fmts)]))
    elif r < 0.85:     # no date
        tt = rng.choice(["complete", "reduced", "truncated", "truncated"])
        text = "T" + render_time(rng, rng.choice(TIMES[rng.choice(fmts)][tt]))
        if rng.random() < 0.6:
            text += render_zone(rng, rng.choice(ZONES[rng.choice(fmts)]))
    else:              # complete / reduced date, maybe with a (possibly truncated) time
        f = rng.choice(fmts)
        text = render_date(rng, rng.choice(DATES[f][rng.choice(["complete", "reduced"])]), ned)
        if rng.random() < 0.6:
            tt = rng.choice(["complete", "reduced", "truncated"])
            text += "T" + render_time(rng, rng.choice(TIMES[f][tt]))
            if rng.random() < 0.5:
                text += render_zone(rng, rng.choice(ZONES[f]))
    return (mode, cfg, text)


class TProps(Op):
    prop = "C07"
    name = "tprops"

    def gen(self, rng, tier, boost):
        n = (4000 if tier == "quick" else 60000) * boost
        if getattr(self, "shard", None):
            n = n // self.shard[1] + 1
        for _ in range(n):
            yield gen_case(rng)

    def from_corpus(self, a):
        mode, cfg, text = a
        return (mode, (cfg[0], cfg[1], cfg[2], tuple(cfg[3])), text)

    def line(self, a):
        m, c, t = a
        return "tprops %s %d %d %d %s %s" % (m, c[0], 1 if c[1] else 0, 1 if c[2] else 0, zone_tok(c[3]), enc(t))

    def impl(self, a):
        return impl(*a)

    def label(self, a):
        m, c, t = a
        return "tprops/%s/ned%d/%s" % (m, c[0], "trunc" if c[2] else "full")
