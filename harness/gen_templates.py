#!/venv/bin/python
"""gen_templates — regenerate lean/IsoDT/Gen/Templates.lean: the text layer's tables (C07, C08).

Reads, from the *live* objects of <repo>/metomi/isodatetime:

  * for the parser configurations num_expanded_year_digits in {0, 2, 3} x allow_only_basic x
    allow_truncated: the compiled regular expressions in `TimePointParser._date_regex_map`,
    `_time_regex_map`, `_time_zone_regex_map` (in the iteration order of those dictionaries and
    lists, with their expression strings), parsed with `re._parser` and converted to
    `Template := List Item`, `Item := lit c | digits f n | digitsPlus f | sign f | group f lits`;
  * the try-order of the date types that `get_date_info` hard-codes (AST of parsers.py) and which
    type keys / format keys the other loops iterate (checked, see `_check_parser_code`);
  * `parser_spec.TIME_DESIGNATOR`;
  * for num_expanded_year_digits in {0, 2, 3}: `TimePointDumper._rec_formats` (regex -> printf
    template, property), each regex converted to a literal pattern with optional start anchor,
    anchored look-behind and look-ahead; each printf template to `OutItem`s.

Anything outside these shapes raises translate.TranslateError (tie broken, never skipped):
another regex construct, a `[0-9]+` that is not the last item, an unknown group or property
name, a printf directive other than `%(name)0Nd` / `%(name)s`, a replacement text that a later
rule of the same table would match again, a parser whose tables depend on allow_truncated.

`analyse()` returns the same information as Python data (the harness renders its test strings
from it).  Usage: gen_templates.py [--write] prints / writes Gen/Templates.lean.
"""
import ast
import os
import re
import sys

sys.path.insert(0, os.path.dirname(os.path.abspath(__file__)))
import common  # noqa: E402

try:
    import re._parser as sre_parse
    import re._constants as sre_constants
except ImportError:  # Python < 3.11
    import sre_parse
    import sre_constants


def _translate():
    import translate
    return translate


def TranslateError(msg):
    return _translate().TranslateError(msg)


NEDS = [0, 2, 3]

FLD = {
    "year_sign": "yearSign", "expanded_year": "expandedYear", "century": "century",
    "year_of_century": "yearOfCentury", "year_of_decade": "yearOfDecade",
    "month_of_year": "monthOfYear", "day_of_month": "dayOfMonth", "day_of_year": "dayOfYear",
    "week_of_year": "weekOfYear", "day_of_week": "dayOfWeek", "truncated": "truncated",
    "hour_of_day": "hourOfDay", "minute_of_hour": "minuteOfHour",
    "second_of_minute": "secondOfMinute", "hour_of_day_decimal": "hourDec",
    "minute_of_hour_decimal": "minuteDec", "second_of_minute_decimal": "secondDec",
    "time_zone_utc": "tzUtc", "time_zone_sign": "tzSign", "time_zone_hour": "tzHour",
    "time_zone_minute": "tzMinute",
}
# which group may be of which item kind (the model's field assembly relies on it)
FLD_KIND = {
    "year_sign": "sign", "time_zone_sign": "sign", "truncated": "group", "time_zone_utc": "group",
    "hour_of_day_decimal": "digitsPlus", "minute_of_hour_decimal": "digitsPlus",
    "second_of_minute_decimal": "digitsPlus",
}
DPROP = {
    "year_sign": "yearSign", "expanded_year_digits": "expandedYearDigits", "century": "century",
    "year_of_century": "yearOfCentury", "year_of_decade": "yearOfDecade",
    "month_of_year": "monthOfYear", "day_of_month": "dayOfMonth", "day_of_year": "dayOfYear",
    "week_of_year": "weekOfYear", "day_of_week": "dayOfWeek", "hour_of_day": "hourOfDay",
    "minute_of_hour": "minuteOfHour", "second_of_minute": "secondOfMinute",
    "hour_of_day_decimal_string": "hourDecStr", "minute_of_hour_decimal_string": "minuteDecStr",
    "second_of_minute_decimal_string": "secondDecStr", "time_zone_sign": "tzSign",
    "time_zone_hour_abs": "tzHourAbs", "time_zone_minute_abs": "tzMinuteAbs",
}
DPROP_KIND = {
    "year_sign": "str", "time_zone_sign": "str", "hour_of_day_decimal_string": "str",
    "minute_of_hour_decimal_string": "str", "second_of_minute_decimal_string": "str",
}
FORMAT_KEYS = ["basic", "extended"]
TYPE_KEYS = ["complete", "reduced", "truncated"]


# ---------------------------------------------------------------------------
# regex -> template

def _is_digit_class(node):
    op, arg = node
    return (op == sre_constants.IN and len(arg) == 1 and arg[0][0] == sre_constants.RANGE
            and tuple(arg[0][1]) == (48, 57))


def _is_sign_class(node):
    op, arg = node
    if op != sre_constants.IN or len(arg) != 2:
        return False
    if any(a[0] != sre_constants.LITERAL for a in arg):
        return False
    return sorted(a[1] for a in arg) == [43, 45]


def regex_to_template(regex):
    """Items of a compiled regex of shape ^ item* $.  Items: ("lit", ch) | ("digits", group, n) |
    ("digitsPlus", group) | ("sign", group) | ("group", group, text)."""
    pattern = regex.pattern
    if regex.flags & ~re.UNICODE:
        raise TranslateError("regex %r compiled with flags %#x" % (pattern, regex.flags))
    names = {idx: name for name, idx in regex.groupindex.items()}
    try:
        tree = list(sre_parse.parse(pattern))
    except Exception as exc:
        raise TranslateError("cannot parse regex %r: %s" % (pattern, exc))
    if (len(tree) < 2 or tree[0] != (sre_constants.AT, sre_constants.AT_BEGINNING)
            or tree[-1] != (sre_constants.AT, sre_constants.AT_END)):
        raise TranslateError("regex %r is not of the shape ^...$" % pattern)
    items = []
    for node in tree[1:-1]:
        op, arg = node
        if op == sre_constants.LITERAL:
            items.append(("lit", chr(arg)))
            continue
        if op != sre_constants.SUBPATTERN:
            raise TranslateError("regex %r: construct %s is not of template shape" % (pattern, op))
        gid, add_flags, del_flags, sub = arg
        if add_flags or del_flags or gid not in names:
            raise TranslateError("regex %r: unnamed or flagged group" % pattern)
        name = names[gid]
        if name not in FLD:
            raise TranslateError("regex %r: unknown group name %r" % (pattern, name))
        sub = list(sub)
        if all(_is_digit_class(n) for n in sub):
            item = ("digits", name, len(sub))
        elif (len(sub) == 1 and sub[0][0] == sre_constants.MAX_REPEAT
              and sub[0][1][0] == 1 and sub[0][1][1] == sre_constants.MAXREPEAT
              and len(list(sub[0][1][2])) == 1 and _is_digit_class(list(sub[0][1][2])[0])):
            item = ("digitsPlus", name)
        elif len(sub) == 1 and _is_sign_class(sub[0]):
            item = ("sign", name)
        elif sub and all(n[0] == sre_constants.LITERAL for n in sub):
            item = ("group", name, "".join(chr(n[1]) for n in sub))
        else:
            raise TranslateError("regex %r: group %r is not of template shape" % (pattern, name))
        want = FLD_KIND.get(name, "digits")
        if item[0] != want:
            raise TranslateError("regex %r: group %r is a %s, the model reads it as %s"
                                 % (pattern, name, item[0], want))
        items.append(item)
    for k, item in enumerate(items):
        if item[0] == "digitsPlus" and k != len(items) - 1:
            raise TranslateError("regex %r: [0-9]+ is not the last item (needs backtracking)" % pattern)
    seen = [it[1] for it in items if it[0] != "lit"]
    if len(seen) != len(set(seen)):
        raise TranslateError("regex %r: a group name occurs twice" % pattern)
    return tuple(items)


# ---------------------------------------------------------------------------
# dumper rule regex -> literal pattern

def _literals(nodes, pattern):
    out = []
    for op, arg in nodes:
        if op != sre_constants.LITERAL:
            raise TranslateError("dumper regex %r: construct %s is not a literal" % (pattern, op))
        out.append(chr(arg))
    return "".join(out)


def rule_regex(rec):
    """(anchored, behind, pat, ahead) of a dumper regex."""
    pattern = rec.pattern
    if rec.flags & ~re.UNICODE:
        raise TranslateError("dumper regex %r compiled with flags" % pattern)
    tree = list(sre_parse.parse(pattern))
    anchored = False
    behind = ""
    ahead = ""
    if tree and tree[0] == (sre_constants.AT, sre_constants.AT_BEGINNING):
        anchored = True
        tree = tree[1:]
    if tree and tree[0][0] == sre_constants.ASSERT and tree[0][1][0] == -1:
        sub = list(tree[0][1][1])
        if anchored or not sub or sub[0] != (sre_constants.AT, sre_constants.AT_BEGINNING):
            raise TranslateError("dumper regex %r: look-behind is not anchored at the start" % pattern)
        behind = _literals(sub[1:], pattern)
        if not behind:
            raise TranslateError("dumper regex %r: empty look-behind" % pattern)
        anchored = True
        tree = tree[1:]
    if tree and tree[-1][0] == sre_constants.ASSERT and tree[-1][1][0] == 1:
        ahead = _literals(list(tree[-1][1][1]), pattern)
        tree = tree[:-1]
    pat = _literals(tree, pattern)
    if not pat:
        raise TranslateError("dumper regex %r: empty pattern" % pattern)
    return anchored, behind, pat, ahead


PRINTF = re.compile(r"%\((\w+)\)(?:0(\d+)d|(s))")


def printf_items(fmt):
    """("lit", ch) | ("int", prop, width) | ("str", prop)."""
    if "\\" in fmt:
        raise TranslateError("printf template %r contains a backslash (re.sub would expand it)" % fmt)
    out = []
    pos = 0
    for mt in PRINTF.finditer(fmt):
        for ch in fmt[pos:mt.start()]:
            out.append(("lit", ch))
        name = mt.group(1)
        if name not in DPROP:
            raise TranslateError("printf template %r: unknown property %r" % (fmt, name))
        kind = "str" if mt.group(3) else "int"
        if kind != DPROP_KIND.get(name, "int"):
            raise TranslateError("printf template %r: property %r printed as %s" % (fmt, name, kind))
        if kind == "str":
            out.append(("str", name))
        else:
            out.append(("int", name, int(mt.group(2))))
        pos = mt.end()
    for ch in fmt[pos:]:
        out.append(("lit", ch))
    if any(it == ("lit", "%") for it in out):
        raise TranslateError("printf template %r: directive not understood" % fmt)
    return tuple(out)


def dump_rules(rec_formats):
    rules = []
    for rec, fmt, prop in rec_formats:
        anchored, behind, pat, ahead = rule_regex(rec)
        if prop is not None and prop not in DPROP:
            raise TranslateError("dumper property %r unknown" % (prop,))
        rules.append({"anchored": anchored, "behind": behind, "pat": pat, "ahead": ahead,
                      "out": printf_items(fmt), "prop": prop, "fmt": fmt, "regex": rec.pattern})
    # The model keeps the literal characters of a replacement as ordinary text and treats each
    # printf directive `%(name)...` as one opaque piece: no pattern may contain '%', and no later
    # pass may match inside a directive.  (A pattern that *starts* on the last letter of a
    # directive and continues into the following text - e.g. the format "hh,iiss" - is outside the
    # model's domain; no documented expression and no generated custom format has that shape.)
    for i, early in enumerate(rules):
        if "%" in early["behind"] + early["pat"] + early["ahead"]:
            raise TranslateError("dumper regex %r matches a '%%'" % early["regex"])
        directives = [mt.group(0) for mt in PRINTF.finditer(early["fmt"])]
        for late in rules[i + 1:]:
            for directive in directives:
                if late["pat"] in directive:
                    raise TranslateError("dumper rule %r would match inside the directive %r"
                                         % (late["regex"], directive))
    return rules


# ---------------------------------------------------------------------------
# what the parser's code hard-codes (AST)

def _check_parser_code():
    """The date type try-order of get_date_info; checks the loops the model mirrors."""
    path = os.path.join(common.REPO, "metomi", "isodatetime", "parsers.py")
    with open(path) as handle:
        tree = ast.parse(handle.read())
    cls = [n for n in tree.body if isinstance(n, ast.ClassDef) and n.name == "TimePointParser"]
    if len(cls) != 1:
        raise TranslateError("expected one class TimePointParser in parsers.py")
    funcs = {n.name: n for n in cls[0].body if isinstance(n, ast.FunctionDef)}
    for name in ("get_date_info", "get_time_info", "get_time_zone_info", "get_info",
                 "process_time_zone_info", "_create_timepoint_from_info", "_generate_regexes"):
        if name not in funcs:
            raise TranslateError("TimePointParser.%s is missing" % name)
    order = None
    for node in ast.walk(funcs["get_date_info"]):
        if (isinstance(node, ast.Assign) and len(node.targets) == 1
                and isinstance(node.targets[0], ast.Name) and node.targets[0].id == "type_keys"):
            if order is not None or not isinstance(node.value, ast.List):
                raise TranslateError("get_date_info assigns type_keys more than once / not a list")
            order = []
            for elt in node.value.elts:
                if not (isinstance(elt, ast.Constant) and elt.value in TYPE_KEYS):
                    raise TranslateError("get_date_info: type_keys element not understood")
                order.append(elt.value)
    if order is None or sorted(order) != sorted(TYPE_KEYS):
        raise TranslateError("get_date_info: type_keys is not a permutation of %r" % TYPE_KEYS)
    return order


# ---------------------------------------------------------------------------

def _entries(regex_map, with_types):
    out = []
    formats = list(regex_map.keys())
    for fk in formats:
        if fk not in FORMAT_KEYS:
            raise TranslateError("unknown format key %r" % (fk,))
        if with_types:
            for tk, lst in regex_map[fk].items():
                if tk not in TYPE_KEYS:
                    raise TranslateError("unknown type key %r" % (tk,))
                for pair in lst:
                    regex, expr = pair
                    out.append((fk, tk, expr, regex_to_template(regex), regex.pattern))
        else:
            for pair in regex_map[fk]:
                regex, expr = pair
                out.append((fk, None, expr, regex_to_template(regex), regex.pattern))
    return formats, out


_ANALYSIS = {}


def analyse(force=False):
    """{'designator', 'date_type_order', 'parsers': {(ned, basic): {...}}, 'dumpers': {ned: {...}}}"""
    key = os.path.realpath(common.REPO)
    if key in _ANALYSIS and not force:
        return _ANALYSIS[key]
    common.use_repo()
    from metomi.isodatetime import parsers, dumpers, parser_spec
    designator = parser_spec.TIME_DESIGNATOR
    if not (isinstance(designator, str) and len(designator) == 1):
        raise TranslateError("TIME_DESIGNATOR %r is not one character" % (designator,))
    result = {"designator": designator, "date_type_order": _check_parser_code(),
              "parsers": {}, "dumpers": {}}
    for ned in NEDS:
        for basic in (False, True):
            tabs = None
            for trunc in (False, True):
                parser = parsers.TimePointParser(
                    num_expanded_year_digits=ned, allow_only_basic=basic, allow_truncated=trunc)
                formats, dates = _entries(parser._date_regex_map, True)
                formats_t, times = _entries(parser._time_regex_map, True)
                formats_z, zones = _entries(parser._time_zone_regex_map, False)
                if not (formats == formats_t == formats_z):
                    raise TranslateError("the three regex maps have different format keys")
                cur = {"ned": ned, "basic": basic, "formats": formats, "date": dates,
                       "time": times, "zone": zones}
                if tabs is None:
                    tabs = cur
                elif tabs != cur:
                    raise TranslateError("the parser's tables depend on allow_truncated "
                                         "(the model takes that flag at match time only)")
            for fk, tk, expr, tmpl, pattern in tabs["date"] + tabs["time"] + tabs["zone"]:
                if designator in expr or any(it[0] in ("lit", "group") and designator in it[-1]
                                             for it in tmpl):
                    raise TranslateError("expression %r contains the time designator" % expr)
            result["parsers"][(ned, basic)] = tabs
        dumper = dumpers.TimePointDumper(num_expanded_year_digits=ned)
        if list(dumper._rec_formats.keys()) != ["date", "time", "time_zone"]:
            raise TranslateError("TimePointDumper._rec_formats has keys %r" % (list(dumper._rec_formats),))
        if dumper._time_designator != designator:
            raise TranslateError("the dumper's time designator differs from the parser's")
        result["dumpers"][ned] = {k: dump_rules(v) for k, v in dumper._rec_formats.items()}
    _ANALYSIS[key] = result
    return result


# ---------------------------------------------------------------------------
# Lean output

def lean_char(ch):
    if len(ch) != 1:
        raise TranslateError("expected one character, got %r" % (ch,))
    if ch.isalnum() and ord(ch) < 128 or ch in "-+:,.":
        return "'%s'" % ch
    return "(Char.ofNat %d)" % ord(ch)


def lean_chars(text):
    return "[" + ", ".join(lean_char(c) for c in text) + "]"


def lean_item(item):
    kind = item[0]
    if kind == "lit":
        return ".lit " + lean_char(item[1])
    if kind == "digits":
        return ".digits .%s %d" % (FLD[item[1]], item[2])
    if kind == "digitsPlus":
        return ".digitsPlus .%s" % FLD[item[1]]
    if kind == "sign":
        return ".sign .%s" % FLD[item[1]]
    return ".group .%s %s" % (FLD[item[1]], lean_chars(item[2]))


def lean_out(item):
    if item[0] == "lit":
        return ".lit " + lean_char(item[1])
    if item[0] == "int":
        return ".int .%s %d" % (DPROP[item[1]], item[2])
    return ".str .%s" % DPROP[item[1]]


def gen_templates():
    info = analyse(force=True)
    tr = _translate()
    out = [tr.HEADER, "import IsoDT.Model.TextBasic", "", "namespace IsoDT.Gen.Templates",
           "open IsoDT.Text", ""]
    out.append("/-- `parser_spec.TIME_DESIGNATOR`. -/")
    out.append("def timeDesignator : Char := " + lean_char(info["designator"]))
    out.append("")
    out.append("/-- The order in which `get_date_info` tries the date types. -/")
    out.append("def dateTypeOrder : List TypeKey := [" + ", ".join(
        "." + t for t in info["date_type_order"]) + "]")
    out.append("")
    # templates, shared by name
    names = {}
    decls = []

    def tname(tmpl, pattern):
        if tmpl not in names:
            names[tmpl] = "t%d" % len(names)
            decls.append("/-- `%s` -/" % pattern.replace("-/", "- /"))
            decls.append("def %s : Template := [%s]" % (names[tmpl], ", ".join(
                lean_item(it) for it in tmpl)))
        return names[tmpl]

    bodies = []
    pnames = []
    for (ned, basic), tabs in info["parsers"].items():
        pname = "parser_%d_%s" % (ned, "basic" if basic else "all")
        pnames.append(pname)
        lines = ["/-- The tables of `TimePointParser(num_expanded_year_digits=%d, allow_only_basic=%s)`. -/"
                 % (ned, basic),
                 "def %s : ParserTables := {" % pname,
                 "  ned := %d, basicOnly := %s," % (ned, tr.lean_bool(basic)),
                 "  formats := [%s]," % ", ".join("." + f for f in tabs["formats"])]
        for key, field in (("date", "dateEntries"), ("time", "timeEntries")):
            ents = ["    ⟨.%s, .%s, %s, %s⟩" % (fk, tk, lean_chars(expr), tname(tmpl, pattern))
                    for fk, tk, expr, tmpl, pattern in tabs[key]]
            lines.append("  %s := [\n%s]," % (field, ",\n".join(ents)))
        ents = ["    ⟨.%s, %s, %s⟩" % (fk, lean_chars(expr), tname(tmpl, pattern))
                for fk, tk, expr, tmpl, pattern in tabs["zone"]]
        lines.append("  zoneEntries := [\n%s] }" % ",\n".join(ents))
        bodies.append("\n".join(lines))
    out += decls
    out.append("")
    out += [b + "\n" for b in bodies]
    out.append("def parserTables : List ParserTables := [" + ", ".join(pnames) + "]")
    out.append("")
    dnames = []
    for ned, tabs in info["dumpers"].items():
        dname = "dumper_%d" % ned
        dnames.append(dname)
        lines = ["/-- `TimePointDumper(num_expanded_year_digits=%d)._rec_formats`. -/" % ned,
                 "def %s : DumpTables := {" % dname, "  ned := %d," % ned]
        for key, field in (("date", "date"), ("time", "time"), ("time_zone", "zone")):
            rules = []
            for r in tabs[key]:
                rules.append("    { anchored := %s, behind := %s, pat := %s, ahead := %s,\n"
                             "      out := [%s], prop := %s }" % (
                                 tr.lean_bool(r["anchored"]), lean_chars(r["behind"]),
                                 lean_chars(r["pat"]), lean_chars(r["ahead"]),
                                 ", ".join(lean_out(it) for it in r["out"]),
                                 "none" if r["prop"] is None else "some .%s" % DPROP[r["prop"]]))
            lines.append("  %s := [\n%s]%s" % (field, ",\n".join(rules),
                                               "," if field != "zone" else " }"))
        out.append("\n".join(lines))
        out.append("")
    out.append("def dumpTables : List DumpTables := [" + ", ".join(dnames) + "]")
    out.append("")
    out.append("end IsoDT.Gen.Templates")
    return "\n".join(out) + "\n"


if __name__ == "__main__":
    text = gen_templates()
    if "--write" in sys.argv[1:]:
        path = os.path.join(common.GEN_DIR, "Templates.lean")
        print("written" if common.write_if_changed(path, text) else "unchanged", path)
    else:
        sys.stdout.write(text)
