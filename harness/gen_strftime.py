"""Gen.Strftime: the strftime/strptime translation tables of parser_spec.py as Lean literals.

Read from the *live* modules on every run (never from a cached copy):

  * `parser_spec.STRFTIME_TRANSLATE_INFO`         directive -> list of property names / literal text,
                                                  or the (regex, printf, property) triple of `%s`;
  * `get_date_translate_info() + get_time_translate_info() + get_time_zone_translate_info()`
                                                  property name -> (capture regex, printf template), first
                                                  row with that name wins (exactly the lookup
                                                  `_translate_strftime_token` does);
  * `REC_SPLIT_STRFTIME_DIRECTIVE`, `REC_STRFTIME_DIRECTIVE_TOKEN`   the directive splitter;
  * the date/time key lists `_parse_from_custom_regex` partitions the captured groups with.

Emitted per property: its printf rendering as `Fmt` (`%(name)0Nd` -> zeroPad N, `%(name)s` -> str) and its
strptime pattern as a small template `Pat` (N times `[0-9]` -> digits N, `[-+]` -> signPM, the Unix-time
pattern -> unixNum), the regex group it captures into, and the class (date / time / zone) the parser files
that group under.  Anything else raises TranslateError: the model can then no longer be regenerated and the
check treats that like a broken proof (and searches the implementation for a failing input).
"""
import re

import common
from translate import TranslateError, HEADER, lean_str

# property name (TimePoint attribute used when dumping) -> (Lean constructor, regex group = TimePoint
# constructor keyword the parser feeds the captured text to)
KNOWN_PROPS = {
    "century": ("century", "century"),
    "year_of_century": ("yearOfCentury", "year_of_century"),
    "month_of_year": ("monthOfYear", "month_of_year"),
    "day_of_month": ("dayOfMonth", "day_of_month"),
    "day_of_year": ("dayOfYear", "day_of_year"),
    "hour_of_day": ("hourOfDay", "hour_of_day"),
    "minute_of_hour": ("minuteOfHour", "minute_of_hour"),
    "second_of_minute": ("secondOfMinute", "second_of_minute"),
    "time_zone_sign": ("tzSign", "time_zone_sign"),
    "time_zone_hour_abs": ("tzHourAbs", "time_zone_hour"),
    "time_zone_minute_abs": ("tzMinuteAbs", "time_zone_minute"),
    "seconds_since_unix_epoch": ("unix", "seconds_since_unix_epoch"),
}
ORDER = ["century", "year_of_century", "month_of_year", "day_of_month", "day_of_year", "hour_of_day",
         "minute_of_hour", "second_of_minute", "time_zone_sign", "time_zone_hour_abs",
         "time_zone_minute_abs", "seconds_since_unix_epoch"]

UNIX_REGEX_BODY = r"-?[0-9]+[,.]?[0-9]*"
SAFE_LITERAL = re.compile(r"^[A-Za-z0-9 :,;/_=@#~<>!'\"&-]$")


def lean_char(ch):
    if ch == "'":
        return "'\\''"
    if ch == "\\":
        return "'\\\\'"
    if 32 <= ord(ch) < 127:
        return "'%s'" % ch
    raise TranslateError("character %r in a strftime table entry" % ch)


def parse_capture(regex, prop):
    """`(?P<group>body)` -> (group, Pat as Lean text)."""
    mt = re.fullmatch(r"\(\?P<([A-Za-z_]+)>(.*)\)", regex)
    if not mt:
        raise TranslateError("capture regex of %s is not one named group: %r" % (prop, regex))
    group, body = mt.group(1), mt.group(2)
    if re.fullmatch(r"(\[0-9\])+", body):
        return group, ".digits %d" % (len(body) // 5)
    if body == "[-+]":
        return group, ".signPM"
    if body == UNIX_REGEX_BODY:
        return group, ".unixNum"
    raise TranslateError("capture pattern of %s is outside the template language: %r" % (prop, regex))


def parse_printf(fmt, prop):
    mt = re.fullmatch(r"%\(([a-z_]+)\)(0([1-9])d|s)", fmt)
    if not mt:
        raise TranslateError("printf template of %s is outside the template language: %r" % (prop, fmt))
    if mt.group(1) != prop:
        raise TranslateError("printf template of %s prints another property: %r" % (prop, fmt))
    if mt.group(2) == "s":
        return ".str"
    return ".zeroPad %s" % mt.group(3)


def gen_strftime():
    common.use_repo()
    from metomi.isodatetime import parser_spec
    split = parser_spec.REC_SPLIT_STRFTIME_DIRECTIVE
    token = parser_spec.REC_STRFTIME_DIRECTIVE_TOKEN
    if split.pattern != r"(%\w)" or split.flags != re.compile("x").flags:
        raise TranslateError("directive splitter is %r (flags %r), the model scans for (%%\\w)"
                             % (split.pattern, split.flags))
    if token.pattern != r"^%\w$" or token.flags != re.compile("x").flags:
        raise TranslateError("directive token test is %r, the model uses ^%%\\w$" % (token.pattern,))
    table = parser_spec.STRFTIME_TRANSLATE_INFO
    if not isinstance(table, dict):
        raise TranslateError("STRFTIME_TRANSLATE_INFO is not a dict")
    rows = (parser_spec.get_date_translate_info(num_expanded_year_digits=2) +
            parser_spec.get_time_translate_info() + parser_spec.get_time_zone_translate_info())
    date_keys = [item[3] for item in parser_spec.get_date_translate_info(2)]
    time_keys = [item[3] for item in parser_spec.get_time_translate_info()]

    def lookup(name):
        for _, substitute, format_, row_name in rows:
            if row_name == name:
                return substitute, format_
        return None

    used = {}        # property -> (pat, fmt, group)
    entries = []     # (char, [piece text])
    for key, value in table.items():
        if not (isinstance(key, str) and len(key) == 2 and key[0] == "%" and token.search(key)
                and 32 < ord(key[1]) < 127):
            raise TranslateError("directive key %r is not %% + one ASCII word character" % (key,))
        pieces = []
        if isinstance(value, tuple):
            if len(value) != 3:
                raise TranslateError("directive %s: expected a (regex, printf, property) triple" % key)
            substitute, format_, name = value
            if name not in KNOWN_PROPS:
                raise TranslateError("directive %s uses the unknown property %r" % (key, name))
            group, pat = parse_capture(substitute, name)
            info = (pat, parse_printf(format_, name), group)
            if used.setdefault(name, info) != info:
                raise TranslateError("property %s has two different translations" % name)
            pieces.append(".fld .%s" % KNOWN_PROPS[name][0])
        elif isinstance(value, list):
            for attr in value:
                if not isinstance(attr, str):
                    raise TranslateError("directive %s: entry %r is not a string" % (key, attr))
                found = lookup(attr)
                if found is None:
                    # "Not an attribute name, just a delimiter or something": copied verbatim into the
                    # printf template and (unescaped) into the regex
                    if attr in KNOWN_PROPS:
                        raise TranslateError("directive %s: property %s has no translate-info row" % (key, attr))
                    for ch in attr:
                        if not SAFE_LITERAL.match(ch):
                            raise TranslateError(
                                "directive %s: delimiter %r is not inert in both a printf template and a regex"
                                % (key, attr))
                        pieces.append(".lit %s" % lean_char(ch))
                    continue
                if attr not in KNOWN_PROPS:
                    raise TranslateError("directive %s uses the unknown property %r" % (key, attr))
                group, pat = parse_capture(found[0], attr)
                info = (pat, parse_printf(found[1], attr), group)
                if used.setdefault(attr, info) != info:
                    raise TranslateError("property %s has two different translations" % attr)
                pieces.append(".fld .%s" % KNOWN_PROPS[attr][0])
        else:
            raise TranslateError("directive %s: value of type %s" % (key, type(value).__name__))
        entries.append((key[1], pieces))
    for name, (pat, fmt, group) in used.items():
        if group != KNOWN_PROPS[name][1]:
            raise TranslateError("property %s captures into group %r, the model expects %r"
                                 % (name, group, KNOWN_PROPS[name][1]))
    groups = [used[n][2] for n in used]
    if len(set(groups)) != len(groups):
        raise TranslateError("two properties capture into the same regex group: %r" % (groups,))
    translators = sorted(getattr(__import__("metomi.isodatetime.data", fromlist=["x"]),
                                 "PARSE_PROPERTY_TRANSLATORS"))
    if translators != ["seconds_since_unix_epoch"]:
        raise TranslateError("PARSE_PROPERTY_TRANSLATORS has keys %r" % (translators,))

    def cls_of(group):
        if group in date_keys:
            return ".date"
        if group in time_keys:
            return ".time"
        return ".zone"

    out = [HEADER, "namespace IsoDT.Gen.Strftime", ""]
    out.append("/-- The TimePoint properties the strftime table names (parser_spec.py translate-info rows). -/")
    out.append("inductive Fld where")
    out.append("  | " + " | ".join(KNOWN_PROPS[n][0] for n in ORDER))
    out.append("  deriving DecidableEq, Repr, Inhabited")
    out.append("")
    out.append("/-- printf rendering of a property: `%(name)0Nd` or `%(name)s`. -/")
    out.append("inductive Fmt where")
    out.append("  | zeroPad (w : Nat) | str")
    out.append("  deriving DecidableEq, Repr")
    out.append("")
    out.append("/-- strptime capture pattern: N times `[0-9]`, `[-+]`, or `-?[0-9]+[,.]?[0-9]*`. -/")
    out.append("inductive Pat where")
    out.append("  | digits (n : Nat) | signPM | unixNum")
    out.append("  deriving DecidableEq, Repr")
    out.append("")
    out.append("/-- Which dict `_parse_from_custom_regex` files a captured group under. -/")
    out.append("inductive Cls where")
    out.append("  | date | time | zone")
    out.append("  deriving DecidableEq, Repr")
    out.append("")
    out.append("/-- One element of a directive's translation: a property or one character of literal text. -/")
    out.append("inductive Piece where")
    out.append("  | fld (f : Fld) | lit (c : Char)")
    out.append("  deriving DecidableEq, Repr")
    out.append("")
    out.append("/-- Is the property reachable from some directive of the live table? -/")
    out.append("def used : Fld → Bool")
    for n in ORDER:
        out.append("  | .%s => %s" % (KNOWN_PROPS[n][0], "true" if n in used else "false"))
    out.append("")
    out.append("def fmtOf : Fld → Fmt")
    for n in ORDER:
        out.append("  | .%s => %s" % (KNOWN_PROPS[n][0], used[n][1] if n in used else ".str"))
    out.append("")
    out.append("def patOf : Fld → Pat")
    for n in ORDER:
        out.append("  | .%s => %s" % (KNOWN_PROPS[n][0], used[n][0] if n in used else ".unixNum"))
    out.append("")
    out.append("/-- Name of the regex group (= TimePoint constructor keyword) the property is parsed into. -/")
    out.append("def groupName : Fld → String")
    for n in ORDER:
        out.append("  | .%s => %s" % (KNOWN_PROPS[n][0], lean_str(KNOWN_PROPS[n][1])))
    out.append("")
    out.append("def propName : Fld → String")
    for n in ORDER:
        out.append("  | .%s => %s" % (KNOWN_PROPS[n][0], lean_str(n)))
    out.append("")
    out.append("def clsOf : Fld → Cls")
    for n in ORDER:
        out.append("  | .%s => %s" % (KNOWN_PROPS[n][0], cls_of(KNOWN_PROPS[n][1])))
    out.append("")
    out.append("/-- `STRFTIME_TRANSLATE_INFO`, in the dict's order: directive letter ↦ its translation. -/")
    out.append("def table : List (Char × List Piece) := [")
    out.append(",\n".join("  (%s, [%s])" % (lean_char(ch), ", ".join(ps)) for ch, ps in entries))
    out.append("]")
    out.append("")
    out.append("def splitPattern : String := " + lean_str(split.pattern))
    out.append("def tokenPattern : String := " + lean_str(token.pattern))
    out.append("")
    out.append("end IsoDT.Gen.Strftime")
    return "\n".join(out) + "\n"


if __name__ == "__main__":
    import sys
    sys.stdout.write(gen_strftime())
