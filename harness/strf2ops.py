"""Ops for the extended strftime model and the rational Unix-time model (lean/IsoDT/Driver/Strftime2.lean).

    Strftime2Op  (C17, "strftime2")  TimePoint.strftime including the final `expression % property_map`: `%%`, a
                 stray `%`, `%(key)spec` fragments, flags / widths / precisions, non-ASCII (Latin-1) literal text,
                 against Model/Strftime2.lean.  Ported from the stand-alone script val_strf2.py.
    UnixQOp      (C18, "unixq")      get_timepoint_from_seconds_since_unix_epoch (`fromunixq`),
                 TimePoint.seconds_since_unix_epoch (`sinceq`) and strftime("%s") (`strfsq`) over exact rationals
                 (dyadic, so that every float operation of the Python is exact), against Model/UnixQ.lean.  Ported
                 from val_unixq.py.

A case is a tuple of ints / strings / None (nested); a Fraction travels as the text "n/d" (or "n").

`ModelSkips` is shared with cli2ops.py and durtextqops.py: the model may answer that it makes no claim about a
case (`err:unmodelled`, `OUTSIDE ...`, `outside`).  Such a case is run on the implementation and counted (its label
says so) but it can never be a disagreement: `canon_model` answers with what the implementation said.
"""
import collections
from fractions import Fraction

import oracle
import gens
import engine
import tpcommon as T
import qcommon as Q
from engine import Op, set_mode


def _c17():
    from props import c17      # not at import time: props.c17 is going to import this module
    return c17


def tup(x):
    """JSON lists back to tuples, recursively."""
    return tuple(tup(y) for y in x) if isinstance(x, (list, tuple)) else x


# ---------------------------------------------------------------------------------------------------------
# cases on which the model makes no claim

class ModelSkips:
    """Mixin.  `gen` passes its stream through `peeked`, which asks the driver (in chunks) what kind of answer
    the model gives for each case, so that `label` can say it; `note` (called from `oracle`, i.e. after every
    implementation run) keeps the implementation's answer of the declined cases for `canon_model`."""
    CHUNK = 500

    def declines(self, a, model_out):
        """Does this model answer mean `no claim`?"""
        raise NotImplementedError

    def model_kind(self, a, model_out):
        """Short class of the model's answer for case a, for the label."""
        return model_out.split(" ")[0]

    def _state(self):
        if "_kinds" not in self.__dict__:
            self._kinds = {}
            self._kept = {}
            self.skipped = collections.Counter()
        return self

    def peeked(self, cases):
        self._state()
        self._kinds.clear()
        self._kept.clear()
        chunk = []
        for a in cases:
            chunk.append(a)
            if len(chunk) >= self.CHUNK:
                self._peek(chunk)
                for b in chunk:
                    yield b
                chunk = []
        if chunk:
            self._peek(chunk)
            for b in chunk:
                yield b

    def _peek(self, chunk):
        outs = engine.run_driver([self.line(a) for a in chunk])
        if len(outs) != len(chunk):
            raise RuntimeError("driver returned %d lines for %d inputs" % (len(outs), len(chunk)))
        for a, out in zip(chunk, outs):
            self._kinds[a] = (self.model_kind(a, out), self.declines(a, out))

    def peek(self, a):
        """(kind, declined) of the model's answer for a; a case that did not come through `peeked` (corpus,
        replay) is asked for on its own."""
        self._state()
        if a not in self._kinds:
            try:
                self._peek([a])
            except (RuntimeError, OSError):      # driver not there: the replay machinery reports that itself
                return ("?", False)
        return self._kinds[a]

    def note(self, a, out, always=False):
        if always or self.peek(a)[1]:
            self._kept[a] = out

    def answer_of_impl(self, a):
        self._state()
        if a in self._kept:
            return self._kept[a]
        return self.impl(a)


# ---------------------------------------------------------------------------------------------------------
# strftime2

PROPS = ["century", "year_of_century", "month_of_year", "day_of_month", "day_of_year", "hour_of_day",
         "minute_of_hour", "second_of_minute", "time_zone_sign", "time_zone_hour_abs", "time_zone_minute_abs",
         "seconds_since_unix_epoch"]
PUNCT = list(" !\"#$&'()*+,-./:;<=>?@[\\]^`{|}~\t\n")
FLAGS = list("-+ #0")
CONV = list("diuoxXeEfFgGcsra%")


def stray(rng):
    """A fragment that starts with a % which is not (meant to be) a directive."""
    r = rng.random()
    if r < 0.25:
        return "%%"
    if r < 0.35:
        return "%" + rng.choice(PUNCT)
    if r < 0.45:
        return ("%" + "".join(rng.choice(FLAGS[:4]) for _ in range(rng.randint(1, 2)))
                + "".join(rng.choice(FLAGS) for _ in range(rng.randint(0, 2)))
                + rng.choice(["", "5", "12", "007", "99999999999999999999", "9223372036854775807",
                              "9223372036854775808"])
                + rng.choice(["", "", ".", ".3", ".*", ".2147483647", ".2147483648"])
                + rng.choice(["", "", "l", "h", "L"]) + rng.choice(CONV + ["", "q", "Y", "!", " "]))
    if r < 0.75:
        key = rng.choice(PROPS + PROPS + ["", "x", "year", "(a)b", "century)", "(century"])
        spec = rng.choice(["02d", "02d", "s", "s", "03d", "d", "0d", "00005d", "05ld", "i", "u", "02i", "5d", "-5d",
                           "+d", ".3d", "x", "c", "r", "5s", "0s", "%", "", "*d", "02", "hs", "ls", "0999d",
                           "01000d", "0", "(", "((", "!", "e", "f", " d", "02hd", "0.d", "0.0d", "Y", "010d",
                           "04u"])
        return "%(" + key + ")" + spec
    if r < 0.8:
        return "%("
    if r < 0.85:
        return "%*" + rng.choice(["d", "", "s"])
    if r < 0.9:
        return "%." + rng.choice(["", "3s", "%", "*d", "5d"])
    return "%"


def gen_fmt(rng):
    C = _c17()
    r = rng.random()
    n = rng.randint(0, 5)
    parts = []
    for _ in range(n + 1):
        k = rng.random()
        if k < 0.45:
            parts.append("%" + rng.choice(C.SUPPORTED))
        elif k < 0.5:
            parts.append("%" + rng.choice(C.UNSUPPORTED))
        elif k < 0.7:
            parts.append(C.gen_literal(rng))
        elif k < 0.75:
            parts.append(rng.choice(["\t", "\n", " ", "\\", ".", "(", "+", "\x00", "\x7f", "\xe9", "\xd7"]))
        else:
            parts.append(stray(rng))
    if r < 0.08:
        parts.append("%")
    return "".join(parts)


FIXED_FORMATS = [
    "100%% %Y", "%%Y", "%%%Y", "%%a", "%%", "%", "abc%", "%Y%", "% ", "% %Y", "% Y", "%-5d", "%.3s", "% s", "%Y% s",
    "%(century)s", "%Y%(century)s", "%Y %(century)03d|", "%(", "%()", "%(a", "%!", "%.", "%.%", "%5%", "%-%", "%*d",
    "%Y%(century)*d", "%z%(time_zone_sign)*d", "%z%(time_zone_sign)d", "%z%(time_zone_sign)s",
    "%s%(seconds_since_unix_epoch)s", "%(%Y)s", "%(%Y", "%Y%!", "%Y%-q", "%-d%-d", "%-!%-s", "%%%%", "%%%", "%%%%%",
    "%% %Y %%", "%F%%%X", "%%-%Y", "%%%F%%%X%%", "%-9223372036854775807d", "%-9223372036854775808d",
    "%-.2147483647d", "%-.2147483648d", "%Y%(century)0999d", "%Y%(century)01000d", "%\xe9", "%%\xe9", "\xe9%Y",
    "%\xd7", "%Y%\xd7", "%Y%(century)hhd", "%Y%(century)lld", "%Y%(century)-", "%Y%(century)5", "%Y%(century).",
    "%Y%(century).5", "%Y%(century)5.5h", "%j%(day_of_year)02d%%", "%z%%(time_zone_sign)s"]
FIXED_POINTS = [("c", 2000, 3, 4, 5, 6, 7, 0, 0), ("w", 1970, 53, 5, 0, 1, 0, -3, -30),
                ("c", 12000, 1, 1, 0, 0, 0, 0, 0)]


def fmt_kind(fmt):
    import re
    kind = (("pctpct" if "%%" in fmt else "") + ("+key" if "%(" in fmt else "")
            + ("+lone" if re.search(r"%[^\w%(]", fmt) or fmt.endswith("%") else ""))
    return kind or "plain"


class Strftime2Op(ModelSkips, Op):
    """strftime with everything the dumper hands to Python's `%` operator, against `strftime2`."""
    prop = "C17"
    name = "strftime2"

    def declines(self, a, model_out):
        return model_out == "err:unmodelled"

    def gen(self, rng, tier, boost):
        return self.peeked(self._gen(rng, tier, boost))

    def _gen(self, rng, tier, boost):
        C = _c17()
        shard = getattr(self, "shard", None)
        n = (6000 if tier == "quick" else 60000) * boost
        if shard:
            n = n // shard[1] + 1
        for _ in range(n):
            m = gens.mode(rng) if rng.random() < 0.3 else "greg"
            t = C.gen_point(rng, m, unixy=rng.random() < 0.3)
            fmt = gen_fmt(rng)
            if any(ord(ch) > 255 for ch in fmt):      # the hex tokens carry one byte per character
                continue
            yield (m, t, fmt)
        for fmt in gens.shard_filter(FIXED_FORMATS, shard):
            for t in FIXED_POINTS:
                yield ("greg", t, fmt)

    def from_corpus(self, a):
        return tup(a)

    def line(self, a):
        m, t, fmt = a
        return "strftime2 %s %s %s" % (m, T.tp_str(t), _c17().hx(fmt))

    def impl(self, a):
        from metomi.isodatetime import exceptions as ex
        m, t, fmt = a
        set_mode(m)
        try:
            return "ok " + _c17().hx(T.mk_tp(t).strftime(fmt))
        except ex.StrftimeSyntaxError:
            return "err:syntax"
        except ex.TimePointDumperBoundsError:
            return "err:bounds"
        except ex.IsodatetimeError as exc:
            return "err:" + type(exc).__name__
        except ValueError:        # raised by `expression % property_map`
            return "err:value"
        except KeyError:          # `%(no such property)s`
            return "err:key"
        except TypeError:         # `%*d`, `%d` of the mapping itself, ...
            return "err:type"

    def oracle(self, a, out):
        # stray `%` is outside C17's "supported directives and literal text": no clause to judge here
        self.note(a, out)
        return None

    def canon_model(self, a, out):
        if self.declines(a, out):
            self._state().skipped["unmodelled"] += 1
            return self.answer_of_impl(a)
        return out

    def label(self, a):
        kind, declined = self.peek(a)
        if declined:
            return "strftime2/unmodelled(skipped)"
        return "strftime2/%s/%s" % (kind, fmt_kind(a[2]))


# ---------------------------------------------------------------------------------------------------------
# Unix time over exact rationals

LOCS = [(0, 0), (1, 0), (-5, 0), (5, 30), (-3, -30), (0, -30), (0, 45), (12, 0), (-12, 0), (13, 45), (-9, -30),
        (23, 59), (-23, -59)]


def gen_x(rng):
    r = rng.random()
    if r < 0.25:
        whole = rng.choice([0, 0, -1, 1, -2, 59, 60, -60, 86399, 86400, -86400, -86401, 3599, 3600, 946684800,
                            -2208988800, 2 ** 31 - 1, 2 ** 31, -2 ** 31])
    elif r < 0.6:
        whole = rng.randint(-10 ** 5, 10 ** 5)
    elif r < 0.9:
        whole = rng.randint(-6 * 10 ** 10, 25 * 10 ** 10)
    else:
        whole = rng.randint(-10 ** 3, 10 ** 3)
    r = rng.random()
    if r < 0.25:
        frac = Fraction(0)
    elif r < 0.6:
        frac = Fraction(rng.choice([1, 1, 3, 5, 7, 511, 1023, 1, 255]), rng.choice([2, 4, 8, 1024, 1024]))
        frac = frac - int(frac)
    else:
        frac = Fraction(rng.randint(1, 1023), 1024)
    return whole + frac * rng.choice([1, -1])


def epoch_day(m):
    return oracle.date_day_num(m, ("c", 1970, 1, 1))


def gen_since_point(rng, m):
    """A q-point with dyadic fractions: near the epoch in any form, or anywhere."""
    if rng.random() < 0.5:
        x = gen_x(rng)
        if abs(x) > 10 ** 7:
            x = x % 10 ** 6
        tzh, tzm = gens.offset(rng)
        total = Fraction(86400) * epoch_day(m) + x + 3600 * tzh + 60 * tzm
        day, sod = divmod(total, 86400)
        rep = rng.choice("cow")
        if rep == "c":
            y, a, b = oracle.cal_of_day_num(m, int(day))
        elif rep == "o":
            (y, a), b = oracle.ord_of_day_num(m, int(day)), 0
        else:
            y, a, b = oracle.week_of_day_num(m, int(day))
        hh, rest = divmod(sod, 3600)
        mi, ss = divmod(rest, 60)
        return (rep, y, a, b, Fraction(hh), Fraction(mi), ss, tzh, tzm)

    def dy(v):
        if v is None:
            return None
        w = int(v)
        f = v - w
        return w + Fraction(round(f * 1024), 1024) if f else v
    while True:
        p = Q.gen_qpoint(rng, m, form=rng.choice("sssmh"))
        p = p[:4] + (dy(p[4]), dy(p[5]), dy(p[6])) + p[7:]
        if (p[4] < 24) and (p[5] is None or p[5] < 60) and (p[6] is None or p[6] < 60):
            return p
        if p[4] == 24:
            return p


def enc_point(p):
    return p[:4] + tuple(None if v is None else Q.q(Fraction(v)) for v in p[4:7]) + p[7:]


def dec_point(e):
    return Q.norm_point(e)


def canon_point(r):
    date, H, M, S, tzh, tzm = Q.slots_of(r)
    d = list(date) + ([0] if date[0] == "o" else [])
    return "%s %d %d %d %s %s %s %d %d" % (d[0], d[1], d[2], d[3], Q.q(H), Q.q(M), Q.q(S), tzh, tzm)


class UnixQOp(Op):
    """("from", mode, x, None | (h, mi)) | ("since", mode, q-point) | ("strfs", mode, q-point)."""
    prop = "C18"
    name = "unixq"

    def gen(self, rng, tier, boost):
        n = (700 if tier == "quick" else 7000) * boost
        shard = getattr(self, "shard", None)
        if shard:
            n = n // shard[1] + 1
        seen = set()
        for _ in range(n):
            m = gens.mode(rng) if rng.random() < 0.35 else "greg"
            x = gen_x(rng)
            loc = None if rng.random() < 0.4 else rng.choice(LOCS)
            a = ("from", m, Q.q(x), loc)
            if a not in seen:
                seen.add(a)
                yield a
        for _ in range(n):
            m = gens.mode(rng) if rng.random() < 0.35 else "greg"
            p = enc_point(gen_since_point(rng, m))
            if (m, p) not in seen:
                seen.add((m, p))
                yield ("since", m, p)
                yield ("strfs", m, p)

    def from_corpus(self, a):
        return tup(a)

    def line(self, a):
        if a[0] == "from":
            _, m, x, loc = a
            return "fromunixq %s %s %s" % (m, x, "utc" if loc is None else "%d %d" % tuple(loc))
        return "%s %s %s" % ("sinceq" if a[0] == "since" else "strfsq", a[1], Q.tokens(dec_point(a[2])))

    def impl(self, a):
        from metomi.isodatetime import data
        C = _c17()
        set_mode(a[1])
        try:
            if a[0] == "from":
                _, m, x, loc = a
                x = Q.parse_q(x)
                assert Fraction(float(x)) == x, "not a binary64 value: %s" % x
                if loc is None:
                    r = data.get_timepoint_from_seconds_since_unix_epoch(float(x), utc=True)
                else:
                    with C.LocalZone(*loc):      # restores timezone.get_local_time_zone on exit
                        r = data.get_timepoint_from_seconds_since_unix_epoch(float(x), utc=False)
                return canon_point(r)
            p = dec_point(a[2])
            if a[0] == "strfs":
                return "ok " + C.hx(Q.mk_point(p).strftime("%s"))
            return str(Q.mk_point(p).seconds_since_unix_epoch)
        except ValueError:
            return "err"

    # -- the property's own reading: exact rationals through oracle.py / qcommon.py, no model -------------
    def oracle(self, a, out):
        m = a[1]
        if a[0] == "from":
            x = Q.parse_q(a[2])
            loc = (0, 0) if a[3] is None else tuple(a[3])
            what = "the point %s s after the epoch in %s, zone %+d:%02d" % (a[2], m, loc[0], abs(loc[1]))
            f = out.split()
            if len(f) != 9 or f[0] not in ("c", "o", "w"):
                return "%s: no point came back: %s" % (what, out)
            p = (f[0], int(f[1]), int(f[2]), int(f[3]), Q.parse_q(f[4]), Q.parse_q(f[5]), Q.parse_q(f[6]),
                 int(f[7]), int(f[8]))
            if not oracle.date_valid(m, Q.date_of(p)) or not Q.in_range(p[4], p[5], p[6]):
                return "%s: is not a valid point: %s" % (what, out)
            if (p[7], p[8]) != loc:
                return "%s: came back in zone %d %d" % (what, p[7], p[8])
            want = 86400 * epoch_day(m) + x
            if Q.inst(m, p) != want:
                return "%s: %s is off by %s s" % (what, Q.describe(p), Q.q(Q.inst(m, p) - want))
            return None
        p = dec_point(a[2])
        d = Q.inst(m, p) - 86400 * epoch_day(m)
        what = "%s in %s, %s s after the epoch" % (Q.describe(p), m, Q.q(d))
        text = out
        if a[0] == "strfs":
            if not out.startswith("ok "):
                return "%s: strftime('%%s') failed: %s" % (what, out)
            text = _c17().unhx(out[3:])
        try:
            got = int(text)
        except ValueError:
            return "%s: the Unix time came back as %r" % (what, text)
        if text != str(got):
            return "%s: the Unix time is spelt %r" % (what, text)
        if d.denominator == 1:
            if got != d:
                return "%s: the Unix time came back as %d" % (what, got)
        elif not abs(got - d) < 1:
            return "%s: the Unix time came back as %d, not a neighbouring whole number" % (what, got)
        return None

    def label(self, a):
        if a[0] == "from":
            x = Q.parse_q(a[2])
            return "unixq/from/%s/%s/%s" % ("utc" if a[3] is None else "loc", "neg" if x < 0 else "pos",
                                            "frac" if x.denominator > 1 else "whole")
        p = dec_point(a[2])
        if a[0] == "strfs":
            return "unixq/strfs/%s/%s" % (Q.form_of(p), p[0])
        d = Q.inst(a[1], p) - 86400 * epoch_day(a[1])
        return "unixq/since/%s/%s/%s" % (Q.form_of(p), "neg" if d < 0 else "pos",
                                         "frac" if d.denominator > 1 else "whole")
