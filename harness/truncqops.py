"""Op for `TimePoint.add_truncated` / `truncated + point` on full points in any time-precision form with
exact-rational slots (lean/IsoDT/Model/TruncatedQ.lean, driver op `addtruncq` in lean/IsoDT/Driver/TruncQ.lean;
theorems Props/C20q).  Ported from the stand-alone script validate_truncq.py.  Op class `AddTruncQOp` (C20, "addtruncq").

    addtruncq <mode> <rep> <y> <a> <b> <hh> <mi|_> <ss|_> <tzh> <tzm>  <week|_> <dow|_> <dom|_> <doy|_> <hh|_> <mi|_> <ss|_> <tzh|_> <tzm|_>
        -> <rep> <y> <a> <b> <hh> <mi|_> <ss|_> <tzh> <tzm>  |  err

A case is (mode, q-point, truncated): the q-point as in qcommon.py with its hour / minute / second slots written as
rational texts "n/d" (None = the slot is absent: decimal-minute / decimal-hour forms), the truncated point as the nine
integers-or-None of props/c20.py.  All fractions are dyadic and the zone offsets of decimal-hour points are multiples
of 15 minutes, so every float operation of the Python is exact and the comparison is exact.

Termination: the implementation loops until a field matches.  `impl` counts `TimePoint._tick_over` calls (the longest
legitimate wait, day 366 across a common century year, is under 3000 steps) and lets `engine.OpTimeout` out when the
count passes SPIN_LIMIT - the engine records `Timeout`, exactly as for a case that runs out of wall-clock budget.

The oracle is the property read with exact fractions, no model: the result is a valid point in p's UTC offset, not
earlier than p; read in t's zone (p's if t has none) its day matches t's day designator and its time of day matches
t's time fields (unnamed lower fields zero) or, when t names no time field, is p's time of day unchanged; and for the
shapes without a day designator it is the EARLIEST such instant (brute force over the whole seconds of three days).
"""
from fractions import Fraction

import oracle
import gens
import engine
import tpcommon as T
import qcommon as Q
from engine import Op, set_mode
from strf2ops import tup, enc_point, dec_point

SPIN_LIMIT = 12000
MODES4 = ("greg", "d360", "d365", "d366")


def _c20():
    from props import c20      # not at import time: props.c20 is going to import this module
    return c20


def q15(off):
    h, mi = off
    mi = (abs(mi) // 15) * 15
    if h < 0:
        mi = -mi
    return (h, mi)


def dyadic_frac(rng, form):
    j = {"s": 3, "m": 4, "h": 6}[form]
    d = 2 ** rng.randint(1, j)
    return Fraction(rng.randint(1, d - 1), d)


def point_at(m, x, rep, tzh, tzm, form):
    """The q-point of form s / m / h at exact instant x in the given offset, or None if a slot would not be dyadic."""
    local = Fraction(x) + 3600 * tzh + 60 * tzm
    day, sod = divmod(local, 86400)
    day = int(day)
    if rep == "c":
        y, a, b = oracle.cal_of_day_num(m, day)
    elif rep == "o":
        (y, a), b = oracle.ord_of_day_num(m, day), 0
    else:
        y, a, b = oracle.week_of_day_num(m, day)
    if form == "h":
        p = (rep, y, a, b, Fraction(sod) / 3600, None, None, tzh, tzm)
    else:
        hh, rest = divmod(sod, 3600)
        if form == "m":
            p = (rep, y, a, b, Fraction(hh), Fraction(rest) / 60, None, tzh, tzm)
        else:
            mi, ss = divmod(rest, 60)
            p = (rep, y, a, b, Fraction(hh), Fraction(mi), Fraction(ss), tzh, tzm)
    return p if Q.dyadic(p) else None


#: distances (seconds) from a match at which points are placed, by form: at it, a step before / after, and as
#: close as the form's dyadic slot allows
NEAR = {"s": [0, 0, 1, -1, Fraction(1, 8), Fraction(-1, 8), Fraction(1, 2), Fraction(-1, 2), Fraction(7, 8),
              Fraction(-7, 8)],
        "m": [0, 0, 15, -15, 60, -60, Fraction(15, 16), Fraction(-15, 16), Fraction(15, 4), Fraction(-15, 4)],
        "h": [0, 0, 900, -900, 3600, -3600, Fraction(225, 16), Fraction(-225, 16), Fraction(225, 4),
              Fraction(-225, 4)]}


def gen_case(rng):
    c20 = _c20()
    m = "greg" if rng.random() < 0.6 else gens.mode(rng)
    t = c20.gen_trunc(rng, m)
    # base whole-second point, year moderate
    p = T.gen_tp(rng, m)
    if abs(p[1]) > 9000 or p[1] < 1:
        p = (p[0], 2000 + rng.randint(-30, 30)) + p[2:]
        if not T.valid(m, p):
            return None
    form = rng.choice("smh")
    week, dow, dom, doy, th, tm, ts, ttzh, ttzm = t
    tzh, tzm = p[7], p[8]
    if form == "h":
        tzh, tzm = q15((tzh, tzm))
        if ttzh is not None:
            ttzh, ttzm = q15((ttzh, ttzm))
        p = p[:7] + (tzh, tzm)
    t = (week, dow, dom, doy, th, tm, ts, ttzh, ttzm)
    if rng.random() < 0.5:
        # a point exactly at / just before / just after a match
        target = c20.spec_add_trunc(m, p, t)
        if target is not None:
            for f in (form, "s"):
                qp = point_at(m, target + rng.choice(NEAR[f]), p[0], tzh, tzm, f)
                if qp is not None:
                    if rng.random() < 0.1 and qp[4] == 0 and not qp[5] and not qp[6]:
                        qp = as_24(m, qp)
                    return (m, qp, t)
    rep, y, a, b, hh, mi, ss, tzh, tzm = p
    want_frac = rng.random() < 0.6 and hh != 24
    if form == "s":
        fr = dyadic_frac(rng, "s") if want_frac else 0
        if want_frac and rng.random() < 0.3:
            fr = rng.choice([Fraction(1, 8), Fraction(7, 8), Fraction(1, 2)])
        qp = (rep, y, a, b, Fraction(hh), Fraction(mi), ss + fr, tzh, tzm)
    elif form == "m":
        # decimal minute: the seconds become the minute's fraction (ss/60 is not dyadic in general):
        # only ss in {0, 15, 30, 45} + an optional finer dyadic part
        s2 = rng.choice([0, 15, 30, 45]) if hh != 24 else 0
        fr = Fraction(s2, 60) + ((dyadic_frac(rng, "m") / 4) if want_frac else 0)
        qp = (rep, y, a, b, Fraction(hh), mi + fr, None, tzh, tzm)
    else:
        m2 = rng.choice([0, 15, 30, 45]) if hh != 24 else 0
        fr = Fraction(m2, 60) + ((dyadic_frac(rng, "h") / 4) if want_frac else 0)
        qp = (rep, y, a, b, hh + fr, None, None, tzh, tzm)
    return (m, qp, t)


def as_24(m, qp):
    """Midnight written as 24:00 of the day before (same form)."""
    day = oracle.date_day_num(m, Q.date_of(qp)) - 1
    rep = qp[0]
    if rep == "c":
        y, a, b = oracle.cal_of_day_num(m, day)
    elif rep == "o":
        (y, a), b = oracle.ord_of_day_num(m, day), 0
    else:
        y, a, b = oracle.week_of_day_num(m, day)
    return (rep, y, a, b, Fraction(24)) + qp[5:]


def extra_cases():
    """The cases named in the work package: fractions on either side of a match, 24:00 in the three forms, ..."""
    F = Fraction

    def tr(**kw):
        names = ["week", "dow", "dom", "doy", "hh", "mi", "ss", "tzh", "tzm"]
        return tuple(kw.get(n) for n in names)
    base = ("c", 2000, 1, 1)
    pts = [
        base + (F(5), F(59), F(479, 8), 0, 0),     # 05:59:59.875
        base + (F(6), F(0), F(1, 8), 0, 0),        # 06:00:00.125
        base + (F(5), F(119, 2), None, 0, 0),      # 05:59,5
        base + (F(5), F(477, 8), None, 0, 0),      # 05:59,625 -> 37.5 s
        base + (F(11, 2), None, None, 0, 0),       # 05,5
        base + (F(0), F(0), F(31, 2), 0, 0),       # 00:00:15.5
        base + (F(6), F(0), F(1, 2), 0, 0),        # 06:00:00.5
        base + (F(6), F(0), F(0), 0, 0),
        base + (F(24), F(0), F(0), 0, 0),
        base + (F(24), F(0), None, 0, 0),
        base + (F(24), None, None, 0, 0),
        base + (F(23), F(59), F(119, 2), 5, 30),
        ("o", 2000, 366, 0, F(95, 4), None, None, -3, -30),
        ("w", 2020, 53, 7, F(23), F(239, 4), None, 0, 0),
        ("c", 2000, 2, 29, F(12), F(30), F(61, 4), 13, 45),
    ]
    trs = [tr(hh=6), tr(mi=30), tr(ss=15), tr(hh=6, mi=0, ss=0), tr(hh=0), tr(ss=0), tr(mi=0), tr(dom=15), tr(dom=31),
           tr(doy=1), tr(doy=366), tr(dow=3), tr(week=53, dow=5), tr(week=1, dow=1), tr(dom=1, hh=6),
           tr(doy=60, mi=30), tr(hh=6, tzh=1, tzm=0), tr(hh=6, tzh=-5, tzm=-30), tr(ss=15, tzh=0, tzm=0),
           tr(mi=30, tzh=5, tzm=45), tr(dom=15, hh=0, tzh=9, tzm=0)]
    out = []
    for m in MODES4:
        for p in pts:
            if not oracle.date_valid(m, Q.date_of(p)):
                continue
            for t in trs:
                if m == "d360" and (t[2] == 31 or t[3] == 366 or t[0] == 53):
                    continue
                if m == "d365" and t[3] == 366:
                    continue
                out.append((m, p, t))
    return out


class Counting:
    """TimePoint._tick_over counted; OpTimeout once it has been called SPIN_LIMIT times."""

    def __enter__(self):
        from metomi.isodatetime.data import TimePoint
        self.cls = TimePoint
        self.saved = TimePoint.__dict__["_tick_over"]
        saved = self.saved
        count = [0]

        def counting(point, *args, **kw):
            count[0] += 1
            if count[0] > SPIN_LIMIT:
                raise engine.OpTimeout()
            return saved(point, *args, **kw)
        TimePoint._tick_over = counting
        return self

    def __exit__(self, *exc):
        self.cls._tick_over = self.saved


def raw_slots(r):
    if r._month_of_year is not None:
        date = "c %d %d %d" % (r._year, r._month_of_year, r._day_of_month)
    elif r._day_of_year is not None:
        date = "o %d %d 0" % (r._year, r._day_of_year)
    else:
        date = "w %d %d %d" % (r._year, r._week_of_year, r._day_of_week)
    h2, m2, s2 = r._hour_of_day, r._minute_of_hour, r._second_of_minute
    return "%s %s %s %s %d %d" % (date, Q.q(Fraction(h2)), Q.q(None if m2 is None else Fraction(m2)),
                                  Q.q(None if s2 is None else Fraction(s2)), r._time_zone._hours,
                                  r._time_zone._minutes)


class AddTruncQOp(Op):
    prop = "C20"
    name = "addtruncq"

    def gen(self, rng, tier, boost):
        n = (5000 if tier == "quick" else 50000) * boost
        shard = getattr(self, "shard", None)
        if shard:
            n = n // shard[1] + 1
        seen = set()
        for m, qp, t in gens.shard_filter(extra_cases(), shard):
            yield (m, enc_point(qp), t)
        made = 0
        while made < n:
            c = gen_case(rng)
            made += 1
            if c is None:
                continue
            a = (c[0], enc_point(c[1]), c[2])
            if a not in seen:
                seen.add(a)
                yield a

    def from_corpus(self, a):
        return tup(a)

    def line(self, a):
        return "addtruncq %s %s %s" % (a[0], Q.tokens(dec_point(a[1])), _c20().trunc_str(a[2]))

    def impl(self, a):
        c20 = _c20()
        set_mode(a[0])
        p = Q.mk_point(dec_point(a[1]))
        tt = c20.mk_trunc(a[2])
        outs = []
        for order in (0, 1):
            with Counting():                  # restores TimePoint._tick_over on the way out
                try:
                    r = (tt + p) if order == 0 else (p + tt)
                except ValueError:
                    outs.append("err")
                    continue
            outs.append(raw_slots(r))
        if outs[1] != outs[0]:
            return "%s ORDER-DIFFERS %s" % (outs[0], outs[1])
        return outs[0]

    # -- the property with exact fractions, no model --------------------------------------------------------
    def oracle(self, a, out):
        c20 = _c20()
        m, t = a[0], a[2]
        p = dec_point(a[1])
        week, dow, dom, doy, hh, mi, ss, tzh, tzm = t
        what = "truncated %s + %s in %s" % (c20.trunc_str(t), Q.describe(p), m)
        if "ORDER-DIFFERS" in out:
            return "%s: t + p and p + t differ: %s" % (what, out)
        f = out.split()
        if len(f) != 9 or f[0] not in ("c", "o", "w"):
            return "%s failed or did not terminate: %s" % (what, out)
        r = (f[0], int(f[1]), int(f[2]), int(f[3]), Q.parse_q(f[4]), Q.parse_q(f[5]), Q.parse_q(f[6]),
             int(f[7]), int(f[8]))
        if not oracle.date_valid(m, Q.date_of(r)) or not Q.in_range(r[4], r[5], r[6]):
            return "%s = %s is not a valid date-time" % (what, out)
        if (r[7], r[8]) != (p[7], p[8]):
            return "%s = %s is not in p's UTC offset" % (what, Q.describe(r))
        inst_p, got = Q.inst(m, p), Q.inst(m, r)
        if got < inst_p:
            return "%s = %s is earlier than p (by %s s)" % (what, Q.describe(r), Q.q(inst_p - got))
        zh, zm = (p[7], p[8]) if (tzh is None and tzm is None) else (tzh or 0, tzm or 0)
        off = 3600 * zh + 60 * zm
        day, sod = divmod(got + off, 86400)
        if not c20.day_matches(m, t, int(day)):
            return "%s = %s does not fall on the day asked for (read in offset %d:%02d)" % (
                what, Q.describe(r), zh, abs(zm))
        pattern = c20.time_pattern(t)
        if pattern is None:
            if sod != (inst_p + off) % 86400:
                return "%s = %s: no time field was given, yet the time of day changed" % (what, Q.describe(r))
            return None
        fits = (sod.denominator == 1 and (pattern[0] is None or sod // 3600 == pattern[0])
                and (pattern[1] is None or sod % 3600 // 60 == pattern[1]) and sod % 60 == pattern[2])
        if not fits:
            return "%s = %s: the time of day %s s (read in offset %d:%02d) is not the one asked for" % (
                what, Q.describe(r), Q.q(sod), zh, abs(zm))
        if any(x is not None for x in (week, dow, dom, doy)):
            return None          # with a day designator: `earliest` is judged by props/c20.py on whole-second points
        day0 = int((inst_p + off) // 86400)
        best = None
        for n in (day0, day0 + 1, day0 + 2):
            for h in ([pattern[0]] if pattern[0] is not None else range(24)):
                for x in ([pattern[1]] if pattern[1] is not None else range(60)):
                    cand = 86400 * n + 3600 * h + 60 * x + pattern[2] - off
                    if cand >= inst_p and (best is None or cand < best):
                        best = cand
        if got != best:
            return "%s = %s, the earliest matching date-time not before p is %s s earlier" % (
                what, Q.describe(r), Q.q(got - best))
        return None

    def label(self, a):
        p, t = dec_point(a[1]), a[2]
        tm = "".join(c for c, v in zip("hms", t[4:7]) if v is not None) or "-"
        dy = "week" if t[0] is not None else ("dow" if t[1] is not None else
                                             ("dom" if t[2] is not None else ("doy" if t[3] is not None else "-")))
        secs = 3600 * p[4] + 60 * (p[5] or 0) + (p[6] or 0)
        return "addtruncq/%s/%s/%s/%s/%s" % (Q.form_of(p), "whole" if secs.denominator == 1 else "frac", tm, dy,
                                             "tz" if t[7] is not None else "notz")
