"""Helpers for the recurrence property modules (C12, C13, C14)."""
import oracle
import gens
import tpcommon as T
from props import c05


def mk_rec(r):
    from metomi.isodatetime.data import TimeRecurrence
    reps, start, dur, end = r
    kw = {}
    if reps is not None:
        kw["repetitions"] = reps
    if start is not None:
        kw["start_point"] = T.mk_tp(start)
    if dur is not None:
        kw["duration"] = T.mk_dur(dur)
    if end is not None:
        kw["end_point"] = T.mk_tp(end)
    return TimeRecurrence(**kw)


def rec_line(r):
    reps, start, dur, end = r
    parts = ["_" if reps is None else str(reps)]
    parts.append("_" if start is None else "S " + T.tp_str(start))
    parts.append("_" if dur is None else "D " + T.dur_str(dur))
    parts.append("_" if end is None else "E " + T.tp_str(end))
    return " ".join(parts)


def canon_rec(rec):
    reps = "_" if rec.repetitions is None else str(rec.repetitions)
    start = "_" if rec.start_point is None else T.canon_tp(rec.start_point)
    dur = "_" if rec.duration is None else T.canon_dur(rec.duration)
    end = "_" if rec.end_point is None else T.canon_tp(rec.end_point)
    return "%s ; %s ; %s ; %s ; %s" % (reps, start, dur, end, rec.format_number)


def canon_pts(pts):
    return " | ".join(T.canon_tp(p) for p in pts)


def parse_pts(s):
    if not s.strip():
        return []
    return [T.parse_tp(x) for x in s.split(" | ")]


def is_exact(d):
    return d[0] == "W" or (d[1] == 0 and d[2] == 0)


def is_zero(d):
    return is_exact(d) and (T.dur_seconds(d) if d[0] == "U" else d[1]) == 0


def gen_interval(rng, nominal=0.35):
    """A single-signed (non-negative) interval: exact of any size, or nominal (months/years)."""
    r = rng.random()
    if r < 0.08:
        return ("W", rng.choice([1, 2, 4, 52]))
    if rng.random() < nominal:
        y = rng.choice([0, 0, 1, 1, 2, 4])
        mo = rng.choice([0, 1, 1, 2, 3, 6, 12, 13])
        if y == 0 and mo == 0:
            mo = 1
        d = rng.choice([0, 0, 0, 1, 2, 30])
        h = rng.choice([0, 0, 0, 6, 15])
        return ("U", y, mo, d, h, 0, rng.choice([0, 0, 1]))
    unit = rng.choice("dhms")
    d = h = mi = s = 0
    if unit == "d":
        d = rng.choice([1, 1, 2, 7, 10, 30, 31, 365, 366])
        if rng.random() < 0.12:
            # intervals of a century and more (a 400-year cycle is 146097 days in the Gregorian calendar
            # only: 144000 / 146000 / 146400 in the fixed-length ones)
            d = rng.choice([36500, 36525, 40000, 144000, 146000, 146097, 146400, 150000])
    elif unit == "h":
        h = rng.choice([1, 6, 12, 23, 24, 25, 48])
    elif unit == "m":
        mi = rng.choice([1, 15, 59, 60, 61, 90, 1440])
    else:
        s = rng.choice([1, 59, 60, 3599, 3600, 86399, 86400, 86401])
    if rng.random() < 0.3:
        h += rng.choice([0, 1, 5])
        mi += rng.choice([0, 30])
    return ("U", 0, 0, d, h, mi, s)


def gen_anchor(rng, m):
    t = T.gen_tp(rng, m, allow24=rng.random() < 0.3)
    # keep years moderate: recurrence cost is linear in the span
    if abs(t[1]) > 9999:
        y = rng.choice([1999, 2000, 2004, 2020, 1, 0, -1, 9998])
        t = (t[0], y) + t[2:]
        if not T.valid(m, t):
            t = ("c", y, 1, 1) + t[4:]
    return t


def gen_rec(rng, m, fmt=None, bounded=None, nominal=0.35, max_reps=40):
    """(rec tuple, info) with info = dict(fmt, anchor, interval, reps)."""
    if fmt is None:
        fmt = rng.choice([1, 3, 3, 4, 4])
    if bounded is None:
        bounded = rng.random() < 0.7
    reps = None
    if bounded:
        reps = rng.choice([1, 2, 2, 3, 5, 12, rng.randint(1, max_reps)])
    anchor = gen_anchor(rng, m)
    d = gen_interval(rng, nominal if fmt != 1 else 0)
    if rng.random() < 0.04:
        d = ("U", 0, 0, 0, 0, 0, 0)
    if d[0] == "U" and d[3] >= 36500 and reps is not None:
        reps = min(reps, rng.choice([2, 3, 5, 6]))
    if fmt == 1:
        secs = T.dur_seconds(d) if d[0] == "U" else d[1] * 7 * 86400
        tzh, tzm = gens.offset(rng) if rng.random() < 0.5 else (anchor[7], anchor[8])
        second = T.tp_from_inst(m, T.inst(m, anchor) + secs, rng.choice("cow"), tzh, tzm)
        return (reps, anchor, None, second), dict(fmt=1, anchor=anchor, interval=d, reps=reps)
    if fmt == 3:
        return (reps, anchor, d, None), dict(fmt=3, anchor=anchor, interval=d, reps=reps)
    return (reps, None, d, anchor), dict(fmt=4, anchor=anchor, interval=d, reps=reps)


def respell_rec(rng, m, rec, info):
    """The same recurrence with its anchor written differently (same instant, another offset and possibly
    another representation): (rec, info).  For a month/year interval this legitimately denotes another
    series (nominal arithmetic follows the local date) - the oracles work from the new anchor."""
    reps, start, dur, end = rec
    anchor = T.respell(rng, m, info["anchor"])
    info = dict(info, anchor=anchor)
    if info["fmt"] == 4:
        return (reps, None, dur, anchor), info
    return (reps, anchor, dur, end), info


def mode_siblings(m, rec, info, limit=2):
    """The same recurrence arguments under other calendar modes (where its points are valid dates and, for the
    start/second-point notation, still in order): [(mode, rec, info')].  The interval of a start/second-point
    recurrence is the distance of its two points IN THAT CALENDAR, so info' carries it recomputed."""
    out = []
    info = dict(info)
    for m2 in T.OTHER_MODES[m][:limit]:
        if not all(t is None or T.valid(m2, t) for t in (rec[1], rec[3])):
            continue
        info2 = dict(info)
        if rec[2] is None:
            if rec[1] is None or rec[3] is None:
                continue
            secs = T.inst(m2, rec[3]) - T.inst(m2, rec[1])
            if secs < 0:
                continue
            info2["interval"] = ("U", 0, 0, secs // 86400, 0, 0, secs % 86400)
        out.append((m2, rec, info2))
    return out


def gen_sticky_rec(rng, m):
    """An unbounded recurrence whose anchor sits on a date that a whole-year / whole-month step has
    to clamp (leap day, day 366, last day of a long month, last week of a long year): stepping
    keeps the clamped value for good, `anchor + n * interval` would not."""
    for _ in range(50):
        y = rng.choice([2000, 2004, 2020, 1996, 2024, 4, 0, -4, 1600, rng.randint(-50, 3000)])
        kind = rng.choice("codw")
        if kind == "c":
            mo = rng.choice([1, 3, 5, 7, 8, 10, 12, 2])
            date = ("c", y, mo, oracle.month_len(m, y, mo))
        elif kind == "o":
            date = ("o", y, oracle.year_len(m, y), 0)
        elif kind == "d":
            date = ("c", y, 2, oracle.month_len(m, y, 2))
        else:
            date = ("w", y, oracle.weeks_in_year(m, y), rng.randint(1, 7))
        if T.valid(m, date + (0, 0, 0, 0, 0)):
            break
    tzh, tzm = gens.offset(rng) if rng.random() < 0.3 else (0, 0)
    anchor = date + (rng.choice([0, 0, 12, 23]), rng.choice([0, 30]), 0, tzh, tzm)
    if rng.random() < 0.6:
        d = ("U", rng.choice([1, 1, 2, 3, 4]), 0, 0, 0, 0, 0)
    else:
        d = ("U", 0, rng.choice([1, 1, 2, 3, 6, 12, 13]), 0, 0, 0, 0)
    fmt = rng.choice([3, 4])
    if fmt == 3:
        return (None, anchor, d, None), dict(fmt=3, anchor=anchor, interval=d, reps=None)
    return (None, None, d, anchor), dict(fmt=4, anchor=anchor, interval=d, reps=None)


def step(m, t, d, sign=1):
    """t + sign*d by the calendar rules (independent of the implementation)."""
    if d[0] == "W":
        d = ("U", 0, 0, 7 * d[1], 0, 0, 0)
    dd = ("U",) + tuple(sign * x for x in d[1:])
    return c05.spec_add(m, t, dd)


def expected_series(m, info, k):
    """The series the property denotes, first k points in iteration order, as strict tuples;
    also whether iteration runs backwards."""
    fmt, anchor, d, reps = info["fmt"], info["anchor"], info["interval"], info["reps"]
    norm = T.tp_from_inst(m, T.inst(m, anchor), anchor[0], anchor[7], anchor[8])
    single = reps == 1 or is_zero(d)
    if single:
        return [anchor][:k], False     # the anchor itself (as given)
    if fmt in (1, 3):
        n = k if reps is None else min(k, reps)
        pts, cur = [], norm
        for i in range(n):
            pts.append(anchor if i == 0 else cur)
            cur = step(m, cur, d, 1)
        return pts, False
    if reps is None:
        pts, cur = [], norm
        for i in range(k):
            pts.append(anchor if i == 0 else cur)
            cur = step(m, cur, d, -1)
        return pts, True
    # bounded duration/end: the n points ending at the anchor, in increasing order
    if is_exact(d):
        secs = T.dur_seconds(d) if d[0] == "U" else d[1] * 7 * 86400
        pts = [T.tp_from_inst(m, T.inst(m, anchor) - (reps - 1 - i) * secs, anchor[0], anchor[7], anchor[8])
               for i in range(reps)]
        pts[-1] = anchor
        return pts[:k], False
    back, cur = [anchor], norm
    for i in range(reps - 1):
        cur = step(m, cur, d, -1)
        back.append(cur)
    return list(reversed(back))[:k], False


def same_point(m, a, b):
    """Same instant, representation and offset (24:00 anchor vs its normalised form allowed)."""
    return T.inst(m, a) == T.inst(m, b) and a[0] == b[0] and a[7:] == b[7:]
