#!/venv/bin/python
"""Write harness/required_theorems.json: for every property, the property theorems (names starting
with the property id) its modules currently contain.  check.py then reports a missing one as a
broken obligation, so a theorem cannot silently disappear.  Run after adding theorems."""
import os, sys, json, importlib
HERE = os.path.dirname(os.path.abspath(__file__))
sys.path.insert(0, HERE)
import common, check  # noqa
common.use_repo()
out = {}
for k in range(1, 21):
    prop = "C%02d" % k
    mod = importlib.import_module("props." + prop.lower())
    code, theorems, log = check.audit(mod.LEAN_MODULES)
    names = sorted(n for n in theorems if n.split(".")[-1].startswith(prop + "_"))
    out[prop] = names
    print(prop, len(names))
json.dump(out, open(os.path.join(HERE, "required_theorems.json"), "w"), indent=1)
