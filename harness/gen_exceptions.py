"""Generator for lean/IsoDT/Gen/Exceptions.lean: every `raise X(...)` site in the parsers, the
parser tables, the dumper and the constructor path of data.py, with the method resolution order
of X as the live interpreter sees it."""
import ast
import os
import importlib
import builtins

import common

CONSTRUCTOR_FUNCS = {
    "TimePoint.__init__", "TimePoint._check_bounds", "TimeZone.__init__", "Duration.__init__",
    "TimeRecurrence.__init__", "_type_checker", "_int_caster", "_bounds_checker",
}
WHOLE_MODULES = ["parsers", "parser_spec", "dumpers"]


def _sites(modname, only=None):
    import translate
    mod = importlib.import_module("metomi.isodatetime." + modname)
    path = os.path.join(common.REPO, "metomi", "isodatetime", modname + ".py")
    tree = ast.parse(open(path).read())
    out = []

    def visit(node, qual):
        for child in ast.iter_child_nodes(node):
            q = qual
            if isinstance(child, (ast.FunctionDef, ast.ClassDef)):
                q = (qual + "." if qual else "") + child.name
            if isinstance(child, ast.Raise):
                if only is not None and qual not in only:
                    visit(child, q)
                    continue
                exc = child.exc
                if exc is None:
                    out.append((modname, qual, child.lineno, "<re-raise>", None))
                else:
                    target = exc.func if isinstance(exc, ast.Call) else exc
                    if isinstance(target, ast.Name):
                        name = target.id
                        obj = getattr(mod, name, None) or getattr(builtins, name, None)
                    elif isinstance(target, ast.Attribute):
                        name = ast.unparse(target)
                        obj = None
                        try:
                            obj = eval(name, vars(mod))
                        except Exception:
                            pass
                    else:
                        raise translate.TranslateError(
                            "%s.py:%d raises an expression I cannot resolve: %s" % (modname, child.lineno,
                                                                                   ast.unparse(exc)))
                    if not (isinstance(obj, type) and issubclass(obj, BaseException)):
                        raise translate.TranslateError(
                            "%s.py:%d raises %s which is not an exception class" % (modname, child.lineno, name))
                    out.append((modname, qual, child.lineno, name, obj))
            visit(child, q)
    visit(tree, "")
    return out


def gen_exceptions():
    import translate
    common.use_repo()
    sites = []
    for modname in WHOLE_MODULES:
        sites += _sites(modname)
    sites += _sites("data", only=CONSTRUCTOR_FUNCS)
    found = {q for (mn, q, _, _, _) in sites if mn == "data"}
    lines = [translate.HEADER, "namespace IsoDT.Gen.Exceptions", "",
             "/-- One entry per `raise` site: (module, enclosing function, line, class raised, its MRO). -/",
             "def raised : List (String × String × Nat × String × List String) := ["]
    rows = []
    for modname, qual, lineno, name, obj in sites:
        if obj is None:
            continue      # bare re-raise inside an except clause: re-raises what was caught
        mro = [c.__name__ for c in obj.__mro__]
        rows.append("  (%s, %s, %d, %s, %s)" % (
            translate.lean_str(modname), translate.lean_str(qual), lineno, translate.lean_str(name),
            translate.lean_list([translate.lean_str(c) for c in mro])))
    lines.append(",\n".join(rows))
    lines.append("]")
    lines.append("")
    lines.append("/-- Functions of data.py on the constructor path that were scanned. -/")
    lines.append("def constructorFunctions : List String := " + translate.lean_list(
        [translate.lean_str(q) for q in sorted(CONSTRUCTOR_FUNCS)]))
    lines.append("")
    lines.append("end IsoDT.Gen.Exceptions")
    return "\n".join(lines) + "\n"


if __name__ == "__main__":
    import sys
    sys.path.insert(0, os.path.dirname(os.path.abspath(__file__)))
    text = gen_exceptions()
    common.write_if_changed(os.path.join(common.GEN_DIR, "Exceptions.lean"), text)
    print(text[:1500])
