"""`TimePointParser(assumed_time_zone, default_to_unknown_time_zone).strptime(text, fmt)` under a patched local zone
against the model of the parser's glue after the regex match (`strpZone`, lean/IsoDT/Model/StrptimeZone.lean;
theorems Props/C18c): which zone a text without zone information gets, that a Unix time (`%s`) is never given the
assumed zone, and what the sign of a `%z` beside `%s` does.  Cases are concentrated where a translated field is
zero (year 0, midnight, offset 0).  The oracle states the property's own clauses for the cases it determines:
`%s` alone = the instant epoch + n in the local zone (C18); fields with `%z` = exactly those fields in that zone,
fields without = the same in the assumed zone, else the local zone (C17 "strptime inverts strftime")."""
import gens
import oracle
import tpcommon as T
from engine import Op, set_mode

DAYS = {"d360": 360, "d365": 365, "d366": 366}
LOCALS = [(0, 0), (0, 0), (5, 30), (-3, -30), (0, -30), (0, 45), (12, 0), (-11, 0), (14, 0), (1, 0)]
ASSUMED = [None, None, (0, 0), (0, 0), (5, 30), (-3, -30), (0, -30), (1, 0)]
ZONES = ["-", "-", "-", "+00:00", "-00:00", "+05:30", "-03:30", "-00:30", "+00:30", "+14:00", "-12:00",
         "+99:59", "-99:59", "+99:60", "+00:99", "-00:60", "+01:00", "-00:01", "-00:59"]
_PARSERS = {}


def year0_range(mode):
    if mode == "greg":
        return (-62167219200, -62135596801)
    d = DAYS[mode]
    return (-1970 * d * 86400, -1969 * d * 86400 - 1)


def fmt_pair(p):
    return "-" if p is None else "%d:%d" % p


def build(kind, fields):
    if kind == "s":
        return str(fields[0]), "%s"
    if kind == "f":
        y, mo, d, hh, mi, ss, z = fields
        n = doy = "_"
    else:
        n, y, mo, d, doy, hh, mi, ss, z = fields
    parts = []
    if n != "_":
        parts.append((str(n), "%s"))
    for v, w, f in ((y, 4, "%Y"), (mo, 2, "%m"), (d, 2, "%d"), (doy, 3, "%j"), (hh, 2, "%H"), (mi, 2, "%M"),
                    (ss, 2, "%S")):
        if v != "_":
            parts.append(("%0*d" % (w, v), f))
    if z != "-":
        parts.append((z[0] + z[1:3] + z[4:6], "%z"))
    return "|".join(p[0] for p in parts), "|".join(p[1] for p in parts)


class StrpZone(Op):
    prop = "C18"
    name = "strpzone"

    def __init__(self, prop="C18"):
        self.prop = prop

    def gen(self, rng, tier, boost):
        n = (600 if tier == "quick" else 12000) * boost
        years = [0, 0, 1, 4, 100, 1900, 1970, 2000, 2001, 9999]
        for _ in range(n):
            m = gens.mode(rng)
            a = rng.choice(ASSUMED)
            u = rng.choice([0, 0, 1])
            loc = rng.choice(LOCALS)
            r = rng.random()
            if r < 0.4:
                lo, hi = year0_range(m)
                k = rng.random()
                if k < 0.3:
                    v = rng.choice([lo, lo + 1, lo - 1, hi, hi + 1, hi - 1, (lo + hi) // 2, lo + 86400])
                elif k < 0.5:
                    v = lo + 86400 * rng.randint(0, 359) + rng.choice([0, 0, 3600, 60, 1])
                elif k < 0.7:
                    v = rng.choice([0, 1, -1, 59, 60, -60, 3600, -3600, 86399, 86400, -86400, 19800, -19800, 12600,
                                    1800, -1800, 951782400, 946684800, 2 ** 31 - 1, -2 ** 31, 253402300799])
                elif k < 0.85:
                    v = 86400 * rng.randint(-400000, 400000)
                else:
                    v = rng.randint(-3 * 10 ** 10, 3 * 10 ** 10)
                yield (m, a, u, loc, "s", (v,))
            elif r < 0.75:
                y = rng.choice(years + [rng.randint(0, 9999)])
                mo = rng.choice([1, 1, 2, 12, 12, 0, 13, rng.randint(1, 12)])
                d = rng.choice([1, 1, 0, 28, 29, 30, 31, 32, rng.randint(1, 28)])
                hh = rng.choice([0, 0, 0, 23, 24, 25, 12, rng.randint(0, 23)])
                mi = rng.choice([0, 0, 0, 59, 60, rng.randint(0, 59)])
                ss = rng.choice([0, 0, 0, 59, 60, rng.randint(0, 59)])
                yield (m, a, u, loc, "f", (y, mo, d, hh, mi, ss, rng.choice(ZONES)))
            else:
                def opt(v, p=0.5):
                    return v if rng.random() < p else "_"
                lo, hi = year0_range(m)
                nn = opt(rng.choice([lo, hi, 0, 1, -1, 86400, -86400, 946684800, rng.randint(lo, hi)]), 0.35)
                y = opt(rng.choice(years))
                mo = opt(rng.choice([0, 1, 2, 12, 13]), 0.4)
                d = opt(rng.choice([0, 1, 28, 30, 31]), 0.4)
                doy = opt(rng.choice([0, 1, 59, 60, 360, 365, 366, 367]), 0.25)
                hh = opt(rng.choice([0, 23, 24]), 0.4)
                mi = opt(rng.choice([0, 59]), 0.4)
                ss = opt(rng.choice([0, 59]), 0.4)
                z = rng.choice(ZONES)
                if all(v == "_" for v in (nn, y, mo, d, doy, hh, mi, ss)) and z == "-":
                    y = 0
                yield (m, a, u, loc, "g", (nn, y, mo, d, doy, hh, mi, ss, z))

    def line(self, a):
        m, asm, u, loc, kind, fields = a
        return "strpzone %s %s %d %s %s %s" % (m, fmt_pair(asm), u, fmt_pair(loc), kind,
                                               " ".join(str(f) for f in fields))

    def impl(self, a):
        from metomi.isodatetime import timezone as tzmod
        from metomi.isodatetime.parsers import TimePointParser
        m, asm, u, loc, kind, fields = a
        set_mode(m)
        text, fmt = build(kind, fields)
        key = (asm, u)
        saved = tzmod.get_local_time_zone
        tzmod.get_local_time_zone = lambda: loc
        try:
            if key not in _PARSERS:
                _PARSERS[key] = TimePointParser(assumed_time_zone=asm, default_to_unknown_time_zone=bool(u))
            try:
                p = _PARSERS[key].strptime(text, fmt)
            except ValueError:
                return "err"
            pr = dict(p.get_props())
            if pr["truncated"]:
                return "truncated"
            if pr["month_of_year"] is not None:
                date = "c %d %d %d" % (pr["year"], pr["month_of_year"], pr["day_of_month"])
            elif pr["day_of_year"] is not None:
                date = "o %d %d 0" % (pr["year"], pr["day_of_year"])
            else:
                date = "w %d %d %d" % (pr["year"], pr["week_of_year"], pr["day_of_week"])
            hms = [pr[k] for k in ("hour_of_day", "minute_of_hour", "second_of_minute")]
            if any(v != int(v) for v in hms):
                return "FRACTION " + repr(hms)
            tz = pr["time_zone"]
            zone = "unknown" if tz.unknown else "%d %d" % (tz.hours, tz.minutes)
            return "%s %d %d %d %s" % (date, hms[0], hms[1], hms[2], zone)
        finally:
            tzmod.get_local_time_zone = saved

    def oracle(self, a, out):
        m, asm, u, loc, kind, fields = a
        if out.startswith(("EXC", "Timeout", "FRACTION", "truncated")):
            return "%s: %s" % (self.line(a), out)
        if kind == "s":
            if out == "err" or out.endswith("unknown"):
                return "%s: a Unix time gave %s" % (self.line(a), out)
            r = T.parse_tp(out)
            epoch = T.inst(m, ("c", 1970, 1, 1, 0, 0, 0, 0, 0))
            if T.inst(m, r) != epoch + fields[0]:
                return "%s gave %s, off by %d s (a Unix time is an instant: no assumed zone applies)" % (
                    self.line(a), out, T.inst(m, r) - epoch - fields[0])
            if (r[7], r[8]) != tuple(loc) or not T.valid(m, r, strict=True):
                return "%s gave %s, not in the local zone" % (self.line(a), out)
            return None
        if kind == "f":
            y, mo, d, hh, mi, ss, z = fields
            if z == "-":
                zone = asm if asm is not None else ((0, 0) if u else loc)
            else:
                sg = -1 if z[0] == "-" else 1
                zone = (sg * int(z[1:3]), sg * int(z[4:6]))
            want = ("c", y, mo, d, hh, mi, ss, zone[0], zone[1])
            ok = oracle.valid_cal(m, y, mo, d) and 0 <= hh <= 24 and 0 <= mi < 60 and 0 <= ss < 60 and \
                not (hh == 24 and (mi or ss)) and oracle.tz_valid(*zone) and int(z[4:6] if z != "-" else 0) < 60
            if ok and out != T.tp_str(want):
                return "%s gave %s; the text and the defaults determine %s" % (self.line(a), out, T.describe_tp(want))
            if not ok and out != "err":
                return "%s: not a possible date-time, yet accepted as %s" % (self.line(a), out)
        return None

    def label(self, a):
        return "strpzone/%s/%s/%s" % (a[0], a[4], "assumed" if a[1] else ("unknown" if a[2] else "local"))
