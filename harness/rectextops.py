"""Op for the recurrence text layer (lean/IsoDT/Model/RecText.lean, driver lean/IsoDT/Driver/RecText.lean; theorems
Props/C14b): `TimeRecurrence.__str__` and `TimeRecurrenceParser().parse`.  Ported from the stand-alone script
difftest_rectext.py.  One op class, `RecTextOp` (C14, "rectext"); the first element of a case names the driver op:

    ("rstr", mode, nedS, nedE, rec)             str(TimeRecurrence(...)) as an x-string | ctor-err | EXC:OverflowError | err
    ("rround", mode, (lh, lm), nedS, nedE, rec) <x text> | <rparse answer for the text> | eq=<0|1|_>
    ("rparse", mode, (lh, lm), text)            ok <rec> ; <second> ; <nedS> <nedE> | <str of the result>  |  fail
    ("rgroups", text)                           nomatch | match reps=<x|_> start=<x|_> end=<x|_> intv=<x|_>

rec = (reps|None, start|None, dur|None, end|None) with the point / duration tuples of tpcommon.py; nedS / nedE are the
`num_expanded_year_digits` the start / end point is built with; (lh, lm) is the process-local UTC offset the default
parser falls back on - `impl` patches `metomi.isodatetime.timezone.get_local_time_zone` and the driver is given the
same zone (`l:<lh>:<lm>`); the parser is the default `TimeRecurrenceParser()` (driver cfg `2 0 0`).  Strings travel as
`x` + hex code points separated by `.`.

The texts of the `rparse` / `rgroups` cases are printed recurrences (printed by the MODEL, through the driver, so that
the stream does not depend on the code under test), mutations of them, hand-written spellings, texts assembled from
pieces of the grammar, and garbage.

Where the two sides cannot be made to say the same thing: the expanded-digit number of a point a notation does not
print (the end point of notation 3, the start point of notation 4) is not observable in the Python: `_` on both sides
(`canon_model` rewrites the model's number).  A model answer `outside` (non-ASCII digits in the repetitions, interval
texts the duration model leaves outside, ...) is no claim: counted in the label, never compared.

Left out of `rparse` / `rround`: recurrences whose two points lie more than MAX_SPAN_YEARS apart and texts with a
number of ten digits or more (the constructor's cost is linear in the days spanned: the script met them as time-outs
and skipped them); `rgroups` still sees those texts.
The script's family "one repetition and an end point only" (prints `R1/None/None`) is kept: model and code agree.
"""
import re

import gens
import engine
import tpcommon as T
import reccommon as R
from engine import Op, set_mode
from strf2ops import ModelSkips, tup

K = 5                      # points compared by the oracle
CFG = "2 0 0"              # TimePointParser(): two expanded year digits, basic and extended, no truncated forms
ZONES = [(0, 0), (0, 0), (5, 30), (-3, 0), (1, 0), (-9, -30), (13, 45), (0, -30)]
NEDS = [(0, 0), (0, 0), (2, 2), (0, 2), (2, 0)]
MAX_SPAN_YEARS = 2500


def enhex(s):
    return "x" + ".".join("%x" % ord(c) for c in s)


def unhex(x):
    return "".join(chr(int(h, 16)) for h in x[1:].split(".")) if len(x) > 1 else ""


# ---------------------------------------------------------------------------------------------------------
# the implementation side

def mk_tp(t, ned):
    from metomi.isodatetime.data import TimePoint
    rep, y, a, b, hh, mi, ss, tzh, tzm = t
    kw = dict(year=y, hour_of_day=hh, minute_of_hour=mi, second_of_minute=ss,
              time_zone_hour=tzh, time_zone_minute=tzm, num_expanded_year_digits=ned)
    if rep == "c":
        kw.update(month_of_year=a, day_of_month=b)
    elif rep == "o":
        kw.update(day_of_year=a)
    else:
        kw.update(week_of_year=a, day_of_week=b)
    return TimePoint(**kw)


def mk_rec(r, neds, nede):
    """TimeRecurrence(...) | None where the constructor refuses."""
    from metomi.isodatetime.data import TimeRecurrence
    reps, start, dur, end = r
    kw = {}
    if reps is not None:
        kw["repetitions"] = reps
    if start is not None:
        kw["start_point"] = mk_tp(start, neds)
    if dur is not None:
        kw["duration"] = T.mk_dur(dur)
    if end is not None:
        kw["end_point"] = mk_tp(end, nede)
    try:
        return TimeRecurrence(**kw)
    except ValueError:
        return None
    except OverflowError:
        # quirk of the constructor: formatting the BadInputError message calls str(point), which raises
        # OverflowError for a negative year without expanded digits
        return None


def str_rec(r):
    try:
        return enhex(str(r))
    except OverflowError:          # a year outside 0000-9999 on a point without expanded digits
        return "EXC:OverflowError"
    except ValueError:
        return "err"


_PARSER = []


def parser():
    if not _PARSER:
        from metomi.isodatetime.parsers import TimeRecurrenceParser
        _PARSER.append(TimeRecurrenceParser())
    return _PARSER[0]


def canon_opt_tp(p):
    return "_" if p is None else T.canon_tp(p)


def parse_text(text):
    """(canonical answer, TimeRecurrence | None)."""
    try:
        r = parser().parse(text)
    except OverflowError:
        return "EXC:OverflowError", None
    except ValueError:
        return "fail", None
    second = r._second_point if r.format_number == 1 else None
    neds = r.start_point.num_expanded_year_digits if r.start_point is not None else 0
    pe = second if r.format_number == 1 else r.end_point      # the point notation 1 / 4 prints second
    nede = pe.num_expanded_year_digits if pe is not None else 0
    if r.format_number == 3:
        nede = "_"
    if r.format_number == 4:
        neds = "_"
    return "ok %s ; %s ; %s %s | %s" % (R.canon_rec(r), canon_opt_tp(second), neds, nede, str_rec(r)), r


class LocalZone:
    def __init__(self, zone):
        self.zone = (zone[0], zone[1])

    def __enter__(self):
        from metomi.isodatetime import timezone as tzmod
        self.saved = tzmod.get_local_time_zone
        zone = self.zone
        tzmod.get_local_time_zone = lambda: zone

    def __exit__(self, *exc):
        from metomi.isodatetime import timezone as tzmod
        tzmod.get_local_time_zone = self.saved


def groups_of(text):
    from metomi.isodatetime.parsers import TimeRecurrenceParser
    for rx in TimeRecurrenceParser.RECURRENCE_REGEXES:
        mt = rx.search(text)
        if not mt:
            continue
        g = mt.groupdict()

        def ox(k):
            v = g.get(k)
            return "_" if v is None else enhex(v)
        return "match reps=%s start=%s end=%s intv=%s" % (ox("reps"), ox("start"), ox("end"), ox("intv"))
    return "nomatch"


def first_k(rec, k):
    out = []
    for p in rec:
        out.append(T.canon_tp(p))
        if len(out) >= k:
            break
    return out


# ---------------------------------------------------------------------------------------------------------
# generators (every choice from the rng handed in)

def gen_rec_case(rng):
    m = gens.mode(rng)
    rec, info = R.gen_rec(rng, m, max_reps=30)
    reps, start, dur, end = rec
    r = rng.random()
    if r < 0.05:
        reps = rng.choice([0, -1, 1])
    if r > 0.95 and dur is not None:
        dur = T.dur_neg(dur)
    if 0.90 < r < 0.95 and dur is not None and dur[0] == "U":
        # any mix of units, also large ones
        dur = ("U",) + tuple(rng.choice([0, 0, 1, 7, 12, 100, 12345]) for _ in range(6))
        if reps is not None:
            reps = min(reps, 3)
    if 0.05 < r < 0.08:
        # start == end in notation 1, possibly spelled differently
        if dur is None and start is not None:
            end = T.respell(rng, m, start) if rng.random() < 0.7 else start
    if 0.08 < r < 0.10 and dur is None:
        start, end = end, start
    if 0.10 < r < 0.12 and dur is None:
        start = None
        reps = 1
    return m, (reps, start, dur, end)


def gen_neds(rng, rec):
    neds, nede = rng.choice(NEDS)
    if rec[2] is None and rec[0] == 1:
        nede = neds     # `_second_point` is the start point object itself
    return neds, nede


ALPHA = "RP/0123456789-+:TZW.,YMDHS \n"
ALPHA2 = "RP//00123456789--++:TZWYMDHS"

HAND = [
    "R/2000/P1D", "R3/2000-01-01/P1D", "R3/2000-01-01T00/PT1H", "R3/20000101T00Z/PT1H", "R3/20000101T0000Z/P1W",
    "R/2000-W01-1T00Z/P1M", "R/2000-001T00Z/P1Y", "R2/2000-01-01T00+01/2000-01-01T01:00:00+01:00",
    "R/2000-01-01T00Z/2000-01-01T00Z", "R5/2000-01-01T00Z/2000-01-01T00Z", "R1/2000-01-01T00Z/1999-01-01T00Z",
    "R/2000-01-01T00Z/1999-01-01T00Z", "R0/2000/P1D", "R00/2000/P1D", "R01/2000/P1D", "R007/2000/P1D", "R-1/2000/P1D",
    "R+1/2000/P1D", "R 1/2000/P1D", "R1 /2000/P1D", "R/P1D/2000", "R3/P1D/2000-01-01T00Z", "R3/PT1H/20000101T00Z",
    "R/P1D/2000/", "R/P1D//2000", "R/P1D/2000/P", "R/P1D/P/2000", "R/P1D/P1D", "R/2000/2001/P1D", "R/2000/P1D/2001",
    "R/2000//P1D", "R//2000/P1D", "R/2000/P1D/", "R/2000/P", "R/2000/", "R/2000", "R/", "R", "", "R/P/2000",
    "R/P1/2000", "r/2000/P1D", " R/2000/P1D", "R/2000/P1D ", "R/2000/P1D\n", "R/2000/P1D\n\n", "R/2000\n/P1D",
    "R/2000/\nP1D", "R/\n2000/P1D", "R/P1D/2000\n", "R/P1D\n/2000", "R/P1D/\n", "R/2000/2001\n", "R/2000/\n",
    "R/2000/\n\n", "R/2000/-P1D", "R/-P1D/2000", "R/2000/P-1D", "R/2000/P0D", "R/2000/P0Y", "R/2000/PT0S",
    "R5/2000/P0W", "R/P0Y/2000", "R/2000/P1Y2M3DT4H5M6S", "R/2000/P1Y2M3DT4H5M6", "R/2000/PT", "R/2000/P1,5D",
    "R/2000/PT1.5H", "R/2000/PT1,5H", "R/2000-01-01T00:00:00,5Z/P1D", "R/2000-01-01T00,5Z/P1D",
    "R/2000-01-01T00:00:00.50Z/PT1S", "R/+002000-01-01T00Z/P1D", "R/-002000-01-01T00Z/P1D", "R/+0020000101T00Z/P1D",
    "R2/+012345-01-01T00Z/P1Y", "R/2000-01-01T24:00:00Z/P1D", "R/2000-01-01T24:00:01Z/P1D", "R/2000-02-30/P1D",
    "R/2000-13-01/P1D", "R/2000-W54/P1D", "R/2000-366/P1D", "R/2001-366/P1D", "R/2000-01-01T00:00:00+99:59/P1D",
    "R/2000-01-01T00:00:00-00:30/P1D", "R/2000-01-01T00:00:00+100/P1D", "R/20/P1D", "R/2000-01/P1M", "R/2000-W01/P1W",
    "R/-0001/P1D", "R/T00Z/P1D", "R/-01-01/P1D", "R5/T00Z/P1D", "R/00-01-01T00Z/P1D", "R/2000-01-01T00:00Z/PT1M",
    "R/2000-01-01T0000Z/PT1M", "R/2000-01-01 00Z/P1D", "R/2000T00Z/P1D",
    "R/2000-01-01T00:00:00Z/P0001-00-00T00:00:00", "R/2000-01-01T00:00:00Z/P00010000T000000",
    "R/P0001-01-01T00:00:00/2000", "R2/2000-01-01T00:00:00Z/P0000-001T00:00:00", "R/2000/P1W1D", "R/2000/P1D1W",
    "R/2000/P1W", "R2/2000/P52W", "R3/P1W/2000-W10-1T00Z", "R2/2000-01-31T00Z/P1M", "R3/P1M/2000-03-31T00Z",
    "R2/2000-02-29T00Z/P1Y", "R4/P1Y/2000-02-29T00Z", "R/2000-01-01T00Z/2000-01-01T01+01",
    "R3/2000-01-01T00Z/2000-01-02T00Z", "R3/2000-W01-1T00Z/2000-01-04T00+00:30", "R1/2000/2001", "R1/2000/garbage",
    "R1/garbage/2000", "R1/2000/P1D", "R1/P1D/2000", "R1/2000/Pgarbage", "R/2000/P1D/2001/P1D", "RR/2000/P1D",
    "R/R/2000/P1D", "R1/2000/P1Y1", "R/2000/P1YT", "R/2000/P1YT1", "R12345678901234567890/2000/P0Y",
    "R2/2000/PT9007199254740993S", "R/2000/PT1H2H", "R/2000/P1Y2M3D4H", "R٣/2000/P1D", "R1٣/2000/P1D",
    "R/2000\xe9/P1D", "R/2000/P1D\xe9", "R\xe9/2000/P1D", "R/٢000/P1D", "R/P١D/2000",
    "R/2000-01-01T00:00:00Z/P1D/", "R/PT1H/2000-01-01T00Z/", "R/P1D/+002000-01-01T00:00:00Z",
    "R3/P1D/-002000-01-01T00:00:00Z", "R/P/", "R/P//", "R/Px//", "R/Px//P", "R/Px/P", "R//x", "R//x/y", "R///",
    "R////", "R/a/b/c", "R/a\nb/c", "R/P1D/20\n00", "R/2000-01-01T00Z/PT1H/", "R/2000/P1D/P", "R/2000/PP",
    "R/2000/P/",
]


def mutate(rng, s):
    s = list(s)
    k = rng.choice([1, 1, 1, 2, 3])
    for _ in range(k):
        op = rng.random()
        pos = rng.randrange(len(s) + 1)
        ch = rng.choice(ALPHA) if rng.random() < 0.9 else rng.choice("٣\xe9x")
        if op < 0.35 and s:
            del s[min(pos, len(s) - 1)]
        elif op < 0.7:
            s.insert(pos, ch)
        elif s:
            s[min(pos, len(s) - 1)] = ch
    return "".join(s)


def garbage(rng):
    n = rng.choice([0, 1, 2, 3, 5, 8, 12, 20])
    return "".join(rng.choice(ALPHA2) for _ in range(n))


def assemble(rng):
    """A recurrence text put together from pieces of the grammar (valid more often than not)."""
    def date():
        y = rng.choice(["2000", "1999", "0000", "9999", "0004", "+002000", "-000001", "+123456", "20"])
        k = rng.random()
        if k < 0.3:
            return y + rng.choice(["-01-01", "-02-29", "-12-31", "0101", "1231", "-06-31", "-01"])
        if k < 0.5:
            return y + rng.choice(["-001", "-366", "-365", "001", "366", "-000"])
        if k < 0.7:
            return y + rng.choice(["-W01-1", "-W53-7", "-W52-7", "W011", "W537", "-W01", "W01"])
        return y

    def time():
        k = rng.random()
        if k < 0.25:
            return ""
        t = "T" + rng.choice(["00", "23", "24", "12:30", "1230", "23:59:59", "235959", "24:00:00", "00:00:60", "12,5",
                              "12:30,5", "12:30:30,25", "12:30:30.250000", "00:00"])
        return t + rng.choice(["Z", "Z", "", "+01", "-01", "+01:30", "-00:30", "+0130", "-0030", "+14:00", "+99:59",
                               "+100"])

    def point():
        return date() + time()

    def dur():
        k = rng.random()
        if k < 0.1:
            return "P%dW" % rng.choice([0, 1, 2, 52])
        if k < 0.15:
            return rng.choice(["P0Y", "PT0S", "P0D", "P", "PT", "-P1D", "P-1D", "P1.5D", "PT1,5H", "PT0.5S",
                               "P0001-00-01T00:00:00", "P00010101T000000"])
        s = "P"
        for u in "YMD":
            if rng.random() < 0.3:
                s += "%d%s" % (rng.choice([0, 1, 2, 12, 13, 30, 365, 1000]), u)
        if rng.random() < 0.4:
            s += "T"
            for u in "HMS":
                if rng.random() < 0.4:
                    s += "%d%s" % (rng.choice([0, 1, 24, 59, 60, 3600, 86400]), u)
        return s

    reps = rng.choice(["", "", "1", "2", "3", "5", "01", "0", "10", "12"])
    k = rng.random()
    if k < 0.35:
        body = point() + "/" + dur()
    elif k < 0.6:
        body = dur() + "/" + point()
    elif k < 0.9:
        body = point() + "/" + point()
    else:
        body = rng.choice([point, dur])() + "/" + rng.choice([point, dur])() + "/" + rng.choice([point, dur])()
    return "R" + reps + "/" + body


_TWO_POINTS = re.compile(r"^R[0-9]*/([^/P][^/]*)/([^P].*)$", re.S)
# (ten digits anywhere; or seven and more in a count that multiplies calendar steps: repetitions, years, months,
#  weeks, days of an interval - R3/P102345100M/... walks millions of years day by day: known finding F10)
_LONG_NUMBER = re.compile(r"[0-9]{10,}|(?:^R|P|[YMWD])[0-9]{7,}(?=[YMWD/])")


def _year_of(text):
    """The year a point text starts with, roughly (only to bound the cost): +-XCCYY, CCYY or CC."""
    m = re.match(r"[+-][0-9]{6}", text)
    if m:
        return int(m.group())
    m = re.match(r"[0-9]{4}", text)
    if m:
        return int(m.group())
    m = re.match(r"[0-9]{2}", text)
    return int(m.group()) * 100 if m else None


def costly_text(text):
    """A text the constructor would take seconds over (cost linear in the days spanned)."""
    if _LONG_NUMBER.search(text):      # repetitions / interval components / years of ten digits and more
        return True
    m = _TWO_POINTS.match(text)
    if m:
        ys = [_year_of(g) for g in m.groups()]
        if None not in ys and abs(ys[0] - ys[1]) > MAX_SPAN_YEARS:
            return True
    return False


def costly_rec(rec):
    reps, start, dur, end = rec
    return dur is None and start is not None and end is not None and abs(start[1] - end[1]) > MAX_SPAN_YEARS


# ---------------------------------------------------------------------------------------------------------

class RecTextOp(ModelSkips, Op):
    prop = "C14"
    name = "rectext"

    def declines(self, a, model_out):
        if a[0] in ("rparse", "rgroups"):
            return model_out == "outside"
        return a[0] == "rround" and " | outside | " in model_out

    def model_kind(self, a, out):
        op = a[0]
        if op == "rgroups":
            return out.split(" ")[0]
        if op == "rstr":
            return "text" if out.startswith("x") else out
        if op == "rparse":
            return "ok/fmt%s" % out.split(" | ")[0].split(" ; ")[4] if out.startswith("ok ") else out
        f = out.split(" | ")
        if len(f) == 1:
            return out
        return "round/" + (f[-1] if f[1].startswith("ok ") else f[1])

    def gen(self, rng, tier, boost):
        def distinct(cases):
            seen = set()
            for a in cases:
                if a not in seen:
                    seen.add(a)
                    yield a
        return self.peeked(distinct(self._gen(rng, tier, boost)))

    def _gen(self, rng, tier, boost):
        n = (1000 if tier == "quick" else 10000) * boost
        shard = getattr(self, "shard", None)
        if shard:
            n = n // shard[1] + 1
        for _ in range(n):
            m, rec = gen_rec_case(rng)
            neds, nede = gen_neds(rng, rec)
            if not costly_rec(rec):
                yield ("rstr", m, neds, nede, rec)
        for _ in range(2 * n):
            m, rec = gen_rec_case(rng)
            neds, nede = gen_neds(rng, rec)
            if not costly_rec(rec):
                yield ("rround", m, rng.choice(ZONES), neds, nede, rec)
        # texts: printed (by the model) and mutated, hand-written, assembled, garbage
        recs = []
        for _ in range(n):
            m, rec = gen_rec_case(rng)
            neds, nede = gen_neds(rng, rec)
            recs.append((m, neds, nede, rec))
        printed = engine.run_driver(["rstr %s %d %d %s" % (m, neds, nede, R.rec_line(rec))
                                     for m, neds, nede, rec in recs]) if recs else []
        texts = []
        for (m, _, _, _), out in zip(recs, printed):
            if out.startswith("x"):
                t = unhex(out)
                texts.append((m, t))
                for _ in range(2):
                    texts.append((m, mutate(rng, t)))
        for h in gens.shard_filter(HAND, shard):
            for m in ["greg", "d360"]:
                texts.append((m, h))
            for _ in range(3):
                texts.append((gens.mode(rng), mutate(rng, h)))
        for _ in range(n):
            texts.append((gens.mode(rng), assemble(rng)))
        for _ in range(n // 2):
            texts.append((gens.mode(rng), garbage(rng)))
        for m, t in texts:
            yield ("rgroups", t)
            if not costly_text(t):
                yield ("rparse", m, rng.choice(ZONES), t)

    def from_corpus(self, a):
        return tup(a)

    def line(self, a):
        op = a[0]
        if op == "rgroups":
            return "rgroups " + enhex(a[1])
        if op == "rstr":
            return "rstr %s %d %d %s" % (a[1], a[2], a[3], R.rec_line(a[4]))
        zone = "l:%d:%d" % (a[2][0], a[2][1])
        if op == "rparse":
            return "rparse %s %s %s %s" % (a[1], CFG, zone, enhex(a[3]))
        return "rround %s %s %s %d %d %s" % (a[1], CFG, zone, a[3], a[4], R.rec_line(a[5]))

    def impl(self, a):
        op = a[0]
        self._last = None
        if op == "rgroups":
            return groups_of(a[1])
        set_mode(a[1])
        if op == "rstr":
            r = mk_rec(a[4], a[2], a[3])
            return "ctor-err" if r is None else str_rec(r)
        with LocalZone(a[2]):           # restores timezone.get_local_time_zone on the way out
            if op == "rparse":
                return parse_text(a[3])[0]
            r = mk_rec(a[5], a[3], a[4])
            if r is None:
                return "ctor-err"
            text = str_rec(r)
            if not text.startswith("x"):
                return text
            parsed, r2 = parse_text(unhex(text))
            eq = "_"
            if r2 is not None:
                flags = (r2 == r, r == r2, not (r2 != r), not (r != r2))
                eq = "1" if all(flags) else ("0" if not any(flags) else "INCONSISTENT%r" % (flags,))
                if self.in_property(a):
                    self._last = (a, first_k(r, K), first_k(r2, K))
            return "%s | %s | eq=%s" % (text, parsed, eq)

    # -- C14's last clause, no model ------------------------------------------------------------------------
    @staticmethod
    def in_property(a):
        """Whole-second valid points whose years the digits can spell, a non-negative integer interval, something
        other than an end point to print."""
        m, neds, nede, (_, start, dur, end) = a[1], a[3], a[4], a[5]
        if start is None and dur is None:
            return False
        for t, ned in ((start, neds), (end, nede)):
            if t is None:
                continue
            if not T.valid(m, t):
                return False
            if not (0 <= t[1] <= 9999 if ned == 0 else abs(t[1]) < 10 ** (4 + ned)):
                return False
        if dur is not None and any(v < 0 for v in dur[1:]):
            return False
        return True

    def oracle(self, a, out):
        self.note(a, out)
        if a[0] != "rround" or out in ("ctor-err",) or out.startswith(("EXC", "Timeout")) or not self.in_property(a):
            return None
        what = "TimeRecurrence %s (expanded digits %d, %d) in %s" % (R.rec_line(a[5]), a[3], a[4], a[1])
        f = out.split(" | ")
        if not f[0].startswith("x"):
            return "%s does not print: %s" % (what, out)
        text = unhex(f[0])
        if len(f) != 4 or not f[1].startswith("ok "):
            return "%s prints as %r, which does not parse back: %s" % (what, text, " | ".join(f[1:]))
        if f[3] != "eq=1":
            return "%s prints as %r; what that parses to is not == to it (%s): %s" % (what, text, f[3], f[1])
        last = getattr(self, "_last", None)
        if last is None or last[0] != a:      # replayed out of order: run it again
            self.impl(a)
            last = self._last
        if last is not None and last[1] != last[2]:
            return "%s prints as %r; what that parses to has other points: %s, not %s" % (
                what, text, last[2][:3], last[1][:3])
        return None

    def canon_model(self, a, out):
        if self.declines(a, out):
            self._state().skipped[a[0] + "/outside"] += 1
            return self.answer_of_impl(a)
        if a[0] in ("rparse", "rround") and " | " in out:
            # ok <reps> ; <start> ; <dur> ; <end> ; <fmt> ; <second> ; <nedS> <nedE> | <str>
            f = out.split(" | ")
            k = 0 if a[0] == "rparse" else 1
            if f[k].startswith("ok "):
                g = f[k].split(" ; ")
                if len(g) == 7:
                    neds, _, nede = g[6].partition(" ")
                    if g[4] == "3":
                        nede = "_"
                    if g[4] == "4":
                        neds = "_"
                    g[6] = "%s %s" % (neds, nede)
                    f[k] = " ; ".join(g)
                    return " | ".join(f)
        return out

    def label(self, a):
        kind, declined = self.peek(a)
        if declined:
            return "rectext/%s/outside(skipped)" % a[0]
        return "rectext/%s/%s" % (a[0], kind)
