"""Op for the text forms of durations with decimal hours / minutes / seconds (lean/IsoDT/Model/DurTextQ.lean, driver
lean/IsoDT/Driver/DurTextQ.lean), including the model of CPython's float() and repr(float) the duration model is run
with.  Ported from the stand-alone script validate_durtextq.py.  One op class, `DurTextQOp` (C10, "durtextq"); the
first element of a case says which driver op it is for:

    ("pyfloat", text)          float(text): the exact rational | inf | err          (grammar, rounding, overflow)
    ("reprpy", "n/d")          repr(float): dyadic rationals with at most 15 significant digits
    ("dqstr", dur)             str(Duration) | value                                 (ValueError of str(int))
    ("dqrt", mode, dur)        text | parse(text) | fix=b | eq=b    (or `value`)
    ("dqparse", mode, text)    U y mo d h mi s | W w | inf | syntax | value          (model: also `outside`)
    ("dqcp", mode, text)       parse(text) | parse(text with every `,` written `.`)

dur = ("W", w) | ("U", y, mo, d, "h", "mi", "s"): integers, the time slots as rational texts "n/d" (dyadic, so that
float() of them is exact).  An integer too long for the interpreter's int/str digit limit (the limit is what the
case is about) is written as the text "10^k" / "-10^k".  Strings travel as `x` + hex code points separated by `.`.

A model answer `outside` (dqparse; inside a dqcp answer) is no claim: counted in the label, never compared.
"""
import sys
from fractions import Fraction

from engine import Op, set_mode
from strf2ops import ModelSkips, tup

LIM = 4300        # the int/str digit limit of a default CPython >= 3.11; impl runs under it, the driver is told it
TOO_LONG = 10 ** LIM
MODES = ["greg", "greg", "greg", "d360", "d365", "d366"]


def enhex(s):
    return "x" + ".".join("%x" % ord(c) for c in s)


def show_rat(q):
    q = Fraction(q)
    return str(q.numerator) if q.denominator == 1 else "%d/%d" % (q.numerator, q.denominator)


def dec_int(v):
    if isinstance(v, str):
        sign, _, k = v.rpartition("10^")
        return (-1 if sign == "-" else 1) * 10 ** int(k)
    return v


def int_text(v):
    """Decimal text of an integer slot without going through str() of a huge int."""
    if isinstance(v, str):
        sign, _, k = v.rpartition("10^")
        return sign + "1" + "0" * int(k)
    return "%d" % v


def dur_tokens(t):
    if t[0] == "W":
        return "W " + int_text(t[1])
    return "U %s %s %s %s %s %s" % (tuple(int_text(v) for v in t[1:4]) + tuple(t[4:7]))


def dec_dur(t):
    if t[0] == "W":
        return ("W", dec_int(t[1]))
    return ("U",) + tuple(dec_int(v) for v in t[1:4]) + tuple(Fraction(v) for v in t[4:7])


def enc_dur(t):
    if t[0] == "W":
        return t
    return t[:4] + tuple(show_rat(v) for v in t[4:7])


# ---------------------------------------------------------------------------------------------------------
# the implementation side

_PARSER = []


def parser():
    if not _PARSER:
        from metomi.isodatetime.parsers import DurationParser
        _PARSER.append(DurationParser())
    return _PARSER[0]


def show_dur(d):
    if d.get_is_in_weeks():
        return "W %d" % d._weeks
    vals = [d._years, d._months, d._days, d._hours, d._minutes, d._seconds]
    for v in vals[3:]:
        if isinstance(v, float) and (v != v or v in (float("inf"), float("-inf"))):
            return "inf"
    return "U " + " ".join(show_rat(v) for v in vals)


def py_parse(text):
    from metomi.isodatetime.exceptions import ISO8601SyntaxError
    try:
        return show_dur(parser().parse(text))
    except ISO8601SyntaxError:
        return "syntax"
    except ValueError:
        return "value"


def mk_duration(t):
    from metomi.isodatetime.data import Duration
    if t[0] == "W":
        return Duration(weeks=t[1])
    y, mo, d, h, mi, s = t[1:]
    return Duration(years=y, months=mo, days=d, hours=float(h), minutes=float(mi), seconds=float(s))


# ---------------------------------------------------------------------------------------------------------
# generators (every choice from the rng handed in)

FLOAT_TEXTS = [
    "1", "0", "007", "1.", "1.5", "1.5.", "1..", ".5", ".", "", "1e5", "1E5", "1e", "1e+", "1e-", "1e+5",
    "1e-5", "1e5.0", "1.e5", "1_0", "1__0", "1_", "_1", "1_.5", "1._5", "1_0.5", "1e5_0", "1e_5", "0_0",
    "1 ", "1\t\r", " 1", "1 x", "1\x0c", "1\x0b", "1\x1f", "1\x00", "1-", "1+1", "1e1e1", "0x10", "1H2",
    "+1", "-1", "-1.5", "+-1", "1e400", "1e-400", "1e308", "1.7976931348623157e308",
    "1.7976931348623158e308", "1.7976931348623159e308", "1.797693134862315807e308",
    "1.797693134862315808e308", "4.9e-324", "2.4e-324", "2.5e-324", "2.4703282292062327e-324",
    "2.4703282292062328e-324", "2.2250738585072014e-308", "2.2250738585072011e-308",
    "1e99999999999999999999", "1e-99999999999999999999", "0e99999999999999999", "0.0e-99999999999",
    "9007199254740993", "9007199254740992", "9007199254740994", "9007199254740995",
    "9007199254740993.0000000000000000000000000001", "0.1", "0.2", "0.3", "1.3", "123456789012345678",
    "9" * 308, "9" * 309, "9" * 310, "1" + "0" * 308, "1" + "0" * 309, "0." + "0" * 400 + "1",
    "1" + "0" * 400 + "e-400", "0." + "0" * 322 + "1", "0." + "0" * 323 + "3", "5e-324", "5e-325",
    "3e-324", "17976931348623157" + "0" * 292, "17976931348623158" + "0" * 292,
    "179769313486231580793728971405303415079934132710037826936173778980444968292764750946649017977587"
    "2071328582690593653330708834619283570555104735376759975391731302165325251412166973055145658389"
    "0603820631470425688226462520570467476163768957683636339364860968393855730996629567368524287219"
    "1521299315304685360878351147539603488", "1,5", "1.5e", "1e 5", "1 e5", "1e5 "]
FLOAT_SPACE = " \t\n\x0b\x0c\r"


def gen_float_texts(rng, n_rand, n_mid, n_mut):
    out = list(FLOAT_TEXTS)
    digs = "0123456789"
    for _ in range(n_rand):
        n = rng.choice([1, 2, 3, 5, 8, 17, 18, 19, 20, 25, 40])
        t = "".join(rng.choice(digs) for _ in range(rng.randint(1, n)))
        if rng.random() < 0.7:
            t += "." + "".join(rng.choice(digs) for _ in range(rng.randint(0, n)))
        if rng.random() < 0.3:
            t += rng.choice("eE") + rng.choice(["", "+", "-"]) + str(rng.choice(
                [0, 1, 2, 5, 10, 22, 23, 100, 300, 307, 308, 309, 310, 320, 323, 324, 325, 400]))
        out.append(t)
    # halfway cases between adjacent doubles (exact ties, and just off them)
    for _ in range(n_mid):
        mant = rng.getrandbits(53) | (1 << 52)
        e = rng.randint(-60, 60)
        mid = Fraction(2 * mant + 1, 2) * Fraction(2) ** e
        k = 0
        while (mid * 10 ** k).denominator != 1:       # a dyadic rational: the expansion terminates
            k += 1
        s = str(int(mid * 10 ** k))
        t = (s[:-k] or "0") + "." + s[-k:].rjust(k, "0") if k else s
        out.append(t)
        out.append(t + "0000000000001")
        out.append(t[:-1] + str((int(t[-1]) - 1) % 10) + "9999999")
    # mutations
    pool = list("0123456789.,eE+-_ \t") + ["H", "x", "\x0c", "\x1f"]
    base = out[:140] + out[200:400]
    for _ in range(n_mut):
        t = list(rng.choice(base))
        for _ in range(rng.randint(1, 2)):
            i = rng.randint(0, len(t))
            r = rng.random()
            if r < 0.5:
                t.insert(i, rng.choice(pool))
            elif r < 0.8 and t:
                del t[min(i, len(t) - 1)]
            elif t:
                t[min(i, len(t) - 1)] = rng.choice(pool)
        out.append("".join(t))
    # the model is about ASCII texts and finite values
    return [t for t in out if all(ord(c) < 128 for c in t)
            and t.strip(FLOAT_SPACE).lower().lstrip("+-") not in ("inf", "infinity", "nan")]


def sig_digits(q):
    q = abs(Fraction(q))
    k = 0
    while (q * 10 ** k).denominator != 1:
        k += 1
    return len(str(int(q * 10 ** k)).strip("0"))


def gen_dyadics(rng, n, allow_small=True):
    out = []
    while len(out) < n:
        j = rng.choice([0, 1, 2, 3, 4, 5, 8, 10, 12, 16, 20, 25, 30, 40] if allow_small else [1, 2, 3, 4, 5, 8, 10])
        k = rng.choice([1, 3, 5, 7, 9, 11, 123, 1001, 99999, 2 ** 20 - 1, rng.getrandbits(rng.randint(1, 40)) | 1])
        if rng.random() < 0.3:
            k *= 10 ** rng.randint(1, 12)
        q = Fraction(k, 2 ** j)
        if sig_digits(q) <= 15 and float(q) == q:
            out.append(q)
    return out


REPR_FIXED = [Fraction(0), Fraction(5), Fraction(10 ** 15), Fraction(10 ** 16), Fraction(10 ** 22),
              Fraction(1, 2 ** 14), Fraction(1, 8192), Fraction(1, 16384), Fraction(2 ** 53), Fraction(1, 2 ** 40),
              Fraction(3, 2 ** 45)]


def gen_repr_inputs(rng, n):
    qs = gen_dyadics(rng, n) + REPR_FIXED
    qs = [q for q in qs if sig_digits(q) <= 15]
    return qs + [-q for q in qs[:max(1, n // 6)]]


def gen_durations(rng, n):
    """Decoded durations: ("W", w) | ("U", y, mo, d, h, mi, s) with Fractions for h mi s."""
    out = []
    for _ in range(n):
        r = rng.random()
        sign = rng.choice([1, 1, -1])
        if r < 0.08:
            out.append(("W", sign * rng.choice([0, 1, 2, 52, 10 ** 6, rng.getrandbits(70)])))
            continue

        def whole():
            return rng.choice([0, 0, 0, 1, 2, 7, 12, 59, 60, 366, 10 ** 9, rng.getrandbits(64)])

        def frac():
            c = rng.random()
            if c < 0.3:
                return Fraction(0)
            if c < 0.45:
                return Fraction(rng.choice([1, 5, 24, 60, 3600, 86400, 2 ** 53, 2 ** 53 + 2, 10 ** 15, 10 ** 16,
                                            10 ** 22, 2 ** 70]))
            return gen_dyadics(rng, 1)[0]

        y, mo, d = whole(), whole(), whole()
        h, mi, s = frac(), frac(), frac()
        if r > 0.92:   # mixed signs (outside the property; the model must still agree on str)
            vals = [v * rng.choice([1, -1]) for v in (y, mo, d, h, mi, s)]
        else:
            vals = [v * sign for v in (y, mo, d, h, mi, s)]
        out.append(("U",) + tuple(vals))
    return out


DUR_FIXED = [("U", 0, 0, 0, "0", "0", "1/32768"), ("U", 0, 0, 0, "0", "0", "-1/32768"),
             ("U", 1, 0, 0, "1/1048576", "0", "1/4194304"), ("U", "10^4299", 0, 0, "1/2", "0", "0"),
             ("U", "10^4300", 0, 0, "1/2", "0", "0"), ("U", "-10^4300", 0, 0, "-1/2", "0", "0"),
             ("W", "10^4300"), ("W", "10^4299"), ("W", 0), ("U", 0, 0, 0, "0", "0", "0")]


def seed_text(t):
    """Roughly what str(Duration) gives for a decoded duration (only to have realistic texts to mutate: the texts,
    not this function, are the cases)."""
    if t[0] == "W":
        return "P0Y" if t[1] == 0 else ("-" if t[1] < 0 else "") + "P%dW" % abs(t[1])
    vals = list(t[1:])
    if not any(vals):
        return "P0Y"
    neg = all(v <= 0 for v in vals)
    if neg:
        vals = [-v for v in vals]
    s = "P"
    for i, (v, u) in enumerate(zip(vals, "YMDHMS")):
        if v:
            f = float(v) if i >= 3 else v
            s += (str(int(f)) if int(f) == f else repr(f)) + u
        if i == 2:
            s += "T"
    if s.endswith("T"):
        s = s[:-1]
    return ("-" if neg else "") + s.replace(".", ",")


TEXT_SEEDS = [
    "P1Y2M3DT4H5M6S", "PT1,5H", "PT1.5H", "PT1,5H2,25M3,125S", "-PT0,5S", "P1W", "P0Y", "PT", "P", "",
    "PT1e5S", "PT1E5S", "PT1e999H", "PT1e999H1xM", "PT1 H", "PT1_0H", "PT1.H", "PT1,H", "PT1,5,5H",
    "PT1,5H\n", "PT1\nH", "PT1H2H", "PT0x10H", "PT1e-3S", "PT1H 2M", "PT5e-05S", "PT9,999e-05S",
    "P1Y\n", "P1Y\n\n", "--P1Y", "-P1W", "P-1Y", "P1,5Y", "P1.5D", "P1,5W", "PT1M2H", "PT1S2M", "PT1M1M",
    "PT1HM", "PT1HS", "PTH", "PT1", "P1", "P1YT", "P1YT\n", "PT1H\n", "PT1S\n", "PT1,5S\n", "PT1 S",
    "PT1\tS", "PT 1S", "PT1S ", " PT1S", "PT1SS", "PT1HH", "PT1S1", "PT1H1", "PT1.5.5S", "PT1,,5S",
    "PT1e1e1S", "PT1_S", "PT1__0S", "pt1s", "PT1h", "P1y", "P0001-02-03T04:05:06", "P00010203T040506",
    "P0001-034T04:05:06", "P0001034T040506", "-P0001-02-03T04:05:06", "P0001-02-03T04:05:06,5",
    "P1YT1TH", "PT1T2S", "PT1T2T3S", "P1Y1W", "P1W1D", "PT1W", "P1WT", "P01W", "P1M1Y", "P1D1M", "P1Y1Y",
    "PT1H1M1S1H", "PT1S1H", "PT1,5M1,5H", "PT+1S", "PT-1S", "PT.5S", "PT,5S", "PT1HT", "PTT1H"]
LONG_SEEDS = (["P" + "9" * n + u for n in (10, 400, 4299, 4300, 4301, 5000, 20000) for u in ("Y", "M", "D", "W")]
              + ["PT" + "9" * n + u for n in (10, 308, 309, 310, 400, 4301, 20000) for u in ("H", "M", "S")]
              + ["PT1," + "3" * n + "S" for n in (20, 400, 5000)]
              + ["PT" + "0" * 5000 + "1S", "P" + "0" * 4300 + "Y", "P" + "0" * 4301 + "Y", "-P" + "0" * 4301 + "W",
                 "PT" + "1H" * 2000 + "1S", "PT" + "1" * 3000 + "H" + "2" * 3000 + "M" + "3" * 3000 + "S",
                 "P" + "1" * 100 + "Y" + "2" * 100 + "M" + "3" * 100 + "DT" + "4" * 100 + "H" + "5" * 100 + "M"
                 + "6" * 100 + ",5S"])


# The driver's cost grows faster than linearly with the length of a text (seconds for 20000 digits): the quick tier
# keeps the long seeds below 1000 characters and the four that sit on the int/str digit limit.
QUICK_LONG_SEEDS = [s for s in LONG_SEEDS if len(s) < 1000 or s in (
    "P" + "9" * 4299 + "Y", "P" + "9" * 4300 + "Y", "P" + "9" * 4301 + "Y", "P" + "0" * 4301 + "Y")]


def gen_texts(rng, n_seed, n_mut, n_garbage, long_seeds=()):
    seeds = [seed_text(t) for t in gen_durations(rng, n_seed)]
    seeds += TEXT_SEEDS
    seeds += long_seeds
    out = list(seeds)
    pool = list("0123456789") * 3 + list("PYMDTHMSW,.-+eE_ \n\t:") + ["x", "\x0c", "\x1f", "\x00", "p", "t"]
    short = [s for s in seeds if len(s) < 80]
    for _ in range(n_mut):
        t = list(rng.choice(short))
        for _ in range(rng.choice([1, 1, 1, 2, 3])):
            i = rng.randint(0, len(t))
            r = rng.random()
            if r < 0.45:
                t.insert(i, rng.choice(pool))
            elif r < 0.75 and t:
                del t[min(i, len(t) - 1)]
            elif r < 0.9 and t:
                t[min(i, len(t) - 1)] = rng.choice(pool)
            elif len(t) > 1:
                a, b = sorted(rng.sample(range(len(t)), 2))
                t[a], t[b] = t[b], t[a]
        out.append("".join(t))
    for _ in range(n_garbage):   # pure garbage over the alphabet
        out.append("".join(rng.choice(pool) for _ in range(rng.randint(0, 12))))
    return out


# ---------------------------------------------------------------------------------------------------------

class DurTextQOp(ModelSkips, Op):
    prop = "C10"
    name = "durtextq"

    def declines(self, a, model_out):
        return a[0] in ("dqparse", "dqcp") and "outside" in model_out.split(" ")

    def model_kind(self, a, out):
        op = a[0]
        if op == "pyfloat":
            return out if out in ("inf", "err", "bad-op") else "value"
        if op == "reprpy":
            return "exponent" if "e" in out else "positional"
        if op in ("dqstr", "dqrt"):
            return "value-error" if out == "value" else ("parsed-back" if " | fix=" in out else
                                                         ("not-parsed-back" if " | " in out else "text"))
        if op == "dqcp":
            f = out.split(" | ")
            return "same" if len(f) == 2 and f[0] == f[1] else "different"
        return out.split(" ")[0]

    def gen(self, rng, tier, boost):
        def distinct(cases):
            seen = set()
            for a in cases:
                if a not in seen:
                    seen.add(a)
                    yield a
        return self.peeked(distinct(self._gen(rng, tier, boost)))

    def _gen(self, rng, tier, boost):
        k = (1 if tier == "quick" else 10) * boost
        shard = getattr(self, "shard", None)
        first = not shard or shard[0] == 0      # the fixed lists go to one shard only

        def cut(n):
            return n // shard[1] + 1 if shard else n
        for t in gen_float_texts(rng, cut(350 * k), cut(60 * k), cut(350 * k))[0 if first else len(FLOAT_TEXTS):]:
            yield ("pyfloat", t)
        for q in gen_repr_inputs(rng, cut(600 * k)):
            yield ("reprpy", show_rat(q))
        durs = [enc_dur(t) for t in gen_durations(rng, cut(900 * k))] + (DUR_FIXED if first else [])
        for i, t in enumerate(durs):
            if i % 3 == 0:
                yield ("dqstr", t)
            yield ("dqrt", rng.choice(MODES), t)
        long_seeds = [] if not first else (QUICK_LONG_SEEDS if tier == "quick" else LONG_SEEDS)
        for t in gen_texts(rng, cut(120 * k), cut(1100 * k), cut(250 * k), long_seeds):
            yield ("dqparse", rng.choice(MODES), t)
        for t in gen_texts(rng, cut(120 * k), cut(1100 * k), cut(250 * k), long_seeds):
            if "," in t:
                yield ("dqcp", rng.choice(MODES), t)

    def from_corpus(self, a):
        return tup(a)

    def line(self, a):
        op = a[0]
        if op == "pyfloat":
            return "pyfloat " + enhex(a[1])
        if op == "reprpy":
            return "reprpy " + a[1]
        if op == "dqstr":
            return "dqstr %d %s" % (LIM, dur_tokens(a[1]))
        if op == "dqrt":
            return "dqrt %d %s %s" % (LIM, a[1], dur_tokens(a[2]))
        return "%s %d %s %s" % (op, LIM, a[1], enhex(a[2]))

    def impl(self, a):
        saved = sys.get_int_max_str_digits()
        sys.set_int_max_str_digits(LIM)
        try:
            return self._impl(a)
        finally:
            sys.set_int_max_str_digits(saved)

    def _impl(self, a):
        op = a[0]
        if op == "pyfloat":
            try:
                f = float(a[1])
            except ValueError:
                return "err"
            return "inf" if f in (float("inf"), float("-inf")) else show_rat(Fraction(f))
        if op == "reprpy":
            return repr(float(Fraction(a[1])))
        if op == "dqstr":
            try:
                return str(mk_duration(dec_dur(a[1])))
            except ValueError:
                return "value"
        set_mode(a[1])
        if op == "dqparse":
            return py_parse(a[2])
        if op == "dqcp":
            return "%s | %s" % (py_parse(a[2]), py_parse(a[2].replace(",", ".")))
        d = mk_duration(dec_dur(a[2]))
        try:
            text = str(d)
        except ValueError:
            return "value"
        res = py_parse(text)
        out = "%s | %s" % (text, res)
        if res[0] in "UW":
            d2 = parser().parse(text)
            out += " | fix=%d | eq=%d" % (str(d2) == text, d2 == d and d == d2)
        return out

    # -- C10's own clause on the round trip, no model: single-signed durations whose integers the interpreter can
    # print come back from their text as the same duration, the text is a fixpoint and the library's == agrees
    @staticmethod
    def _length(d):
        """(years, months, exact seconds)."""
        if d[0] == "W":
            return (0, 0, Fraction(d[1]) * 7 * 86400)
        return (d[1], d[2], Fraction(d[3]) * 86400 + Fraction(d[4]) * 3600 + Fraction(d[5]) * 60 + Fraction(d[6]))

    def oracle(self, a, out):
        self.note(a, out)
        if a[0] != "dqrt" or out.startswith(("EXC", "Timeout")):
            return None
        d = dec_dur(a[2])
        vals = d[1:]
        if any(v > 0 for v in vals) and any(v < 0 for v in vals):
            return None                       # mixed signs have no text form: outside the property
        if any(abs(v) >= TOO_LONG for v in vals[:3]):
            return None                       # str(int) itself refuses
        what = "Duration %s" % dur_tokens(a[2])
        parts = out.split(" | ")
        if len(parts) != 4:
            return "%s prints as %r, which does not parse back (%s)" % (what, parts[0][:80], " | ".join(parts[1:]))
        f = parts[1].split(" ")
        back = (f[0],) + tuple(Fraction(x) for x in f[1:])
        if self._length(back) != self._length(d):
            return "%s prints as %r, which parses back to a different duration: %s" % (what, parts[0], parts[1])
        if parts[2] != "fix=1":
            return "%s prints as %r, but what that parses to prints differently" % (what, parts[0])
        if parts[3] != "eq=1":
            return "%s prints as %r; == between it and what that parses to is false" % (what, parts[0])
        return None

    def canon_model(self, a, out):
        if self.declines(a, out):
            self._state().skipped[a[0] + "/outside"] += 1
            return self.answer_of_impl(a)
        return out

    def label(self, a):
        kind, declined = self.peek(a)
        if declined:
            return "durtextq/%s/outside(skipped)" % a[0]
        return "durtextq/%s/%s" % (a[0], kind)
