"""Python transcription of lean/IsoDT/Spec/Calendar.lean (the calendar definition and the
instant of a time point).  Used only to evaluate a property's own clauses on the real
implementation when searching for a failing input; its agreement with the Lean Spec is
itself checked on every run through the driver's `spec-*` operations.

Nothing in here imports metomi.isodatetime.
"""

MODES = ["greg", "d360", "d365", "d366"]
SPELLING = {"greg": "gregorian", "d360": "360day", "d365": "365day", "d366": "366day"}
ALL_SPELLINGS = {
    "gregorian": "greg", "360day": "d360", "360_day": "d360", "365day": "d365",
    "365_day": "d365", "366day": "d366", "366_day": "d366"}

T360 = [30] * 12
T365 = [31, 28, 31, 30, 31, 30, 31, 31, 30, 31, 30, 31]
T366 = [31, 29, 31, 30, 31, 30, 31, 31, 30, 31, 30, 31]


def is_leap_g(y):
    return (y % 4 == 0 and y % 100 != 0) or y % 400 == 0


def leap(m, y):
    if m == "greg":
        return is_leap_g(y)
    return m == "d366"


def month_tab(m, lp):
    if m == "d360":
        return T360
    if m == "d365":
        return T365
    if m == "d366":
        return T366
    return T366 if lp else T365


def month_len(m, y, mo):
    if 1 <= mo <= 12:
        return month_tab(m, leap(m, y))[mo - 1]
    return 0


def dbm(m, y, mo):
    return sum(month_tab(m, leap(m, y))[:max(mo - 1, 0)])


def year_len(m, y):
    return sum(month_tab(m, leap(m, y)))


def dby(m, y):
    if m == "greg":
        return 365 * (y - 1) + (y - 1) // 4 - (y - 1) // 100 + (y - 1) // 400
    return {"d360": 360, "d365": 365, "d366": 366}[m] * (y - 1)


def day_num_ord(m, y, doy):
    return dby(m, y) + doy - 1


def day_num_cal(m, y, mo, d):
    return dby(m, y) + dbm(m, y, mo) + d - 1


def week_ref(m):
    return day_num_ord(m, 2000, 3)


def weekday(m, n):
    return (n - week_ref(m)) % 7 + 1


def week_year_start(m, wy):
    j4 = day_num_ord(m, wy, 4)
    return j4 - (weekday(m, j4) - 1)


def day_num_week(m, wy, w, d):
    return week_year_start(m, wy) + 7 * (w - 1) + (d - 1)


def weeks_in_year(m, wy):
    return (week_year_start(m, wy + 1) - week_year_start(m, wy)) // 7


def valid_cal(m, y, mo, d):
    return 1 <= mo <= 12 and 1 <= d <= month_len(m, y, mo)


def valid_ord(m, y, doy):
    return 1 <= doy <= year_len(m, y)


def valid_week(m, wy, w, d):
    return 1 <= w <= weeks_in_year(m, wy) and 1 <= d <= 7


def date_day_num(m, date):
    """date = ('c', y, mo, d) | ('o', y, doy) | ('w', y, w, d)."""
    if date[0] == "c":
        return day_num_cal(m, *date[1:])
    if date[0] == "o":
        return day_num_ord(m, *date[1:])
    return day_num_week(m, *date[1:])


def date_valid(m, date):
    if date[0] == "c":
        return valid_cal(m, *date[1:])
    if date[0] == "o":
        return valid_ord(m, *date[1:])
    return valid_week(m, *date[1:])


# -- inverse views, by search (independent of the implementation's algorithms) ------------

def year_of_day_num(m, n):
    """The year whose [dby(y), dby(y+1)) contains n."""
    if m == "greg":
        y = n // 366 + 1
        while dby(m, y + 1) <= n:
            y += 1
        while dby(m, y) > n:
            y -= 1
        return y
    length = {"d360": 360, "d365": 365, "d366": 366}[m]
    return n // length + 1


def ord_of_day_num(m, n):
    y = year_of_day_num(m, n)
    return (y, n - dby(m, y) + 1)


def cal_of_day_num(m, n):
    y, doy = ord_of_day_num(m, n)
    tab = month_tab(m, leap(m, y))
    mo = 1
    for length in tab:
        if doy <= length:
            break
        doy -= length
        mo += 1
    return (y, mo, doy)


def week_of_day_num(m, n):
    y = year_of_day_num(m, n)
    for wy in (y + 1, y, y - 1):
        s = week_year_start(m, wy)
        if s <= n:
            return (wy, (n - s) // 7 + 1, (n - s) % 7 + 1)
    raise AssertionError("no week year for %r" % (n,))


def tz_valid(h, mi):
    return (-99 <= h <= 99 and -59 <= mi <= 59 and not (h > 0 and mi < 0)
            and not (h < 0 and mi > 0))


def inst(m, date, hh, mi, ss, tzh, tzm):
    """Seconds since 0001-01-01T00:00:00Z; hh/mi/ss may be int, float or Fraction."""
    return (86400 * date_day_num(m, date) + 3600 * hh + 60 * mi + ss
            - (3600 * tzh + 60 * tzm))
