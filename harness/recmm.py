"""Recurrences with `min_point` / `max_point`: cases for the model `RecMM` (lean/IsoDT/Model/RecurrenceMM.lean;
theorems Props/C12mm, C13mm, C14mm) and their evaluation on the implementation.  One op class, instantiated by
C12 (construction, iteration), C13 (queries) and C14 (shift, equality, hash) with the driver ops it draws from."""
import collections

import gens
import tpcommon as T
import reccommon as R
from engine import Op, set_mode

K = 10
FUEL = 400


def mk_rec(r):
    from metomi.isodatetime.data import TimeRecurrence
    reps, start, dur, end, mn, mx = r
    kw = {}
    if reps is not None:
        kw["repetitions"] = reps
    if start is not None:
        kw["start_point"] = T.mk_tp(start)
    if dur is not None:
        kw["duration"] = T.mk_dur(dur)
    if end is not None:
        kw["end_point"] = T.mk_tp(end)
    if mn is not None:
        kw["min_point"] = T.mk_tp(mn)
    if mx is not None:
        kw["max_point"] = T.mk_tp(mx)
    return TimeRecurrence(**kw)


def rec_line(r):
    reps, start, dur, end, mn, mx = r
    parts = ["_" if reps is None else str(reps)]
    parts.append("_" if start is None else "S " + T.tp_str(start))
    parts.append("_" if dur is None else "D " + T.dur_str(dur))
    parts.append("_" if end is None else "E " + T.tp_str(end))
    parts.append("_" if mn is None else "N " + T.tp_str(mn))
    parts.append("_" if mx is None else "X " + T.tp_str(mx))
    return " ".join(parts)


def canon_opt(p):
    return "_" if p is None else T.canon_tp(p)


def canon_rec(rec):
    return "%s ; %s ; %s" % (R.canon_rec(rec), canon_opt(rec.min_point), canon_opt(rec.max_point))


def first_k(rec, k):
    out = []
    if k == 0:
        return out
    for p in rec:
        out.append(p)
        if len(out) >= k:
            break
    return out


def gen_bound(rng, m, insts, tag, stats, friendly):
    """A min or max point placed relative to the (first K) instants of the unrestricted series.
    friendly: keep the window [min, max] non-empty at the series' first point."""
    if not insts:
        insts = [0]
    lo, hi = min(insts), max(insts)
    r = rng.random()
    if friendly:
        # min: none / before / first member ; max: none / after / member / inside
        if tag == "min":
            r = rng.choice([0.1, 0.2, 0.2, 0.5])
            if r == 0.5:
                insts = [insts[0] if insts[0] == lo else lo]
        else:
            r = rng.choice([0.1, 0.4, 0.6, 0.6, 0.6, 0.8, 0.9])
    if r < 0.15:
        stats[tag + ":none"] += 1
        return None
    if r < 0.30:
        kind, x = "before", lo - rng.choice([1, 60, 3600, 86400, 86401, 10 ** 6])
    elif r < 0.45:
        kind, x = "after", hi + rng.choice([1, 60, 3600, 86400, 86401, 10 ** 6])
    elif r < 0.75:
        kind, x = "member", rng.choice(insts)
    elif r < 0.85:
        kind, x = "member+-1", rng.choice(insts) + rng.choice([-1, 1])
    else:
        kind, x = "inside", rng.randint(lo, hi)
    stats[tag + ":" + kind] += 1
    tzh, tzm = gens.offset(rng)
    use24 = rng.random() < 0.5
    if rng.random() < 0.12 and not friendly:
        x -= (x + 3600 * tzh + 60 * tzm) % 86400      # a local midnight
    t = T.tp_from_inst(m, x, rng.choice("cow"), tzh, tzm, use24=use24)
    if t[4] == 24:
        stats[tag + ":24:00"] += 1
    if not -9990 < t[1] < 9990 * 10:
        return None
    return t


def gen_probe(rng, m, insts, rec6):
    cands = list(insts) if insts else [0]
    for b in (rec6[4], rec6[5]):
        if b is not None:
            cands.append(T.inst(m, b))
    x = rng.choice(cands)
    r = rng.random()
    if r < 0.45:
        pass
    elif r < 0.7:
        x += rng.choice([-1, 1, -60, 60, 3600, -3600, 86400, -86400])
    elif r < 0.85:
        x = rng.randint(min(cands) - 100000, max(cands) + 100000)
    else:
        x = rng.choice([min(cands) - rng.randint(1, 10 ** 6), max(cands) + rng.randint(1, 10 ** 6)])
    tzh, tzm = gens.offset(rng)
    return T.tp_from_inst(m, x, rng.choice("cow"), tzh, tzm, use24=rng.random() < 0.4)


def gen_case(rng, opnames, stats):
    """One case tuple (op, mode, ...) or None."""
    m = gens.mode(rng)
    rec4, info = R.gen_rec(rng, m, max_reps=12)
    d = info["interval"]
    if d[0] == "U" and d[3] >= 36500:
        return None
    try:
        series, _rev = R.expected_series(m, info, K)
        insts = [T.inst(m, t) for t in series]
    except Exception:
        insts = []
    friendly = rng.random() < 0.5
    mn = gen_bound(rng, m, insts, "min", stats, friendly)
    mx = gen_bound(rng, m, insts, "max", stats, friendly)
    rec6 = rec4 + (mn, mx)
    has_start = rec4[1] is not None or (rec4[0] is not None)   # bounded duration/end computes a start
    op = rng.choice(opnames)
    if op == "mmrfirst" and not has_start:
        op = "mmrvalid" if "mmrvalid" in opnames else None
        if op is None:
            return None
    if op == "mmrmk":
        return (op, m, rec6)
    if op == "mmriter":
        return (op, m, rng.choice([0, 1, 2, K, K, K + 5]), rec6)
    if op == "mmritem":
        return (op, m, rng.randint(0, K + 2), rec6)
    if op in ("mmrvalid", "mmrfirst"):
        probe = gen_probe(rng, m, insts, rec6)
        # the model iterates with fuel (the theorems say which fuel suffices: more than distance / interval);
        # the Python simply loops - give the model what the case needs, and leave out cases that would need
        # more than a few thousand steps
        fuel = FUEL
        if R.is_exact(d) and not R.is_zero(d):
            secs = abs(T.dur_seconds(d) if d[0] == "U" else d[1] * 7 * 86400)
            need = abs(T.inst(m, probe) - T.inst(m, info["anchor"])) // max(secs, 1) + 3
            if need > 5000:
                return None
            fuel = int(max(FUEL, need))
        return (op, m, fuel, rec6, probe)
    if op in ("mmrnext", "mmrprev"):
        return (op, m, rec6, gen_probe(rng, m, insts, rec6))
    if op == "mmrshift":
        return (op, m, rec6, T.gen_exact_dur(rng, max_days=3000))
    # the other recurrence: identical / min or max respelled / min or max moved or dropped / base respelled
    r = rng.random()
    mn2, mx2 = mn, mx
    rec4b = rec4
    if r < 0.2:
        kind = "same"
    elif r < 0.5:
        kind = "respelled bounds"
        if mn is not None:
            mn2 = T.respell(rng, m, mn)
        if mx is not None and rng.random() < 0.7:
            mx2 = T.respell(rng, m, mx)
    elif r < 0.65:
        kind = "min differs"
        mn2 = None if (mn is not None and rng.random() < 0.4) else \
            T.tp_from_inst(m, (T.inst(m, mn) if mn else 0) + rng.choice([-1, 1, 86400]), "c", 0, 0)
    elif r < 0.8:
        kind = "max differs"
        mx2 = None if (mx is not None and rng.random() < 0.4) else \
            T.tp_from_inst(m, (T.inst(m, mx) if mx else 0) + rng.choice([-1, 1, 86400]), "c", 0, 0)
    elif r < 0.9:
        kind = "min/max swapped"
        mn2, mx2 = mx, mn
    else:
        kind = "base respelled"
        rec4b, _ = R.respell_rec(rng, m, rec4, info)
    return (op, m, rec6, rec4b + (mn2, mx2), kind)


def case_line(c):
    op, m = c[0], c[1]
    if op == "mmrmk":
        return "%s %s %s" % (op, m, rec_line(c[2]))
    if op in ("mmriter", "mmritem"):
        return "%s %s %d %s" % (op, m, c[2], rec_line(c[3]))
    if op in ("mmrvalid", "mmrfirst"):
        return "%s %s %d %s %s" % (op, m, c[2], rec_line(c[3]), T.tp_str(c[4]))
    if op in ("mmrnext", "mmrprev"):
        return "%s %s %s %s" % (op, m, rec_line(c[2]), T.tp_str(c[3]))
    if op == "mmrshift":
        return "%s %s %s %s" % (op, m, rec_line(c[2]), T.dur_str(c[3]))
    return "%s %s %s %s" % (op, m, rec_line(c[2]), rec_line(c[3]))


def impl(c):
    op, m = c[0], c[1]
    set_mode(m)
    rec_arg = c[3] if op in ("mmriter", "mmritem", "mmrvalid", "mmrfirst") else c[2]
    try:
        rec = mk_rec(rec_arg)
    except ValueError:
        return "err"
    if op == "mmrmk":
        return canon_rec(rec)
    if op == "mmriter":
        return R.canon_pts(first_k(rec, c[2]))
    if op == "mmritem":
        try:
            return T.canon_tp(rec[c[2]])
        except IndexError:
            return "IndexError"
    if op == "mmrvalid":
        return "1" if rec.get_is_valid(T.mk_tp(c[4])) else "0"
    if op == "mmrfirst":
        return canon_opt(rec.get_first_after(T.mk_tp(c[4])))
    if op == "mmrnext":
        return canon_opt(rec.get_next(T.mk_tp(c[3])))
    if op == "mmrprev":
        return canon_opt(rec.get_prev(T.mk_tp(c[3])))
    if op == "mmrshift":
        try:
            return canon_rec(rec + T.mk_dur(c[3]))
        except ValueError:
            return "err"
    try:
        rec2 = mk_rec(c[3])
    except ValueError:
        return "err"
    if op == "mmreq":
        return "1" if rec == rec2 else "0"
    return "1" if hash(rec) == hash(rec2) else "0"


def impl(c):
    op, m = c[0], c[1]
    set_mode(m)
    rec_arg = c[3] if op in ("mmriter", "mmritem", "mmrvalid", "mmrfirst") else c[2]
    try:
        rec = mk_rec(rec_arg)
    except ValueError:
        return "err"
    if op == "mmrmk":
        return canon_rec(rec)
    if op == "mmriter":
        return R.canon_pts(first_k(rec, c[2]))
    if op == "mmritem":
        try:
            return T.canon_tp(rec[c[2]])
        except IndexError:
            return "IndexError"
    if op == "mmrvalid":
        return "1" if rec.get_is_valid(T.mk_tp(c[4])) else "0"
    if op == "mmrfirst":
        return canon_opt(rec.get_first_after(T.mk_tp(c[4])))
    if op == "mmrnext":
        return canon_opt(rec.get_next(T.mk_tp(c[3])))
    if op == "mmrprev":
        return canon_opt(rec.get_prev(T.mk_tp(c[3])))
    if op == "mmrshift":
        try:
            return canon_rec(rec + T.mk_dur(c[3]))
        except ValueError:
            return "err"
    try:
        rec2 = mk_rec(c[3])
    except ValueError:
        return "err"
    if op == "mmreq":
        return "1" if rec == rec2 else "0"
    return "1" if hash(rec) == hash(rec2) else "0"




def _inst_opt(m, t):
    return None if t is None else T.inst(m, t)


class RecMMOp(Op):
    """Driver ops mmr* on recurrences with a min/max window, against the implementation; oracle = the clauses the
    properties state, with the window read as the code documents it (a subset of the series)."""
    model = True

    def __init__(self, prop, name, opnames, n_quick=500):
        self.prop = prop
        self.name = name
        self.opnames = opnames
        self.n_quick = n_quick
        self.stats = collections.Counter()

    def gen(self, rng, tier, boost):
        n = (self.n_quick if tier == "quick" else self.n_quick * 8) * boost
        if getattr(self, "shard", None):
            n = n // self.shard[1] + 1
        made = 0
        while made < n:
            c = gen_case(rng, self.opnames, self.stats)
            made += 1
            if c is not None:
                yield c

    def from_corpus(self, a):
        def tup(x):
            return tuple(tup(y) for y in x) if isinstance(x, (list, tuple)) else x
        return tup(a)

    def line(self, a):
        return case_line(a)

    def impl(self, a):
        return impl(a)

    def label(self, a):
        return "%s/%s" % (a[0], a[1])

    def oracle(self, a, out):
        op, m = a[0], a[1]
        if out.startswith(("EXC", "Timeout")):
            return "%s raised %s" % (case_line(a), out)
        set_mode(m)
        try:
            if op == "mmriter":
                k, rec6 = a[2], a[3]
                mn, mx = _inst_opt(m, rec6[4]), _inst_opt(m, rec6[5])
                try:
                    base = R.mk_rec(rec6[:4])
                except ValueError:
                    return None if out == "err" else "%s: the recurrence without window is refused, with it: %s" % (case_line(a), out)
                if out == "err":
                    return "%s: refused, but the same recurrence without the window is accepted" % case_line(a)
                want = []
                for p in first_k(base, k):
                    x = T.inst(m, T.tp_tuple(p))
                    if (mn is not None and x < mn) or (mx is not None and x > mx):
                        break
                    want.append(T.canon_tp(p))
                got = [s for s in out.split(" | ") if s]
                if got != want:
                    return ("%s: iteration with the window yields %d points %s, the points of the series up to the first one "
                            "outside [min, max] are %d: %s" % (case_line(a), len(got), got[:3], len(want), want[:3]))
            elif op in ("mmreq", "mmrhasheq"):
                x6, y6 = a[2], a[3]
                try:
                    bx, by = R.mk_rec(x6[:4]), R.mk_rec(y6[:4])
                except ValueError:
                    return None
                same = (bx == by and _inst_opt(m, x6[4]) == _inst_opt(m, y6[4])
                        and _inst_opt(m, x6[5]) == _inst_opt(m, y6[5]))
                if op == "mmreq" and out != ("1" if same else "0"):
                    return "%s: == gives %s; repetitions, start, end, interval, min, max %s" % (
                        case_line(a), out, "all agree" if same else "do not all agree")
                if op == "mmrhasheq" and same and out != "1":
                    return "%s: equal recurrences hash differently" % case_line(a)
            elif op == "mmrshift" and out != "err":
                rec6, d = a[2], a[3]
                try:
                    moved = R.mk_rec(rec6[:4]) + T.mk_dur(d)
                except ValueError:
                    return None
                want = "%s ; %s ; %s" % (R.canon_rec(moved), "_" if rec6[4] is None else T.tp_str(rec6[4]),
                                         "_" if rec6[5] is None else T.tp_str(rec6[5]))
                parts = out.split(" ; ")
                if len(parts) == 7 and parts[:5] != want.split(" ; ")[:5]:
                    return "%s: shifted recurrence is %s, the same recurrence without window shifts to %s" % (
                        case_line(a), out, want)
                if len(parts) == 7:
                    for tag, got, src in (("min_point", parts[5], rec6[4]), ("max_point", parts[6], rec6[5])):
                        if (src is None) != (got == "_") or (src is not None and T.inst(m, T.parse_tp(got)) != T.inst(m, src)):
                            return "%s: %s changed under the shift: %s" % (case_line(a), tag, got)
        except T.NonIntegral:
            return None
        return None
