#!/usr/bin/env python3
"""Write seeded/INDEX.md: one row per kept seeded change (from its meta.json)."""
import os, json, glob
HERE = os.path.dirname(os.path.abspath(__file__))
VERIF = os.path.dirname(HERE)
rows = []
for d in sorted(glob.glob(os.path.join(VERIF, "seeded", "*", ""))):
    try:
        m = json.load(open(os.path.join(d, "meta.json")))
    except OSError:
        continue
    name = os.path.basename(d[:-1])
    first_missed = "yes" if (m.get("first_missed") or "MISSED" in m.get("caught_by", "").upper()
                             or "missed" in m.get("caught_by", "")) else ""
    rows.append("| %s | %s | %s | %s | %s |" % (name, m.get("breaks_property", ""),
                m.get("needs_to_manifest", "").replace("|", "/"), m.get("caught_by", "").replace("|", "/"), first_missed))
with open(os.path.join(VERIF, "seeded", "INDEX.md"), "w") as h:
    h.write("# Seeded changes (independent sub-agents; each confirmed: suite unchanged, demo fails with / passes without)\n\n")
    h.write("Apply with `git -C /repo apply seeded/<name>/patch.diff`, run `./check <prop>`, undo with `git -C /repo checkout -- .`\n")
    h.write("(or point `VERIF_REPO` at a scratch worktree carrying the patch).\n\n")
    h.write("| seeded change | property | what it needs to manifest | caught by | first missed? |\n|---|---|---|---|---|\n")
    h.write("\n".join(rows) + "\n")
print(len(rows), "rows")
