#!/venv/bin/python
"""Gen.Effects — the effect IR of every method of TimeRecurrence, Duration, TimeZone, TimePoint.

Walks the AST of <repo>/metomi/isodatetime/data.py (the file on disk of the tree under check) and
emits lean/IsoDT/Gen/Effects.lean: one `Method` (IsoDT/Model/Effects.lean) per method — SSA-style
statement set, certificate (`fresh`, `frs`) and summary (`writesRecv`, `ret`) — plus entry 0, the
"any client code that uses public methods only" pseudo-method that stands for `dumpers`, the
module-level helpers, `str.format` and friends.  Theorem `C16_gen_ok` (Props/C16.lean) re-checks the
table with `decide`; the translator's inference of certificates and summaries is therefore not
trusted, only its reading of the Python (below) is.

Reading of the Python (see also ASSUMPTIONS at the end of the generated file):

  * An abstract value is a pair (O, C): the SSA variables the value may *be*, and the variables a
    syntactic container (tuple/list/dict literal, comprehension, *args) may *hold*.  Constants,
    module globals and results of operations none of the four classes defines are untracked.
  * Every parameter, every attribute load (`x.attr`, `getattr`) and every result of a call is a
    tracked variable; nothing is assumed about scalar-valued slots.
  * Method calls are resolved *by name* over the four classes (every class that defines the name),
    operators / comparisons / truth tests / str / hash / abs / iteration / subscripts go to the
    corresponding dunder methods, reflected variants included.  A constructor call is
    `new x` + a call of that class's `__init__` on x; `self.__class__(…)` calls all four.
  * Attribute assignment, augmented assignment, `setattr`, `del x.a` through x are `write x`.
    Writes through a loaded attribute (`p._time_zone._hours = …`) are writes through an arbitrary
    address and can never be certified.
  * Control flow: if/while/for/break/continue/return/raise/yield/try, loops by fixpoint over
    reaching definitions, φ as `mov`; a handler may start after any statement of its `try` body.  The statement *set* is what is emitted (order is irrelevant to the
    semantics).
  * Anything else (with, lambda, nested def, global, walrus, super(), unknown callables,
    bound methods escaping, decorators other than @property, `__setattr__`/`__getattr__`/`__new__`
    definitions, …) raises TranslateError.
"""
import ast
import os
import sys

HERE = os.path.dirname(os.path.abspath(__file__))
if HERE not in sys.path:
    sys.path.insert(0, HERE)
import common  # noqa: E402


# translate.py is imported lazily: it may itself import this module to register the generator.
def _translate():
    import translate
    return translate


def TranslateError(msg):
    """An instance of translate.TranslateError (`raise TranslateError("...")` works as usual)."""
    return _translate().TranslateError(msg)


def lean_str(text):
    return _translate().lean_str(text)


CLASSES = ["TimeRecurrence", "Duration", "TimeZone", "TimePoint"]
EXT = 0   # table index of the client-code pseudo-method

FRESH, FRS, ANY = 0, 1, 2
RETNAME = {FRESH: "fresh", FRS: "freshOrRecv", ANY: "any"}

META_ATTRS = {"__class__", "__slots__", "__module__", "__name__", "__doc__", "__qualname__"}
FORBIDDEN_DEFS = {"__setattr__", "__getattr__", "__getattribute__", "__delattr__", "__new__",
                  "__init_subclass__", "__set_name__", "__class_getitem__", "__del__",
                  "__set__", "__get__", "__delete__"}
FORBIDDEN_CALLS = {"exec", "eval", "globals", "locals", "vars", "delattr", "super", "object",
                   "compile", "__import__", "memoryview", "classmethod", "staticmethod",
                   "property"}
CONTAINER_MUTATORS = {"append", "extend", "insert", "update", "add", "setdefault", "remove",
                      "pop", "popitem", "clear", "discard", "sort", "reverse", "appendleft",
                      "__setitem__", "__delitem__"}

BINOPS = {
    ast.Add: ("__add__", "__radd__", "__iadd__"), ast.Sub: ("__sub__", "__rsub__", "__isub__"),
    ast.Mult: ("__mul__", "__rmul__", "__imul__"),
    ast.Div: ("__truediv__", "__rtruediv__", "__itruediv__"),
    ast.FloorDiv: ("__floordiv__", "__rfloordiv__", "__ifloordiv__"),
    ast.Mod: ("__mod__", "__rmod__", "__imod__"), ast.Pow: ("__pow__", "__rpow__", "__ipow__"),
    ast.LShift: ("__lshift__", "__rlshift__", "__ilshift__"),
    ast.RShift: ("__rshift__", "__rrshift__", "__irshift__"),
    ast.BitOr: ("__or__", "__ror__", "__ior__"), ast.BitAnd: ("__and__", "__rand__", "__iand__"),
    ast.BitXor: ("__xor__", "__rxor__", "__ixor__"),
    ast.MatMult: ("__matmul__", "__rmatmul__", "__imatmul__"),
}
CMPOPS = {
    ast.Eq: (("__eq__",), ("__eq__",)), ast.NotEq: (("__ne__", "__eq__"), ("__ne__", "__eq__")),
    ast.Lt: (("__lt__",), ("__gt__",)), ast.LtE: (("__le__",), ("__ge__",)),
    ast.Gt: (("__gt__",), ("__lt__",)), ast.GtE: (("__ge__",), ("__le__",)),
}
UNARYOPS = {ast.USub: "__neg__", ast.UAdd: "__pos__", ast.Invert: "__invert__"}
# builtin f(x, …) -> dunders looked up on the tracked arguments
DUNDER_BUILTINS = {
    "abs": ("__abs__",), "hash": ("__hash__",), "str": ("__str__", "__repr__"),
    "repr": ("__repr__",), "format": ("__format__", "__str__"), "bool": ("__bool__", "__len__"),
    "len": ("__len__",), "int": ("__int__", "__index__", "__trunc__"),
    "float": ("__float__", "__index__"), "divmod": ("__divmod__", "__rdivmod__"),
    "floor": ("__floor__",), "ceil": ("__ceil__",), "round": ("__round__",),
    "range": ("__index__",), "pow": ("__pow__", "__rpow__"),
}
PURE_BUILTINS = {"isinstance", "issubclass", "callable", "type", "id", "print"}
# builtins that hand their argument's elements on (and iterate it)
PASS_BUILTINS = {"tuple", "list", "set", "frozenset", "dict", "enumerate", "reversed", "iter",
                 "sorted", "zip", "any", "all", "min", "max", "sum", "next", "filter", "map"}


class V:
    """Abstract value: variables it may be (objs) / may hold as a container (conts)."""
    __slots__ = ("objs", "conts")

    def __init__(self, objs=(), conts=()):
        self.objs = frozenset(objs)
        self.conts = frozenset(conts)

    def __or__(self, other):
        return V(self.objs | other.objs, self.conts | other.conts)

    def __eq__(self, other):
        return self.objs == other.objs and self.conts == other.conts

    def __hash__(self):
        return hash((self.objs, self.conts))

    @property
    def all(self):
        return self.objs | self.conts

    def elems(self):
        """What indexing / iterating / unpacking this value may give."""
        return V(self.objs | self.conts)

    def __bool__(self):
        return bool(self.objs or self.conts)


BOT = V()


def is_builtin_exception(name):
    import builtins
    obj = getattr(builtins, name, None)
    return isinstance(obj, type) and issubclass(obj, BaseException)


class MethodIR:
    def __init__(self, index, cls, short, node, is_property):
        self.index = index
        self.cls = cls
        self.short = short
        self.name = "%s.%s" % (cls, short) if cls else short
        self.node = node
        self.is_property = is_property
        self.is_generator = False
        dunder = short.startswith("__") and short.endswith("__")
        self.pub = bool(cls) and ((not short.startswith("_")) or (dunder and short != "__init__"))
        self.params = []
        self.stmts = []          # ordered, unique
        self._seen = set()
        self.vars = {}           # key -> id
        self.desc = {0: "self"}
        self.kinds = {}
        self.writes_recv = False
        self.ret = FRESH
        self.global_updates = set()

    def emit(self, *stmt):
        if stmt not in self._seen:
            self._seen.add(stmt)
            self.stmts.append(stmt)

    def var(self, key, desc):
        if key not in self.vars:
            self.vars[key] = len(self.desc)
            self.desc[self.vars[key]] = desc
        return self.vars[key]


def err(node, msg, meth=None):
    where = "line %s" % getattr(node, "lineno", "?")
    if meth is not None:
        where = "%s, %s" % (meth.name, where)
    raise TranslateError("effects: %s: %s" % (where, msg))


class Analysis:
    def __init__(self, path):
        self.path = path
        with open(path) as handle:
            self.source = handle.read()
        self.tree = ast.parse(self.source, path)
        self.methods = []
        self.by_name = {}
        self.class_init = {}
        self.module_funcs = set()
        self.module_globals = set()
        self.imports = set()
        self.slots = {}
        self.global_updates = set()
        self.collect()
        for meth in self.methods[1:]:
            MethodTranslator(self, meth).run()
        self.build_ext()
        self.infer()
        self.post_checks()

    # -- collection ------------------------------------------------------------------------
    def collect(self):
        ext = MethodIR(0, "", "<client code using public methods only>", None, False)
        ext.pub = False
        self.methods.append(ext)
        classes = {}
        for node in self.tree.body:
            if isinstance(node, ast.ClassDef):
                self.module_globals.add(node.name)
                if node.name in CLASSES:
                    classes[node.name] = node
            elif isinstance(node, (ast.FunctionDef, ast.AsyncFunctionDef)):
                self.module_funcs.add(node.name)
                self.module_globals.add(node.name)
            elif isinstance(node, (ast.Import, ast.ImportFrom)):
                for alias in node.names:
                    self.imports.add((alias.asname or alias.name).split(".")[0])
            elif isinstance(node, (ast.Assign, ast.AnnAssign, ast.AugAssign)):
                targets = node.targets if isinstance(node, ast.Assign) else [node.target]
                for tgt in targets:
                    for sub in ast.walk(tgt):
                        if isinstance(sub, ast.Name):
                            self.module_globals.add(sub.id)
                        if (isinstance(sub, ast.Attribute) and isinstance(sub.value, ast.Name)
                                and sub.value.id in CLASSES):
                            err(node, "module-level code patches class %s" % sub.value.id)
            elif isinstance(node, ast.Expr):
                if not isinstance(node.value, ast.Constant):
                    # e.g. setattr(TimePoint, …) at module level
                    for sub in ast.walk(node):
                        if isinstance(sub, ast.Name) and sub.id in CLASSES:
                            err(node, "module-level statement touches class %s" % sub.id)
            else:
                for sub in ast.walk(node):
                    if isinstance(sub, ast.Name) and sub.id in CLASSES:
                        err(node, "module-level %s touches class %s" % (
                            type(node).__name__, sub.id))
        missing = [c for c in CLASSES if c not in classes]
        if missing:
            raise TranslateError("effects: classes %s not found in %s" % (missing, self.path))
        for cname in CLASSES:
            cnode = classes[cname]
            for base in cnode.bases:
                if not (isinstance(base, ast.Name) and base.id in CLASSES + ["object"]):
                    err(cnode, "class %s has a base outside the four classes" % cname)
            if cnode.keywords or cnode.decorator_list:
                err(cnode, "class %s has decorators / metaclass keywords" % cname)
            for item in cnode.body:
                if isinstance(item, ast.FunctionDef):
                    is_prop = False
                    for dec in item.decorator_list:
                        if isinstance(dec, ast.Name) and dec.id == "property":
                            is_prop = True
                        else:
                            err(item, "decorator on %s.%s is not @property" % (cname, item.name))
                    if item.name in FORBIDDEN_DEFS:
                        err(item, "%s.%s changes what attribute access / allocation mean"
                            % (cname, item.name))
                    meth = MethodIR(len(self.methods), cname, item.name, item, is_prop)
                    self.methods.append(meth)
                    self.by_name.setdefault(item.name, []).append(meth)
                    if item.name == "__init__":
                        self.class_init[cname] = meth
                elif isinstance(item, ast.Expr) and isinstance(item.value, ast.Constant):
                    pass
                elif (isinstance(item, ast.Assign) and len(item.targets) == 1
                      and isinstance(item.targets[0], ast.Name)):
                    name = item.targets[0].id
                    val = item.value
                    if name == "__slots__":
                        self.slots[cname] = self.read_slots(cname, val)
                    elif (isinstance(val, ast.Call) and isinstance(val.func, ast.Name)
                          and val.func.id == "property" and not val.args
                          and all(k.arg == "doc" for k in val.keywords)):
                        pass      # `to_weeks = property(doc=…)`: an attribute that always raises
                    else:
                        err(item, "class-level assignment %s.%s" % (cname, name))
                else:
                    err(item, "class-level %s in %s" % (type(item).__name__, cname))
            if cname not in self.slots:
                err(cnode, "class %s has no __slots__ (instances would carry a __dict__)" % cname)
        for cname in CLASSES:
            if cname not in self.class_init:
                # inherited constructor
                cnode = classes[cname]
                for base in cnode.bases:
                    if isinstance(base, ast.Name) and base.id in self.class_init:
                        self.class_init[cname] = self.class_init[base.id]
                if cname not in self.class_init:
                    err(classes[cname], "class %s has no __init__" % cname)

    def read_slots(self, cname, node):
        out = []
        if not isinstance(node, (ast.List, ast.Tuple)):
            err(node, "%s.__slots__ is not a list literal" % cname)
        for elt in node.elts:
            if isinstance(elt, ast.Constant) and isinstance(elt.value, str):
                out.append(elt.value)
            elif (isinstance(elt, ast.Starred) and isinstance(elt.value, ast.Attribute)
                  and isinstance(elt.value.value, ast.Name) and elt.value.attr == "__slots__"
                  and elt.value.value.id in self.slots):
                out.extend(self.slots[elt.value.value.id])
            else:
                err(elt, "%s.__slots__ element not understood" % cname)
        return out

    # -- entry 0 ---------------------------------------------------------------------------
    def build_ext(self):
        """Client code: holds objects it was given, anything loaded from them and anything the
        public methods returned; calls public methods on them; constructs new values."""
        ext = self.methods[EXT]
        ext.desc.update({1: "any object the client holds", 2: "a value the client constructs",
                         3: "result of __init__"})
        ext.emit("mov", 1, 0)
        ext.emit("load", 1, 1)
        ext.emit("ret", 1)
        for meth in self.methods[1:]:
            if meth.pub:
                ext.emit("call", 1, meth.index, 1, (1,))
        ext.emit("new", 2)
        for meth in self.methods[1:]:
            if meth.short == "__init__":
                ext.emit("call", 3, meth.index, 2, (1,))
        ext.emit("mov", 1, 2)

    # -- inference of certificates and summaries (untrusted: Lean re-checks) ----------------
    def infer(self):
        for meth in self.methods:
            meth.ret = FRESH
            meth.writes_recv = False
        changed = True
        rounds = 0
        while changed:
            changed = False
            rounds += 1
            if rounds > 200:
                raise TranslateError("effects: summary inference does not converge")
            for meth in self.methods:
                kinds = {}

                def kk(x, kinds=kinds, meth=meth):
                    if x == 0:
                        return FRS
                    if x in meth.params:
                        return ANY
                    return kinds.get(x, FRESH)
                again = True
                while again:
                    again = False
                    for st in meth.stmts:
                        if st[0] == "new":
                            tgt, k = st[1], FRESH
                        elif st[0] == "mov":
                            tgt, k = st[1], kk(st[2])
                        elif st[0] == "load":
                            tgt, k = st[1], ANY
                        elif st[0] == "call":
                            tgt = st[1]
                            r = self.methods[st[2]].ret
                            k = FRESH if r == FRESH else (kk(st[3]) if r == FRS else ANY)
                        else:
                            continue
                        if k > kinds.get(tgt, FRESH):
                            kinds[tgt] = k
                            again = True
                ret = FRESH
                wr = False
                for st in meth.stmts:
                    if st[0] == "ret":
                        ret = max(ret, kk(st[1]))
                    elif st[0] == "write" and kk(st[1]) == FRS:
                        wr = True
                    elif (st[0] == "call" and self.methods[st[2]].writes_recv
                          and kk(st[3]) == FRS):
                        wr = True
                meth.kinds = dict((x, kk(x)) for x in meth.desc)
                if ret != meth.ret or wr != meth.writes_recv:
                    meth.ret, meth.writes_recv = max(ret, meth.ret), (wr or meth.writes_recv)
                    changed = True

    def uncertifiable(self):
        """Diagnostics only: what Lean's `allOk` will reject, root causes first."""
        roots, derived = [], []
        for meth in self.methods:
            for st in meth.stmts:
                if st[0] == "write" and meth.kinds.get(st[1]) == ANY:
                    roots.append("%s writes through `%s`, which it did not allocate" % (
                        meth.name, meth.desc.get(st[1])))
                elif st[0] == "write" and meth.kinds.get(st[1]) == FRS and meth.pub:
                    roots.append("%s is public and writes through `%s` (its receiver, or a "
                                 "value that may be its receiver)" % (
                                     meth.name, meth.desc.get(st[1])))
                elif (st[0] == "call" and self.methods[st[2]].writes_recv
                      and meth.kinds.get(st[3]) != FRESH):
                    text = "%s calls the mutator %s on `%s`" % (
                        meth.name, self.methods[st[2]].name, meth.desc.get(st[3]))
                    if not self.methods[st[2]].pub and (
                            meth.pub or meth.kinds.get(st[3]) == ANY):
                        roots.append(text)
                    elif meth.pub or meth.kinds.get(st[3]) == ANY:
                        derived.append(text)
        out = []
        for item in roots + derived:
            if item not in out:
                out.append(item)
        return out, len(roots)

    # -- checks on the surrounding code ----------------------------------------------------------
    def post_checks(self):
        for meth in self.methods[1:]:
            if meth.is_generator and meth.writes_recv and not meth.pub:
                # (a public generator that writes its receiver is rejected by `allOk` anyway)
                raise TranslateError(
                    "effects: the private generator %s writes its receiver; its body runs "
                    "interleaved with its consumer, which the IR (effects at the call) does "
                    "not express" % meth.name)
            self.global_updates |= meth.global_updates
        all_slots = set()
        for names in self.slots.values():
            all_slots.update(names)
        # (public methods that write their receiver are rejected by `allOk`; entry 0 may call them)
        mutators = set(m.short for m in self.methods[1:] if m.writes_recv and not m.pub) | {
            "__init__", "__setattr__", "__delattr__", "__setstate__"}
        pkg = os.path.dirname(self.path)
        for fname in sorted(os.listdir(pkg)):
            if not fname.endswith(".py"):
                continue
            fpath = os.path.join(pkg, fname)
            if os.path.realpath(fpath) == os.path.realpath(self.path):
                tree = self.tree
                skip = set(CLASSES)
            else:
                with open(fpath) as handle:
                    tree = ast.parse(handle.read(), fpath)
                skip = set()
            self.scan_external(tree, fname, skip, all_slots, mutators)

    def scan_external(self, tree, fname, skip, all_slots, mutators):
        """Code outside the four classes must use them through public methods and reads only:
        that is what entry 0 of the table assumes about it."""
        def visit(node, own_class):
            for child in ast.iter_child_nodes(node):
                if isinstance(child, ast.ClassDef):
                    if child.name in skip:
                        continue
                    visit(child, child.name)
                    continue
                if isinstance(child, ast.Attribute) and isinstance(child.ctx, (ast.Store, ast.Del)):
                    if child.attr in all_slots:
                        raise TranslateError(
                            "effects: %s line %d writes attribute %s of a value object outside "
                            "the four classes" % (fname, child.lineno, child.attr))
                if isinstance(child, ast.Call):
                    func = child.func
                    if isinstance(func, ast.Name) and func.id in ("setattr", "delattr"):
                        first = child.args[0] if child.args else None
                        if not (own_class and isinstance(first, ast.Name)
                                and first.id in ("self", "cls")):
                            raise TranslateError(
                                "effects: %s line %d: %s() outside the four classes"
                                % (fname, child.lineno, func.id))
                    if isinstance(func, ast.Attribute) and func.attr in mutators:
                        ok_init = (func.attr == "__init__" and isinstance(func.value, ast.Call)
                                   and isinstance(func.value.func, ast.Name)
                                   and func.value.func.id == "super" and own_class)
                        if not ok_init:
                            raise TranslateError(
                                "effects: %s line %d calls the mutator %s from outside the four "
                                "classes" % (fname, child.lineno, func.attr))
                if isinstance(child, ast.Attribute) and child.attr in ("__dict__", "__setattr__",
                                                                       "__delattr__"):
                    raise TranslateError("effects: %s line %d uses %s" % (
                        fname, child.lineno, child.attr))
                visit(child, own_class)
        visit(tree, None)


class MethodTranslator:
    def __init__(self, analysis, meth):
        self.an = analysis
        self.m = meth
        self.loops = []
        self.tries = []
        self.locals = set()

    # -- helpers ---------------------------------------------------------------------------
    def var(self, node, tag, desc):
        key = node if isinstance(node, tuple) else id(node)
        return self.m.var((key, tag), desc)

    def definers(self, name, want_property=None):
        out = []
        for meth in self.an.by_name.get(name, []):
            if want_property is None or meth.is_property == want_property:
                out.append(meth)
        return out

    def args_of(self, vals):
        out = set()
        for val in vals:
            out |= val.all
        return tuple(sorted(out))

    def call_by_name(self, node, tag, names, recvs, args, desc):
        """x := r.name(args) for every receiver variable r and every definer of a name."""
        x = None
        for name in names:
            for meth in self.definers(name, want_property=False):
                for r in sorted(recvs):
                    if x is None:
                        x = self.var(node, tag, desc)
                    self.m.emit("call", x, meth.index, r, args)
        return V([x]) if x is not None else BOT

    def call_ext(self, node, tag, tracked, desc):
        """Code outside the four classes receives the tracked values."""
        tracked = sorted(tracked)
        if not tracked:
            return BOT
        x = self.var(node, tag, desc)
        for r in tracked:
            self.m.emit("call", x, EXT, r, tuple(t for t in tracked if t != r))
        return V([x])

    def truth_node(self, node, val):
        self.call_by_name(node, "truth", ("__bool__", "__len__"), val.objs, (),
                          "truth value of %s" % self.src(node))

    def iterate(self, node, val):
        """Elements of val: its contents, itself (a returned/loaded container is represented by
        its own variable) and what `__iter__`/`__next__`/`__getitem__` of the four classes give."""
        got = self.call_by_name(node, "iter", ("__iter__", "__next__", "__getitem__"),
                                val.objs, (), "element of %s" % self.src(node))
        return V(val.objs | val.conts | got.objs)

    def src(self, node):
        try:
            text = ast.unparse(node)
        except Exception:
            text = type(node).__name__
        text = " ".join(text.split())
        return text if len(text) <= 60 else text[:57] + "..."

    # -- driver ----------------------------------------------------------------------------
    def run(self):
        node = self.m.node
        args = node.args
        if args.posonlyargs:
            err(node, "positional-only parameters", self.m)
        names = [a.arg for a in args.args]
        if not names or names[0] != "self":
            err(node, "first parameter is not self", self.m)
        env = {"self": V([0])}
        extra = names[1:] + [a.arg for a in args.kwonlyargs]
        if args.vararg:
            extra.append(args.vararg.arg)
        if args.kwarg:
            extra.append(args.kwarg.arg)
        for pname in extra:
            vid = self.m.var(("param", pname), "parameter %s" % pname)
            self.m.params.append(vid)
            env[pname] = V([vid])
        for default in list(args.defaults) + [d for d in args.kw_defaults if d is not None]:
            if not self.is_constant(default):
                err(default, "parameter default is not a constant", self.m)
        for sub in ast.walk(node):
            if isinstance(sub, ast.Name) and isinstance(sub.ctx, (ast.Store, ast.Del)):
                self.locals.add(sub.id)
            if isinstance(sub, (ast.Yield, ast.YieldFrom)):
                self.m.is_generator = True
        self.locals |= set(env)
        self.need_void = False
        end = self.block(node.body, env)
        if end is not None:
            self.need_void = True
        if self.need_void or not any(st[0] == "ret" for st in self.m.stmts):
            void = self.m.var(("void",), "the non-object result (None / number / str / tuple)")
            self.m.emit("new", void)
            self.m.emit("ret", void)

    def is_constant(self, node):
        if isinstance(node, ast.Constant):
            return True
        if isinstance(node, ast.UnaryOp) and isinstance(node.operand, ast.Constant):
            return True
        if isinstance(node, (ast.Tuple,)) and all(self.is_constant(e) for e in node.elts):
            return True
        return False

    # -- environments ----------------------------------------------------------------------
    def merge(self, envs, node):
        envs = [e for e in envs if e is not None]
        if not envs:
            return None
        if len(envs) == 1:
            return dict(envs[0])
        out = {}
        names = set()
        for e in envs:
            names |= set(e)
        for name in sorted(names):
            objs = set()
            conts = set()
            for e in envs:
                val = e.get(name, BOT)
                objs |= val.objs
                conts |= val.conts
            if len(objs) > 1:
                phi = self.var(node, "phi:" + name, "φ %s" % name)
                for o in sorted(objs):
                    if o != phi:
                        self.m.emit("mov", phi, o)
                objs = {phi}
            out[name] = V(objs, conts)
        return out

    # -- statements ------------------------------------------------------------------------
    def block(self, stmts, env):
        for st in stmts:
            if env is None:
                return None
            env = self.stmt(st, env)
        return env

    def stmt(self, node, env):
        out = self.stmt1(node, env)
        # an exception may leave a `try` body after any statement, at any depth
        for frame in self.tries:
            if out is not None:
                frame.append(dict(out))
        return out

    def try_stmt(self, node, env):
        """try/except/else/finally: a handler may start in the environment before the body or
        after any statement inside it; `finally` runs on every way out."""
        if getattr(node, "handlers", None) is None or type(node).__name__ == "TryStar":
            err(node, "try* statement", self.m)
        if node.finalbody:
            for part in node.body + node.handlers + node.orelse:
                for sub in ast.walk(part):
                    if isinstance(sub, (ast.Break, ast.Continue)):
                        err(sub, "break / continue inside try ... finally", self.m)
        seen = [dict(env)]
        self.tries.append(seen)
        body_end = self.block(node.body, dict(env))
        self.tries.pop()
        ends = [self.block(node.orelse, body_end) if body_end is not None else None]
        entry = self.merge(seen, ("try", id(node)))
        for handler in node.handlers:
            henv = dict(entry)
            if handler.type is not None:
                self.ev(handler.type, henv)
            if handler.name:
                henv[handler.name] = BOT      # exception objects are not tracked values
            ends.append(self.block(handler.body, henv))
        if not node.finalbody:
            return self.merge(ends, ("tryend", id(node)))
        normal = self.merge(ends, ("tryend", id(node)))
        # once for every way out (also exceptions and returns), once for the normal continuation
        self.block(node.finalbody, self.merge(seen + [e for e in ends if e is not None],
                                              ("tryfin", id(node))))
        return self.block(node.finalbody, normal) if normal is not None else None

    def stmt1(self, node, env):
        m = self.m
        if isinstance(node, ast.Try):
            return self.try_stmt(node, env)
        if isinstance(node, ast.Expr):
            if isinstance(node.value, ast.Yield):
                val = self.ev(node.value.value, env) if node.value.value is not None else BOT
                self.emit_ret(val)
                return env
            if isinstance(node.value, (ast.YieldFrom, ast.Await)):
                err(node, "yield from / await", m)
            self.ev(node.value, env)
            return env
        if isinstance(node, ast.Assign):
            val = self.ev(node.value, env)
            for tgt in node.targets:
                self.assign(tgt, val, env)
            return env
        if isinstance(node, ast.AnnAssign):
            if node.value is not None:
                self.assign(node.target, self.ev(node.value, env), env)
            return env
        if isinstance(node, ast.AugAssign):
            return self.augassign(node, env)
        if isinstance(node, ast.Return):
            val = self.ev(node.value, env) if node.value is not None else BOT
            self.emit_ret(val)
            return None
        if isinstance(node, ast.Raise):
            if node.exc is not None:
                self.ev(node.exc, env)
            if node.cause is not None:
                self.ev(node.cause, env)
            return None
        if isinstance(node, ast.If):
            self.truth_node(node.test, self.ev(node.test, env))
            a = self.block(node.body, dict(env))
            b = self.block(node.orelse, dict(env))
            return self.merge([a, b], node)
        if isinstance(node, ast.While):
            return self.loop(node, env, None)
        if isinstance(node, ast.For):
            it = self.ev(node.iter, env)
            return self.loop(node, env, self.iterate(node.iter, it))
        if isinstance(node, ast.Break):
            self.loops[-1]["breaks"].append(dict(env))
            return None
        if isinstance(node, ast.Continue):
            self.loops[-1]["continues"].append(dict(env))
            return None
        if isinstance(node, ast.Pass):
            return env
        if isinstance(node, ast.Assert):
            self.truth_node(node.test, self.ev(node.test, env))
            if node.msg is not None:
                self.ev(node.msg, env)
            return env
        if isinstance(node, ast.Delete):
            for tgt in node.targets:
                if isinstance(tgt, ast.Name):
                    env.pop(tgt.id, None)
                elif isinstance(tgt, ast.Attribute):
                    self.store_attr(tgt, env)
                elif isinstance(tgt, ast.Subscript):
                    self.store_subscript(tgt, BOT, env)
                else:
                    err(node, "del target", m)
            return env
        err(node, "statement %s is outside the effect IR" % type(node).__name__, m)

    def emit_ret(self, val):
        if not val:
            self.need_void = True
            return
        for x in sorted(val.all):
            self.m.emit("ret", x)

    def loop(self, node, env, elems):
        pre = dict(env)
        head = dict(env)
        breaks = []
        for _ in range(100):
            frame = {"breaks": [], "continues": []}
            self.loops.append(frame)
            cur = dict(head)
            if elems is None:
                self.truth_node(node.test, self.ev(node.test, cur))
            else:
                self.assign(node.target, elems, cur)
            end = self.block(node.body, cur)
            self.loops.pop()
            breaks = frame["breaks"]
            new_head = self.merge([pre, end] + frame["continues"], node)
            if new_head == head:
                break
            head = new_head
        else:
            err(node, "loop environment does not stabilise", self.m)
        exit_env = dict(head)
        if elems is None:
            self.truth_node(node.test, self.ev(node.test, exit_env))
        orelse = self.block(node.orelse, exit_env)
        return self.merge([orelse] + breaks, ("exit", id(node)))

    def assign(self, tgt, val, env):
        if isinstance(tgt, ast.Name):
            env[tgt.id] = val
        elif isinstance(tgt, (ast.Tuple, ast.List)):
            inner = self.iterate(tgt, val)
            for elt in tgt.elts:
                if isinstance(elt, ast.Starred):
                    self.assign(elt.value, V((), inner.all), env)
                else:
                    self.assign(elt, inner, env)
        elif isinstance(tgt, ast.Attribute):
            self.store_attr(tgt, env)
        elif isinstance(tgt, ast.Subscript):
            self.store_subscript(tgt, val, env)
        else:
            err(tgt, "assignment target %s" % type(tgt).__name__, self.m)

    def store_attr(self, tgt, env):
        base = self.ev(tgt.value, env)
        if not base.objs:
            err(tgt, "attribute store through %s, which is not a tracked object"
                % self.src(tgt.value), self.m)
        for b in sorted(base.objs):
            self.m.emit("write", b)

    def store_subscript(self, tgt, val, env):
        base = self.ev(tgt.value, env)
        idx = self.ev(tgt.slice, env)
        self.call_by_name(tgt, "key", ("__hash__", "__eq__", "__index__"), idx.all, (), "key")
        if base.objs:
            # an element store into something loaded / passed in / returned: a write through it
            for b in sorted(base.objs):
                self.m.emit("write", b)
            self.call_by_name(tgt, "setitem", ("__setitem__", "__delitem__"), base.objs,
                              self.args_of([val]), "item store")
        elif isinstance(tgt.value, ast.Name) and tgt.value.id in env:
            cur = env[tgt.value.id]
            env[tgt.value.id] = V(cur.objs, cur.conts | val.all)
        elif (isinstance(tgt.value, ast.Name) and tgt.value.id in self.an.module_globals
              and tgt.value.id not in CLASSES and tgt.value.id not in self.locals):
            self.m.global_updates.add(tgt.value.id)
        else:
            err(tgt, "item store into %s" % self.src(tgt.value), self.m)

    def augassign(self, node, env):
        tgt = node.target
        right = self.ev(node.value, env)
        names = BINOPS.get(type(node.op))
        if names is None:
            err(node, "operator", self.m)
        if isinstance(tgt, ast.Name):
            cur = env.get(tgt.id, BOT)
            env[tgt.id] = self.binop(node, cur, right, names, inplace=True)
        elif isinstance(tgt, ast.Attribute):
            base = self.ev(tgt.value, env)
            if not base.objs:
                err(tgt, "augmented attribute store through a non-object", self.m)
            cur = self.load_attr(tgt, base, tgt.attr)
            self.binop(node, cur, right, names, inplace=True)
            for b in sorted(base.objs):
                self.m.emit("write", b)
        elif isinstance(tgt, ast.Subscript):
            base = self.ev(tgt.value, env)
            cur = self.iterate(tgt, base)
            res = self.binop(node, cur, right, names, inplace=True)
            self.store_subscript(tgt, res, env)
        else:
            err(node, "augmented assignment target", self.m)
        return env

    # -- expressions -----------------------------------------------------------------------
    def binop(self, node, left, right, names, inplace=False):
        normal, reflected, inpl = names
        res = BOT
        if inplace:
            res = res | self.call_by_name(node, "bin", (inpl,), left.objs, self.args_of([right]),
                                          self.src(node))
        res = res | self.call_by_name(node, "bin", (normal,), left.objs, self.args_of([right]),
                                      self.src(node))
        res = res | self.call_by_name(node, "bin", (reflected,), right.objs,
                                      self.args_of([left]), self.src(node))
        # concatenation / repetition of syntactic containers keeps their contents
        return V(res.objs, left.conts | right.conts)

    def load_attr(self, node, base, attr):
        """x := b.attr for tracked b."""
        if not base.objs:
            return BOT
        if attr in META_ATTRS:
            return BOT
        if attr.startswith("__") and attr.endswith("__"):
            err(node, "dunder attribute %s used as a value" % attr, self.m)
        plain = self.definers(attr, want_property=False)
        if plain:
            err(node, "bound method %s escapes as a value" % attr, self.m)
        x = self.var(node, "load", "%s" % self.src(node))
        for b in sorted(base.objs):
            self.m.emit("load", x, b)
        for meth in self.definers(attr, want_property=True):
            for b in sorted(base.objs):
                self.m.emit("call", x, meth.index, b, ())
        return V([x])

    def ev(self, node, env):
        m = self.m
        if node is None:
            return BOT
        if isinstance(node, ast.Constant):
            return BOT
        if isinstance(node, ast.Name):
            if node.id in env:
                return env[node.id]
            if node.id in self.locals:
                return BOT          # not (yet) bound on this path
            return BOT              # module global / builtin: untracked
        if isinstance(node, ast.Attribute):
            base = self.ev(node.value, env)
            return self.load_attr(node, base, node.attr)
        if isinstance(node, ast.Subscript):
            base = self.ev(node.value, env)
            idx = self.ev(node.slice, env)
            self.call_by_name(node, "key", ("__hash__", "__eq__", "__index__"), idx.all, (), "key")
            got = self.call_by_name(node, "item", ("__getitem__",), base.objs,
                                    self.args_of([idx]), self.src(node))
            return V(base.objs | base.conts | got.objs)
        if isinstance(node, ast.Slice):
            return self.ev(node.lower, env) | self.ev(node.upper, env) | self.ev(node.step, env)
        if isinstance(node, (ast.Tuple, ast.List, ast.Set)):
            out = set()
            for elt in node.elts:
                if isinstance(elt, ast.Starred):
                    out |= self.iterate(elt, self.ev(elt.value, env)).all
                else:
                    out |= self.ev(elt, env).all
            return V((), out)
        if isinstance(node, ast.Dict):
            out = set()
            for key, val in zip(node.keys, node.values):
                if key is None:
                    out |= self.iterate(val, self.ev(val, env)).all
                else:
                    kv = self.ev(key, env)
                    self.call_by_name(key, "key", ("__hash__", "__eq__"), kv.all, (), "dict key")
                    out |= kv.all | self.ev(val, env).all
            return V((), out)
        if isinstance(node, ast.Starred):
            return V((), self.iterate(node, self.ev(node.value, env)).all)
        if isinstance(node, ast.JoinedStr):
            for part in node.values:
                if isinstance(part, ast.FormattedValue):
                    val = self.ev(part.value, env)
                    self.call_by_name(part, "fmt", ("__format__", "__str__", "__repr__"),
                                      val.all, (), "formatting")
                    if part.format_spec is not None:
                        self.ev(part.format_spec, env)
            return BOT
        if isinstance(node, ast.BinOp):
            left = self.ev(node.left, env)
            right = self.ev(node.right, env)
            names = BINOPS.get(type(node.op))
            if names is None:
                err(node, "operator", m)
            if isinstance(node.op, ast.Mod) and not left.objs:
                # "…%s" % values: printf-style formatting looks at the values
                self.call_by_name(node, "pct", ("__str__", "__repr__", "__int__", "__float__",
                                                "__index__"), right.all, (), "%-formatting")
            return self.binop(node, left, right, names)
        if isinstance(node, ast.UnaryOp):
            val = self.ev(node.operand, env)
            if isinstance(node.op, ast.Not):
                self.truth_node(node, val)
                return BOT
            return self.call_by_name(node, "un", (UNARYOPS[type(node.op)],), val.objs, (),
                                     self.src(node))
        if isinstance(node, ast.BoolOp):
            out = BOT
            for sub in node.values:
                val = self.ev(sub, env)
                self.truth_node(sub, val)
                out = out | val
            return out
        if isinstance(node, ast.IfExp):
            self.truth_node(node.test, self.ev(node.test, env))
            return self.ev(node.body, env) | self.ev(node.orelse, env)
        if isinstance(node, ast.Compare):
            return self.compare(node, env)
        if isinstance(node, ast.Call):
            return self.call(node, env)
        if isinstance(node, (ast.ListComp, ast.SetComp, ast.GeneratorExp, ast.DictComp)):
            inner = dict(env)
            for gen in node.generators:
                if gen.is_async:
                    err(node, "async comprehension", m)
                it = self.ev(gen.iter, inner)
                self.assign(gen.target, self.iterate(gen.iter, it), inner)
                for cond in gen.ifs:
                    self.truth_node(cond, self.ev(cond, inner))
            if isinstance(node, ast.DictComp):
                kv = self.ev(node.key, inner)
                self.call_by_name(node.key, "key", ("__hash__", "__eq__"), kv.all, (), "dict key")
                out = kv.all | self.ev(node.value, inner).all
            else:
                out = self.ev(node.elt, inner).all
            return V((), out)
        err(node, "expression %s is outside the effect IR" % type(node).__name__, m)

    def compare(self, node, env):
        left = self.ev(node.left, env)
        res = BOT
        for i, (op, rnode) in enumerate(zip(node.ops, node.comparators)):
            right = self.ev(rnode, env)
            if isinstance(op, (ast.Is, ast.IsNot)):
                pass
            elif isinstance(op, (ast.In, ast.NotIn)):
                elems = self.iterate(rnode, right)
                self.call_by_name(node, "in%d" % i, ("__contains__",), right.objs,
                                  self.args_of([left]), self.src(node))
                both = left.all | elems.all
                self.call_by_name(node, "ineq%d" % i, ("__eq__", "__hash__"), both,
                                  tuple(sorted(both)), "membership test")
            else:
                lnames, rnames = CMPOPS[type(op)]
                # containers compare element-wise
                res = res | self.call_by_name(node, "cmp%d" % i, lnames, left.all,
                                              self.args_of([right]), self.src(node))
                res = res | self.call_by_name(node, "cmp%d" % i, rnames, right.all,
                                              self.args_of([left]), self.src(node))
            left = right
        return V(res.objs)

    def call_args(self, node, env):
        vals = []
        for arg in node.args:
            if isinstance(arg, ast.Starred):
                vals.append(self.iterate(arg, self.ev(arg.value, env)))
            else:
                vals.append(self.ev(arg, env))
        for kw in node.keywords:
            val = self.ev(kw.value, env)
            if kw.arg is None:
                val = self.iterate(kw.value, val)
            vals.append(val)
        return vals

    def construct(self, node, env, inits, what):
        vals = self.call_args(node, env)
        x = self.var(node, "new", "new %s" % what)
        self.m.emit("new", x)
        res = self.var(node, "init", "result of %s.__init__" % what)
        for init in inits:
            self.m.emit("call", res, init.index, x, self.args_of(vals))
        return V([x])

    def call(self, node, env):
        m = self.m
        func = node.func
        # -- plain names: constructors, builtins, module-level helpers --------------------------
        if isinstance(func, ast.Name) and func.id not in env and func.id not in self.locals:
            name = func.id
            if name in CLASSES:
                return self.construct(node, env, [self.an.class_init[name]], name)
            if name in FORBIDDEN_CALLS:
                err(node, "call of %s()" % name, m)
            if name == "getattr" or name == "hasattr":
                return self.getattr_call(node, env, name)
            if name == "setattr":
                if len(node.args) != 3 or node.keywords:
                    err(node, "setattr form", m)
                base = self.ev(node.args[0], env)
                self.ev(node.args[1], env)
                self.ev(node.args[2], env)
                if not base.objs:
                    err(node, "setattr on %s, which is not a tracked object"
                        % self.src(node.args[0]), m)
                for b in sorted(base.objs):
                    self.m.emit("write", b)
                return BOT
            vals = self.call_args(node, env)
            if name in PURE_BUILTINS:
                return BOT
            if name in DUNDER_BUILTINS:
                tracked = set()
                for val in vals:
                    tracked |= val.all
                return self.call_by_name(node, "builtin", DUNDER_BUILTINS[name], tracked,
                                         tuple(sorted(tracked)), self.src(node))
            if name in PASS_BUILTINS:
                out = set()
                for val, arg in zip(vals, list(node.args) + [k.value for k in node.keywords]):
                    out |= self.iterate(arg, val).all
                if name in ("sorted", "min", "max", "sum", "any", "all", "set", "frozenset",
                            "dict"):
                    extra = {"sorted": ("__lt__", "__gt__"), "min": ("__lt__", "__gt__"),
                             "max": ("__lt__", "__gt__"), "sum": ("__add__", "__radd__"),
                             "any": ("__bool__", "__len__"), "all": ("__bool__", "__len__"),
                             "set": ("__hash__", "__eq__"), "frozenset": ("__hash__", "__eq__"),
                             "dict": ("__hash__", "__eq__")}[name]
                    got = self.call_by_name(node, "builtin", extra, out, tuple(sorted(out)),
                                            self.src(node))
                    if name == "sum":
                        return V(got.objs)
                    if name in ("any", "all"):
                        return BOT
                if name in ("min", "max", "next"):
                    return V(out)
                return V((), out)
            if (name in self.an.module_funcs or name in self.an.imports
                    or is_builtin_exception(name)):
                tracked = set()
                for val in vals:
                    tracked |= val.all
                return self.call_ext(node, "ext", tracked, self.src(node))
            err(node, "call of unknown global %s()" % name, m)
        # -- the comparison table `_operator_map[op](a, b)` --------------------------------------
        if (isinstance(func, ast.Subscript) and isinstance(func.value, ast.Name)
                and func.value.id == "_operator_map" and "_operator_map" not in self.locals):
            self.check_operator_map(node)
            vals = self.call_args(node, env)
            self.ev(func.slice, env)
            if len(vals) != 2:
                err(node, "_operator_map[...] called with %d arguments" % len(vals), m)
            res = BOT
            for lnames, rnames in CMPOPS.values():
                res = res | self.call_by_name(node, "opmap", lnames, vals[0].all,
                                              self.args_of([vals[1]]), self.src(node))
                res = res | self.call_by_name(node, "opmap", rnames, vals[1].all,
                                              self.args_of([vals[0]]), self.src(node))
            return V(res.objs)
        if not isinstance(func, ast.Attribute):
            err(node, "call through %s" % type(func).__name__, m)
        # -- self.__class__(…) ---------------------------------------------------------------------
        if func.attr == "__class__":
            base = self.ev(func.value, env)
            if not base.objs:
                err(node, "__class__ of a non-object", m)
            inits = [meth for meth in self.an.methods[1:] if meth.short == "__init__"]
            return self.construct(node, env, inits, "%s.__class__" % self.src(func.value))
        name = func.attr
        # -- Class.method(obj, …) ------------------------------------------------------------------
        if (isinstance(func.value, ast.Name) and func.value.id in CLASSES
                and func.value.id not in env):
            if not node.args or isinstance(node.args[0], ast.Starred):
                err(node, "unbound method call without a receiver", m)
            recv = self.ev(node.args[0], env)
            rest = ast.Call(func=func, args=node.args[1:], keywords=node.keywords)
            vals = self.call_args(rest, env)
            if not self.definers(name, want_property=False) or not recv.objs:
                err(node, "unbound call %s" % self.src(node), m)
            return self.call_by_name(node, "call", (name,), recv.objs, self.args_of(vals),
                                     self.src(node))
        recv = self.ev(func.value, env)
        vals = self.call_args(node, env)
        tracked = set()
        for val in vals:
            tracked |= val.all
        if recv.objs:
            if self.definers(name, want_property=True):
                err(node, "property %s is called" % name, m)
            if self.definers(name, want_property=False):
                return self.call_by_name(node, "call", (name,), recv.objs, self.args_of(vals),
                                         self.src(node))
            # a method none of the four classes defines, on a loaded / passed / returned value
            if name in CONTAINER_MUTATORS:
                for b in sorted(recv.objs):
                    self.m.emit("write", b)
            x = self.var(node, "mload", self.src(node))
            for b in sorted(recv.objs):
                self.m.emit("load", x, b)
            ext = self.call_ext(node, "ext", tracked, self.src(node))
            return V({x} | ext.objs, recv.conts)
        # receiver is untracked or a local container
        if name in CONTAINER_MUTATORS and recv.conts is not None and isinstance(
                func.value, ast.Name) and func.value.id in env:
            cur = env[func.value.id]
            env[func.value.id] = V(cur.objs, cur.conts | tracked)
            return V(cur.conts) if name in ("pop", "popitem", "setdefault") else BOT
        if name in CONTAINER_MUTATORS and recv.conts:
            err(node, "container mutation through %s" % self.src(func.value), m)
        ext = self.call_ext(node, "ext", tracked, self.src(node))
        return V(ext.objs, recv.conts)

    def getattr_call(self, node, env, fname):
        m = self.m
        if node.keywords or len(node.args) not in (2, 3):
            err(node, "%s form" % fname, m)
        base = self.ev(node.args[0], env)
        default = self.ev(node.args[2], env) if len(node.args) == 3 else BOT
        key = node.args[1]
        if isinstance(key, ast.Constant) and isinstance(key.value, str):
            attr = key.value
            if self.definers(attr, want_property=False) and not self.definers(
                    attr, want_property=True):
                # a bound method object; only `callable(…)`/truth of it is ever taken
                return default if fname == "getattr" else BOT
            got = self.load_attr(node, base, attr)
        else:
            self.ev(key, env)
            if not base.objs:
                got = BOT
            else:
                # any slot or any property of the object
                x = self.var(node, "load", self.src(node))
                for b in sorted(base.objs):
                    self.m.emit("load", x, b)
                    self.m.emit("call", x, EXT, b, ())
                got = V([x])
        if fname == "hasattr":
            return BOT
        return got | default

    def check_operator_map(self, node):
        for item in self.an.tree.body:
            if (isinstance(item, ast.Assign) and len(item.targets) == 1
                    and isinstance(item.targets[0], ast.Name)
                    and item.targets[0].id == "_operator_map"):
                val = item.value
                ok = (isinstance(val, ast.DictComp) and len(val.generators) == 1
                      and isinstance(val.generators[0].iter, ast.List)
                      and all(isinstance(e, ast.Attribute) and isinstance(e.value, ast.Name)
                              and e.value.id == "operator"
                              and e.attr in ("eq", "ne", "lt", "le", "gt", "ge")
                              for e in val.generators[0].iter.elts))
                if ok:
                    return
        err(node, "_operator_map is not the table of operator.eq/lt/le/gt/ge", self.m)


# ---------------------------------------------------------------------------------------------
# output

def data_path():
    return os.path.join(common.REPO, "metomi", "isodatetime", "data.py")


_cache = {}


def analyse(path=None):
    path = path or data_path()
    stat = os.stat(path)
    key = (os.path.realpath(path), stat.st_mtime_ns, stat.st_size)
    if key not in _cache:
        _cache.clear()
        _cache[key] = Analysis(path)
    return _cache[key]


def lean_stmt(st):
    if st[0] == "call":
        return ".call %d %d %d [%s]" % (st[1], st[2], st[3], ", ".join(str(a) for a in st[4]))
    return ".%s %s" % (st[0], " ".join(str(a) for a in st[1:]))


def wrap(items, indent, width=100):
    lines = []
    cur = ""
    for item in items:
        piece = item + ", "
        if cur and len(indent) + len(cur) + len(piece) > width:
            lines.append(indent + cur.rstrip())
            cur = ""
        cur += piece
    if cur:
        lines.append(indent + cur.rstrip().rstrip(","))
    return "\n".join(lines)


def lean_comment_safe(text):
    return text.replace("-/", "- /").replace("/-", "/ -")


ASSUMPTIONS = [
    "Python's object model as far as the four classes use it: __slots__ instances, attribute "
    "stores only via assignment / augmented assignment / setattr / del, allocation only via a "
    "constructor call",
    "methods are resolved by name over the four classes; values for which no class defines the "
    "called name (numbers, strings, tuples, dicts, None) are immutable or local to the call",
    "operands of + - * // % that are parameters, loaded attributes or call results are numbers or "
    "objects of the four classes, not containers of them",
    "code outside the four classes (dumpers, timezone, module-level helpers, str.format, "
    "operator.*) uses the objects it is handed through public methods and attribute reads only "
    "(entry 0); the translator scans the package for attribute stores to slot names, setattr, "
    "__dict__ and calls of mutators and fails if it finds one",
    "a generator's body is accounted for at the call that creates it; it may write objects it "
    "allocates itself, never its receiver (public: checked by allOk; private: rejected)",
    "module-level containers updated by methods are outside the four value types: %s",
]


def render(an):
    out = [_translate().HEADER.replace("harness/translate.py", "harness/gen_effects.py"),
           "import IsoDT.Model.Effects", "", "namespace IsoDT.Gen.Effects",
           "open IsoDT.Model.Effects", ""]
    out.append("/-! Effect IR of `metomi/isodatetime/data.py`.  Variable 0 is `self`.  "
               "Calls name table indices:")
    for meth in an.methods:
        out.append("  %3d  %s%s" % (meth.index, lean_comment_safe(meth.name),
                                    "  (property)" if meth.is_property else ""))
    out.append("-/")
    out.append("")
    for meth in an.methods:
        legend = ["%d = %s" % (x, lean_comment_safe(d)) for x, d in sorted(meth.desc.items())]
        out.append("/-- `%s`%s%s.  Variables:" % (
            lean_comment_safe(meth.name), " (public)" if meth.pub else "",
            " (generator: `ret` = yield)" if meth.is_generator else ""))
        for item in legend:
            out.append("      " + item)
        out.append("-/")
        fresh = sorted(x for x, k in meth.kinds.items() if k == FRESH and x != 0
                       and x not in meth.params)
        frs = sorted(x for x, k in meth.kinds.items() if k == FRS and x != 0)
        out.append("def m%d : Method :=" % meth.index)
        out.append("  { name := %s, pub := %s, params := [%s]," % (
            lean_str(meth.name), "true" if meth.pub else "false",
            ", ".join(str(p) for p in meth.params)))
        out.append("    body := [")
        out.append(wrap([lean_stmt(st) for st in meth.stmts], "      "))
        out.append("    ],")
        out.append("    fresh := [%s]," % ", ".join(str(x) for x in fresh))
        out.append("    frs := [%s]," % ", ".join(str(x) for x in frs))
        out.append("    sum := ⟨%s, .%s⟩ }" % ("true" if meth.writes_recv else "false",
                                               RETNAME[meth.ret]))
        out.append("")
    out.append("def table : List Method := [")
    out.append(wrap(["m%d" % meth.index for meth in an.methods], "  "))
    out.append("]")
    out.append("")
    out.append("/-! Assumptions of the Python → IR reading:")
    for item in ASSUMPTIONS:
        if "%s" in item:
            item = item % (", ".join(sorted(an.global_updates)) or "none")
        out.append("  * " + lean_comment_safe(item))
    out.append("-/")
    out.append("")
    out.append("end IsoDT.Gen.Effects")
    return "\n".join(out) + "\n"


def gen_effects():
    """Lean source of IsoDT/Gen/Effects.lean for the tree under check."""
    return render(analyse())


def summaries(path=None):
    """name -> dict(pub, writes_recv, ret, has_write, property, generator), for the harness."""
    an = analyse(path)
    out = {}
    for meth in an.methods[1:]:
        out[meth.name] = {
            "pub": meth.pub, "writes_recv": meth.writes_recv, "ret": RETNAME[meth.ret],
            "has_write": any(st[0] == "write" for st in meth.stmts),
            "property": meth.is_property, "generator": meth.is_generator,
            "statements": len(meth.stmts)}
    return out


def main(argv):
    try:
        text = gen_effects()
    except _translate().TranslateError as exc:
        print("TRANSLATE-FAIL Effects: %s" % exc)
        return 3
    path = os.path.join(common.GEN_DIR, "Effects.lean")
    if "--stdout" in argv:
        sys.stdout.write(text)
        return 0
    changed = common.write_if_changed(path, text)
    an = analyse()
    nst = sum(len(meth.stmts) for meth in an.methods)
    bad, nroots = an.uncertifiable()
    print("gen_effects: %d methods, %d statements, %s" % (
        len(an.methods), nst, "regenerated Gen/Effects.lean" if changed else "unchanged"))
    for item in bad[:max(6, min(nroots, 12))]:
        print("gen_effects: allOk will fail: " + item)
    if len(bad) > max(6, min(nroots, 12)):
        print("gen_effects: ... and %d consequential rejections" % (
            len(bad) - max(6, min(nroots, 12))))
    return 0


if __name__ == "__main__":
    sys.exit(main(sys.argv[1:]))
