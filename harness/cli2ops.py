"""Op for the evaluating model of the command line (lean/IsoDT/Model/Cli2.lean, driver op `clieval`): the real
`metomi.isodatetime.main.main(argv)` run in-process against what the model says the command prints / how it exits.
Ported from the stand-alone script validate_cli2.py; the cases are `props.c19.Case`s (its generator plus the
families of the script), a case tuple is `Case.key()` with the two flags as 0 / 1.

    clieval <tzh> <tzm> <envCal|_> <envRef|_> <version01> <utc01> <max> <asTotal|_> <calendar|_>
            <parseFmt|_> <printFmt|_> <ref|_> I <n> <items...> A <n> <offsets1...> B <n> <offsets2...>
        -> OUT <hex of stdout> | EXIT <class> | TRACEBACK <class> | OUTSIDE <why>

What the driver is given is the record `parse_args` returns.  `post_args` computes it from the case alone (the
option spellings `Case.argv()` produces are known): the `-P` escaping, the back-slashes removed from offsets, the
defaults, a value glued to a one-letter option (`-155788-W08-1` is `-1 55788-W08-1`: an offset).  A case argparse
itself would refuse (a value outside an option's choices, an argument that starts with `-` and is not an option)
never reaches the model and is left out of the stream, as the script left it out of the comparison; `impl` checks
`post_args` against the real `parse_args` and says `ARGS-MISMATCH` if they differ.  Also left out: recurrences
given by two points more than MAX_SPAN_YEARS apart (`long_span`; the script met them as time-outs).

Canonical answers: `OUT <hex of stdout without trailing newlines>`; `EXIT <class>` with the class read off the
message (the model does not produce the wording): offset / unit / dump / recurrence / duration, `point|arith` for
any other message (the two model classes whose messages are not told apart), `any` for the "values to unpack"
message (every model class accepted), `empty` for an exit without a message; `TRACEBACK <exception class>`.
`OUTSIDE <why>` (the model makes no claim: the clock, stdin, --version, the datetime/time fallbacks, ...) is
counted in the label and never compared.
"""
import io
import re
import contextlib

from engine import Op
from strf2ops import ModelSkips, tup


def _c19():
    from props import c19      # not at import time: props.c19 is going to import this module
    return c19


FLAGS = {"--utc": "utc", "-u": "utc", "--version": "version", "-V": "version"}
VALUED = {"--offset1": "offsets1", "--offset": "offsets1", "-s": "offsets1", "-1": "offsets1",
          "--offset2": "offsets2", "-2": "offsets2", "--as-total": "as_total", "--calendar": "calendar",
          "--parse-format": "parse_format", "-p": "parse_format", "--print-format": "print_format",
          "--format": "print_format", "-f": "print_format", "--ref": "ref", "-R": "ref"}
TOTAL_UNITS = ("H", "M", "S", "h", "m", "s")
CALENDARS = ("360day", "365day", "366day", "gregorian")


def mk_case(a):
    (items, offsets1, offsets2, as_total, calendar, max_results, parse_format, print_format, ref, utc, version,
     env_calendar, env_ref, local_tz, spell_seed) = a
    return _c19().Case(list(items), offsets1=list(offsets1), offsets2=list(offsets2), as_total=as_total,
                       calendar=calendar, max_results=max_results, parse_format=parse_format,
                       print_format=print_format, ref=ref, utc=bool(utc), version=bool(version),
                       env_calendar=env_calendar, env_ref=env_ref, local_tz=tuple(local_tz), spell_seed=spell_seed)


def case_tuple(case):
    k = case.key()
    return tup(k[:9] + (1 if k[9] else 0, 1 if k[10] else 0) + k[11:])


def post_args(case):
    """The fields of the namespace `parse_args(case.argv())` returns, or None where argparse refuses (or where
    this reading is not sure that it accepts)."""
    out = dict(items=[], offsets1=[], offsets2=[], as_total=None, calendar=None, max_results=10,
               parse_format=None, print_format=None, ref=None, utc=False, version=False)
    argv = ["\\" + arg if arg.startswith("-P") else arg for arg in case.argv()]
    i = 0
    while i < len(argv):
        tok = argv[i]
        i += 1
        if tok in FLAGS:
            out[FLAGS[tok]] = True
            continue
        if tok.startswith("--max="):
            try:
                out["max_results"] = int(tok[6:])
            except ValueError:
                return None
            continue
        name, eq, value = tok.partition("=")
        if tok in VALUED:
            if i >= len(argv) or argv[i].startswith("-"):
                return None           # the next argument looks like an option: "expected one argument"
            name, value = tok, argv[i]
            i += 1
        elif len(tok) > 2 and tok[1] != "-" and tok[:2] in VALUED and not eq:
            name, value = tok[:2], tok[2:]      # `-1VALUE`: an expanded negative year that starts -1 / -2 ends up here
        elif not (tok.startswith("--") and eq and name in VALUED):
            if tok.startswith("-"):
                return None           # not an option this parser knows ("-" alone would be stdin: left out too)
            out["items"].append(tok)
            continue
        dest = VALUED[name]
        if dest in ("offsets1", "offsets2"):
            out[dest].append(value.replace("\\", ""))
            continue
        if (dest == "as_total" and value not in TOTAL_UNITS) or (dest == "calendar" and value not in CALENDARS):
            return None
        out[dest] = value
    return out


def real_args(case):
    """The same fields from the real parse_args; None if it exits."""
    from metomi.isodatetime import main as cli
    try:
        with contextlib.redirect_stdout(io.StringIO()), contextlib.redirect_stderr(io.StringIO()):
            ns = cli.parse_args(case.argv())
    except SystemExit:
        return None
    return dict(items=list(ns.items), offsets1=list(ns.offsets1 or []), offsets2=list(ns.offsets2 or []),
                as_total=ns.duration_print_format, calendar=ns.calendar, max_results=ns.max_results,
                parse_format=ns.parse_format, print_format=ns.print_format, ref=ns.ref_point_str,
                utc=bool(ns.utc_mode), version=bool(ns.version_mode))


def msg_class(msg):
    if msg.endswith(": bad offset value"):
        return "offset"
    if msg.startswith("Invalid duration print format"):
        return "unit"
    if msg.startswith("Cannot dump TimePoint") or (msg.startswith("year ") and "out of range" in msg):
        return "dump"
    if msg.startswith("Invalid ISO 8601 recurrence") or msg.startswith("Invalid recurrence info"):
        return "recurrence"
    if msg.startswith("Invalid ISO 8601 duration"):
        return "duration"
    if msg.startswith("Invalid input for repetitions") or "repetitions" in msg:
        return "recurrence"
    if "values to unpack" in msg:
        return "any"
    return None     # point, or something this mapping does not recognise


def canon_cli(got):
    """run_cli's 'OUT:<stdout>' | 'EXIT:<code>:<message>' | 'TRACEBACK:<class>' in the model's vocabulary."""
    c19 = _c19()
    if got.startswith("OUT:"):
        return "OUT " + c19.hx(got[4:].rstrip("\n"))
    if got.startswith("EXIT:1:"):
        msg = got[7:]
        if msg == "":
            return "EXIT empty"
        return "EXIT " + (msg_class(msg) or "point|arith")
    if got.startswith("EXIT:"):
        return "EXIT" + got[5:].replace(":", " ", 1)      # e.g. `EXIT2 usage`: argparse, never the model's
    return got.replace(":", " ", 1)


# ---------------------------------------------------------------------------------------------------------
# the script's own case families

def year_text(rng):
    r = rng.random()
    if r < 0.6:
        return "%04d" % rng.choice([0, 1, 4, 99, 100, 400, 1582, 1900, 1999, 2000, 2004, 2020, 9998, 9999,
                                    rng.randint(0, 9999)])
    y = rng.choice([0, 1, 9999, 10000, 12345, 999999, rng.randint(0, 999999)])
    return rng.choice("+-") + "%06d" % y


def iso_point(rng, mode):
    """Any ISO 8601 spelling the default parser may or may not accept."""
    y = year_text(rng)
    ext = rng.random() < 0.6
    sep = "-" if ext else ""
    kind = rng.random()
    if kind < 0.45:
        mo = rng.choice([1, 2, 2, 12, rng.randint(1, 12), 13, 0])
        d = rng.choice([1, 28, 29, 30, 31, rng.randint(1, 31), 0, 32])
        date = "%s%s%02d%s%02d" % (y, sep, mo, sep, d)
    elif kind < 0.65:
        date = "%s%s%03d" % (y, sep, rng.choice([1, 59, 60, 365, 366, 360, 361, rng.randint(1, 366), 0, 367]))
    elif kind < 0.85:
        date = "%s%sW%02d%s%d" % (y, sep, rng.choice([1, 52, 53, rng.randint(1, 53), 0, 54]), sep,
                                  rng.choice([1, 7, rng.randint(1, 7), 0, 8]))
    elif kind < 0.9:
        date = "%s%sW%02d" % (y, sep, rng.randint(1, 53))
    else:
        date = rng.choice([y, y + "-%02d" % rng.randint(1, 12), y[:-2]])
        return date
    if rng.random() < 0.15:
        return date
    hh = rng.choice([0, 12, 23, 24, rng.randint(0, 23), 25])
    mi = rng.choice([0, 30, 59, rng.randint(0, 59), 60])
    ss = rng.choice([0, 30, 59, rng.randint(0, 59), 60])
    if hh == 24 and rng.random() < 0.8:
        mi = ss = 0
    csep = ":" if ext else ""
    form = rng.random()
    if form < 0.6:
        time = "%02d%s%02d%s%02d" % (hh, csep, mi, csep, ss)
    elif form < 0.8:
        time = "%02d%s%02d" % (hh, csep, mi)
    elif form < 0.92:
        time = "%02d" % hh
    else:
        time = rng.choice(["%02d,5" % hh, "%02d%s%02d,25" % (hh, csep, mi),
                           "%02d%s%02d%s%02d.5" % (hh, csep, mi, csep, ss)])
    z = rng.random()
    if z < 0.3:
        zone = ""
    elif z < 0.55:
        zone = "Z"
    else:
        zh = rng.choice([0, 1, 5, 9, 12, 13, 14, 23, rng.randint(0, 23)])
        zm = rng.choice([0, 0, 30, 45, rng.randint(0, 59)])
        s = rng.choice("+-")
        zone = rng.choice(["%s%02d" % (s, zh), "%s%02d%s%02d" % (s, zh, csep, zm)])
    return date + "T" + time + zone


def dur_text(rng):
    r = rng.random()
    if r < 0.5:
        return _c19().offset_text(rng)
    sign = rng.choice(["", "", "-", "+", "--", "+-"])
    parts = "P"
    for u in "YMD":
        if rng.random() < 0.4:
            parts += "%d%s" % (rng.choice([0, 1, 2, 11, 12, 13, 30, 31, 365, 400, rng.randint(0, 500)]), u)
    t = ""
    for u in "HMS":
        if rng.random() < 0.4:
            t += "%d%s" % (rng.choice([0, 1, 23, 24, 25, 59, 60, 61, 3600, 86400, rng.randint(0, 100000)]), u)
    if t:
        parts += "T" + t
    if parts == "P":
        parts = rng.choice(["P0Y", "P", "PT", "P1W", "P52W", "P0W", "P1W1D", "P1Y1W"])
    return sign + parts


ISO_FORMATS = ["CCYY-MM-DDThh:mm:ssZ", "CCYYMMDDThhmmss+hhmm", "CCYY-DDD", "CCYY-Www-D", "CCYY",
               "CCYY-MM-DDThh:mm:ss+05:30", "CCYY-MM-DDThh+hh", "CCYYDDDThhmmZ", "CCYY-MM-DDThh:mm:ss+hh:mm",
               "+XCCYY-MM-DDThh:mm:ss", "CCYYWwwDThh", "YY-MM-DD", "CCYY-MM-DDThh:mm:ss-0330",
               "CCYY-MM-DDThh:mm:ss-03", "hh:mm", "Thh:mm:ss", "CCYY-MM-DDThh,ii", "CCYY-MM-DDThh:mm,nn",
               "DD/MM/CCYY", "CCYY-MM-DDThh+hh+hh", "garbage", "CCYY-MM-DDTZ", "MM", "DDD", "Www-D",
               "CCYY-MM-DDThh:mm:ss+hh", "\xb1XCCYY", "CCYY-MM-DDThh:mm:ss,tt", "CCYY-MM-DDThh:mm:ss.ttZ"]
PCT_FORMATS = ["%Y-%m-%dT%H:%M:%S", "%Y%m%dT%H%M", "%j %H", "%F %X %z", "%s", "%Y", "%d/%m/%y", "%H:%M:%S%z",
               "%Y-%j", "%a", "%%", "%", "%Y%", "%Q", "%F_%T"]


def more_cases(rng, n):
    c19 = _c19()
    Case = c19.Case
    CALS = c19.CALS
    for i in range(n):
        cal = rng.choice(CALS)
        env_cal = rng.choice([None, None, None, "360day", "gregorian", "365_day", "GREGORIAN", "366DAY", ""])
        m = c19.MODE_OF.get(cal if cal else env_cal, "greg") if (cal if cal else env_cal) in c19.MODE_OF else "greg"
        common = dict(calendar=cal, env_calendar=env_cal, utc=rng.random() < 0.5,
                      local_tz=rng.choice(c19.LOCAL_TZ), spell_seed=rng.getrandbits(30))
        r = rng.random()
        pf = rng.choice([None, None, None] + ISO_FORMATS) if rng.random() < 0.75 else rng.choice(PCT_FORMATS)
        if r < 0.4:
            offs = [dur_text(rng) for _ in range(rng.choice([0, 0, 1, 1, 2, 3]))]
            item = iso_point(rng, m)
            kw = dict(common)
            if rng.random() < 0.15:
                kw["env_ref" if rng.random() < 0.5 else "ref"] = item
                item = "ref"
            yield Case([item], offsets1=offs, print_format=pf, **kw)
        elif r < 0.65:
            fmt = rng.choice([None, None, None, "y,m,d,h,M,s", "d h", "PdDThHMMsS", "PdD", "s", "x"])
            items = [iso_point(rng, m), iso_point(rng, m)]
            if rng.random() < 0.1:
                items.append("extra")
            yield Case(items,
                       offsets1=[dur_text(rng) for _ in range(rng.choice([0, 0, 1, 2]))],
                       offsets2=[dur_text(rng) for _ in range(rng.choice([0, 0, 1]))],
                       print_format=fmt, as_total=rng.choice([None, None, "h", "H", "m", "M", "s", "S"]), **common)
        elif r < 0.9:
            reps = rng.choice(["", "", "3", "5", "12", "1", "0", "2", "007", "100"])
            start = iso_point(rng, m)
            form = rng.random()
            interval = rng.choice(["P1D", "PT6H", "P1M", "P1Y", "P1W", "PT90M", "P1M1D", "P0Y", "PT0S", "-P1D",
                                   "P100Y", "P1000Y", "PT1S", "P", "P1", "P1Y2M3DT4H5M6S",
                                   dur_text(rng).lstrip("+-")])
            if form < 0.45:
                text = "R%s/%s/%s" % (reps, start, interval)
            elif form < 0.7:
                text = "R%s/%s/%s" % (reps, interval, start)
            elif form < 0.9:
                # start/second-point: keep the two points within two centuries of each other - the cost of deriving
                # the interval is linear in the days spanned (known finding F10), and a wider span only measures it
                second = start

                def year_of(text):
                    """The year a default parser (two expanded digits) reads at the head of the text, if it is
                    certain: CCYY..., or a signed +XXCCYY...; anything shorter may be read as a century."""
                    mt = re.match(r"([+-])(\d{6})", text)
                    if mt:
                        return int(mt.group(1) + mt.group(2))
                    mt = re.match(r"(\d{4})(?!\d{2}$)", text)
                    if mt and text[:1] not in "+-" and len(text) > 4:
                        return int(mt.group(1))
                    return None
                ya = year_of(start)
                for _ in range(20):
                    cand = iso_point(rng, m)
                    yb = year_of(cand)
                    if ya is not None and yb is not None and abs(ya - yb) <= 150:
                        second = cand
                        break
                text = "R%s/%s/%s" % (reps, start, second)
            else:
                text = rng.choice(["R%s/%s" % (reps, start), "R%s/%s/%s/%s" % (reps, start, interval, start),
                                   "R%s/%s/%s/%s" % (reps, interval, start, interval), "R%s//%s" % (reps, start),
                                   "R%s/%s/" % (reps, start), "R%sx/%s/%s" % (reps, start, interval),
                                   "R/%s/%s/P" % (interval, start), "R%s/P/%s" % (reps, start),
                                   "R%s/%s/P/%s" % (reps, interval, start), "r/%s/%s" % (start, interval)])
            yield Case([text], max_results=rng.choice([None, None, 1, 2, 3, 15, 0, -1]),
                       print_format=rng.choice([None, None, "CCYY-MM-DD", "%Y%m%d", pf]), **common)
        else:
            yield Case([rng.choice([dur_text(rng), "PT1H", "P1D", "P1W", "-PT90M", "PT1M30S", "P1Y", "P1M2D",
                                    "\\-P1D", "PT0,5H", "P0W", "P3W", "-P2W", "PT7S", "PT11M", "PT1000000S",
                                    "P1000000D", "PT%dS" % rng.randint(0, 10 ** rng.randint(1, 15)),
                                    "PT%dM" % rng.randint(0, 10 ** rng.randint(1, 13)),
                                    "P%dDT%dS" % (rng.randint(0, 10 ** 9), rng.randint(0, 10 ** 6))])],
                       as_total=rng.choice(["h", "H", "m", "M", "s", "S"]), **common)

    # texts the time.strptime fallback of the built-in formats may or may not read
    def digs(k, pool="0123456789"):
        return "".join(rng.choice(pool) for _ in range(k))

    def field():
        return digs(rng.choice([1, 2, 2]), "0012356")
    for i in range(n // 3):
        y = rng.choice(["2004", "1999", "0000", "0001", "9999", digs(4)])
        if rng.random() < 0.5:
            body = (y + digs(rng.choice([2, 3, 3, 3, 4, 4, 5]), "0012345") + rng.choice("TTTt")
                    + digs(rng.choice([2, 3, 4, 5, 6, 6, 7]), "0012356"))
        else:
            body = y + "-" + field() + "-" + field() + rng.choice("TTTt") + field() + ":" + field() + ":" + field()
        if rng.random() < 0.1:
            body += rng.choice(["Z", "+01", "x"])
        yield Case([body], calendar=rng.choice(CALS), utc=rng.random() < 0.5, local_tz=rng.choice(c19.LOCAL_TZ),
                   spell_seed=rng.getrandbits(30), offsets1=rng.choice([[], [], ["P1M"], ["-PT1S"]]),
                   print_format=rng.choice([None, None, None, "CCYY-DDDThh:mm:ssZ", "%j"]))
    # year boundaries and recurrences that walk across them
    for text in ["R/P1Y/0001", "R3/P1Y/0001", "R/P1Y/0001-01-01T00Z", "R/P1D/0000-01-02", "R/9998/P1Y",
                 "R5/9999-12-30/P1D", "R/+009998/P1Y", "R/P1Y/+000001", "R/-000001/P1Y", "R/P1M/0000-03",
                 "R2/0000/0001", "R/0000/P1Y"]:
        for pf in [None, "CCYY", "+XCCYY-MM-DD", "%Y-%m-%d"]:
            for mx in [None, 3]:
                yield Case([text], print_format=pf, max_results=mx, local_tz=(0, 0), spell_seed=rng.getrandbits(30),
                           utc=rng.random() < 0.5)
    for item, offs in [("0001", ["-P2Y"]), ("0000-01-01T00:00:00Z", ["-PT1S"]), ("9999-12-31T23:59:59Z", ["PT1S"]),
                       ("9999", ["P2Y"]), ("+010000-01-01", ["-P1D"]), ("-000001-12-31T23Z", ["PT1H"]),
                       ("0000-01-01T00:00:00", ["-PT1S"]), ("00000101T000000", ["-PT1S"]),
                       ("99991231T235959", ["PT1S"])]:
        for pf in [None, "CCYY-MM-DD", "+XCCYY-MM-DDThh", "%Y%m%d", "%s", "CCYY-MM-DDThh:mm:ss+01"]:
            yield Case([item], offsets1=offs, print_format=pf, local_tz=rng.choice(c19.LOCAL_TZ),
                       spell_seed=rng.getrandbits(30), utc=rng.random() < 0.5)
    # the strptime-shaped notations and their loose cousins
    for item in ["2000-01-01T00:00:00", "20000101T000000", "2000-1-1T0:0:0", "2000-01-01t00:00:00",
                 "2000-02-30T00:00:00", "2000-02-29T24:00:00", "2001-02-29T00:00:00", "2000-01-01T24:00:01",
                 "2000-01-01T00:00:60", "2000-13-01T00:00:00", "0000-01-01T00:00:00", "20000101T0000",
                 "2000101T0101", "2000101T010101", "200011T000", "20000230T000000", "20000101t000000",
                 "2000-01-01T00:00", "2000-001T00:00:00", "20000101T240000", "20000101T000060",
                 "9999-12-31T23:59:59", "2000-01-1T00:00:00", "2000-01-01T0:00:00"]:
        for cal in [None, "360day", "365day", "366day"]:
            for utc in [False, True]:
                yield Case([item], calendar=cal, utc=utc, local_tz=rng.choice(c19.LOCAL_TZ),
                           spell_seed=rng.getrandbits(30), offsets1=rng.choice([[], ["P1M"], ["-PT1S"]]),
                           print_format=rng.choice([None, None, "CCYY-DDDThhZ"]))
    # environment calendar names
    for name in ["bogus", "GREGORIAN", "360_day", "360DAY", "365_DAY", "366_day", "Gregorian", "", "360", "360 day"]:
        yield Case(["2000-02-30"], env_calendar=name, local_tz=(0, 0), spell_seed=rng.getrandbits(30))
        yield Case(["2000-02-28T00Z"], offsets1=["P2D"], env_calendar=name, local_tz=(0, 0),
                   spell_seed=rng.getrandbits(30))


_START_END = re.compile(r"^[Rr][0-9]*/([^/P][^/]*)/([^/P][^/]*)$")
_YEAR = re.compile(r"[+-][0-9]{6}|[0-9]{4}")
MAX_SPAN_YEARS = 2500


def long_span(case):
    """A recurrence given by two points many years apart: the implementation's cost is linear in the span (the
    script met these as time-outs and skipped them); they are left out so that the op's running time is bounded."""
    for item in case.items:
        m = _START_END.match(item)
        if m:
            ys = [_YEAR.match(g) for g in m.groups()]
            if all(ys) and abs(int(ys[0].group()) - int(ys[1].group())) > MAX_SPAN_YEARS:
                return True
    return False


class CliEvalOp(ModelSkips, Op):
    prop = "C19"
    name = "clieval"
    CHUNK = 300

    def declines(self, a, model_out):
        return model_out.startswith("OUTSIDE")

    def model_kind(self, a, model_out):
        f = model_out.split(" ")
        return f[0] if f[0] in ("OUT", "bad-op") else "/".join(f[:2])

    def gen(self, rng, tier, boost):
        return self.peeked(self._gen(rng, tier, boost))

    def _gen(self, rng, tier, boost):
        c19 = _c19()
        shard = getattr(self, "shard", None)
        quick = tier == "quick"
        n_more = (700 if quick else 10000) * boost
        seen = set()
        k = 0
        stream = [c19.gen_cases(rng, "quick" if quick else "thorough", boost), more_cases(rng, n_more)]
        for cases in stream:
            for case in cases:
                a = case_tuple(case)
                if a in seen or post_args(case) is None or long_span(case):
                    continue
                seen.add(a)
                k += 1
                if shard and k % shard[1] != shard[0]:
                    continue
                yield a

    def from_corpus(self, a):
        return tup(a)

    def line(self, a):
        c19 = _c19()
        hx, opt = c19.hx, c19.opt
        case = mk_case(a)
        p = post_args(case)
        if p is None:
            return "clieval refused-by-argparse"       # the driver answers bad-op; gen never yields such a case
        toks = ["clieval", str(case.local_tz[0]), str(case.local_tz[1]), opt(case.env_calendar), opt(case.env_ref),
                "1" if p["version"] else "0", "1" if p["utc"] else "0", str(p["max_results"]), opt(p["as_total"]),
                opt(p["calendar"]), opt(p["parse_format"]), opt(p["print_format"]), opt(p["ref"]),
                "I", str(len(p["items"]))] + [hx(i) for i in p["items"]]
        toks += ["A", str(len(p["offsets1"]))] + [hx(o) for o in p["offsets1"]]
        toks += ["B", str(len(p["offsets2"]))] + [hx(o) for o in p["offsets2"]]
        return " ".join(toks)

    def impl(self, a):
        case = mk_case(a)
        got = canon_cli(_c19().run_cli(case))     # run_cli restores os.environ, the local zone and the calendar
        mine, real = post_args(case), real_args(case)
        if real is not None and mine != real:
            return "ARGS-MISMATCH %r / argparse: %r" % (mine, real)
        return got

    def oracle(self, a, out):
        # keeps what canon_model needs; C19's own clauses on the command's output are judged by props/c19.py
        self.note(a, out, always=(out == "EXIT any"))
        return None

    def canon_model(self, a, out):
        c19 = _c19()
        f = out.split(" ")
        if self.declines(a, out):
            self._state().skipped["/".join(f[:2])] += 1
            return self.answer_of_impl(a)
        if f[0] == "OUT":
            return "OUT " + c19.hx(c19.unhx(f[1] if len(f) > 1 else "-").rstrip("\n"))
        if f[0] == "EXIT" and len(f) > 1:
            if self._state()._kept.get(a) == "EXIT any":
                return "EXIT any"
            if f[1] in ("point", "arith"):
                return "EXIT point|arith"
        return out

    def label(self, a):
        kind, declined = self.peek(a)
        return "clieval/%s%s" % (kind, "(skipped)" if declined else "")
