"""Recurrences whose anchors and intervals carry dyadic fractions (binary64 holds every input and intermediate value
exactly, so the floats are compared EXACTLY, through fractions.Fraction, with the model's rationals) against the
rational recurrence model `RecQ` (lean/IsoDT/Model/RecurrenceQ.lean; theorems Props/C12q, Props/C13q): what the
constructor stores, the first k iterated points, `_get_is_in_bounds` / `get_is_valid` / `get_next` / `get_prev` of
probes on and just off the series, `r[i]`.  The oracle states the properties' own clauses for exact intervals of
positive length: exactly n points at anchor +- k * interval (C12); valid iff at a member's instant (C13)."""
import itertools
from fractions import Fraction as F

import oracle
import gens
import tpcommon as T
import qcommon as Q
from engine import Op, set_mode

EIGHTHS = [F(i, 8) for i in range(8)]


def U(y=0, mo=0, d=0, h=0, mi=0, s=0):
    return ("U", y, mo, d, F(h), F(mi), F(s))


DURS = {
    "s": [U(s=F(1, 8)), U(s=F(1, 4)), U(s=F(3, 8)), U(s=F(1, 2)), U(s=F(3, 2)), U(s=F(479, 8)), U(s=60),
          U(s=F(123, 2)), U(s=F(14401, 4)), U(s=F(172799, 2)), U(s=F(691201, 8)), U(mi=F(1, 2)), U(mi=F(5, 4)),
          U(mi=F(119, 2)), U(mi=90), U(h=F(1, 4)), U(h=F(1, 2)), U(h=F(3, 2)), U(h=F(95, 4)), U(h=24),
          U(h=F(51, 2)), U(d=1, s=F(1, 2)), U(h=1, mi=F(1, 2), s=F(1, 4)), U(h=1, s=F(-1, 2)),
          U(d=-1, h=F(49, 2)), U(d=1), U(d=7, s=F(1, 8)), ("W", 1), ("W", 2), U(s=1), U(s=F(1, 1024)),
          U(h=-1, s=F(7201, 2)),
          # month / year intervals on fractional anchors
          U(mo=1), U(y=1), U(mo=1, d=1, s=F(1, 2)), U(y=1, mo=1, mi=F(1, 2)), U(mo=13, s=F(1, 4))],
    "m": [U(s=F(15, 4)), U(s=F(15, 2)), U(s=15), U(s=30), U(s=60), U(s=90), U(s=3600), U(mi=F(1, 8)),
          U(mi=F(1, 4)), U(mi=F(1, 2)), U(mi=F(3, 2)), U(mi=F(239, 4)), U(mi=F(121, 2)), U(h=F(1, 4)),
          U(h=F(1, 2)), U(h=F(3, 2)), U(h=F(97, 4)), U(d=1, mi=F(1, 2)), U(h=1, mi=F(-1, 2)), ("W", 1),
          U(d=1), U(mo=1, mi=F(1, 2)), U(y=1), U(mo=1)],
    "h": [U(s=450), U(s=900), U(s=1800), U(s=3600), U(s=5400), U(s=86400), U(mi=F(15, 2)), U(mi=15), U(mi=30),
          U(mi=45), U(mi=60), U(mi=90), U(mi=1440), U(h=F(1, 8)), U(h=F(1, 4)), U(h=F(1, 2)), U(h=F(3, 2)),
          U(h=F(191, 8)), U(h=24), U(h=F(193, 8)), U(d=1, h=F(1, 2)), U(h=1, mi=-15), ("W", 1), U(d=1),
          U(mo=1, h=F(1, 4)), U(y=1), U(mo=1)],
}
# (an interval like P-1M31D - negative months, positive rough length - is accepted by the constructor and makes
#  get_is_valid walk for ever on an unbounded series: outside what the text notations can spell, not generated)
SPECIAL = [U(), U(s=F(-1, 4)), U(h=1, s=-3600), U(h=-1), U(d=-1, h=24), ("W", 0), ("W", -1)]
# lengths (seconds) usable for the start/second-point notation, by the start's form
UNIT = {"s": F(1, 8), "m": F(15, 4), "h": F(900)}
MULT = [1, 2, 3, 4, 5, 7, 8, 12, 16, 480, 481, 6912, 23040, 23041, 691200, 2 * 691200 + 1]


def dur_len(m, d):
    if d[0] == "W":
        return F(604800 * d[1])
    return 86400 * d[3] + 3600 * d[4] + 60 * d[5] + d[6]


def dur_tokens(d):
    if d[0] == "W":
        return "W %d" % d[1]
    return "U %d %d %d %s %s %s" % (d[1], d[2], d[3], Q.q(d[4]), Q.q(d[5]), Q.q(d[6]))


def mk_dur(rng, d):
    from metomi.isodatetime.data import Duration
    if d[0] == "W":
        return Duration(weeks=d[1])

    def num(v):
        if v.denominator == 1 and rng.random() < 0.5:
            return int(v)
        return float(v)
    return Duration(years=d[1], months=d[2], days=d[3], hours=num(d[4]), minutes=num(d[5]), seconds=num(d[6]))


def gen_anchor(rng, m, form):
    t = T.gen_tp(rng, m, allow24=rng.random() < 0.12)
    rep, y, a, b, hh, mi, ss, tzh, tzm = t
    fr = F(0) if (hh == 24 or rng.random() < 0.2) else rng.choice(EIGHTHS)
    if form == "s":
        return (rep, y, a, b, F(hh), F(mi), ss + fr, tzh, tzm)
    if form == "m":
        return (rep, y, a, b, F(hh), mi + fr, None, tzh, tzm)
    return (rep, y, a, b, hh + fr, None, None, tzh, tzm)


def dyadic(v):
    d = v.denominator
    return d & (d - 1) == 0 and d <= 2 ** 20


def spell(rng, m, total, tz, rep, form):
    """The q-point at exact instant `total` in zone tz, representation rep, precision form (falls back to a
    finer form if the slot would not be dyadic)."""
    tzh, tzm = tz
    local = total + 3600 * tzh + 60 * tzm
    day, sod = divmod(local, 86400)
    if rep == "c":
        y, a, b = oracle.cal_of_day_num(m, int(day))
    elif rep == "o":
        (y, a), b = oracle.ord_of_day_num(m, int(day)), 0
    else:
        y, a, b = oracle.week_of_day_num(m, int(day))
    if form == "h" and dyadic(sod / 3600):
        return (rep, y, a, b, sod / 3600, None, None, tzh, tzm)
    hh, rest = divmod(sod, 3600)
    if form in "hm" and dyadic(rest / 60):
        return (rep, y, a, b, F(hh), rest / 60, None, tzh, tzm)
    mi, ss = divmod(rest, 60)
    return (rep, y, a, b, F(hh), F(mi), ss, tzh, tzm)


def other_zone(rng, p, coarse):
    """A zone for a second operand: if some operand is in decimal-hour form the minutes of the two offsets differ
    by a multiple of 15 (re-zoning adds minutes / 60 to the hour slot)."""
    if rng.random() < 0.4:
        return (p[7], p[8])
    if not coarse:
        return gens.offset(rng)
    h = rng.randint(-12, 14)
    cands = [mm for mm in range(-59, 60) if (mm - p[8]) % 15 == 0 and not (h > 0 and mm < 0)
             and not (h < 0 and mm > 0)]
    return (h, rng.choice(cands)) if cands else (p[7], p[8])


def gen_case(rng):
    m = rng.choice(oracle.MODES)
    form = rng.choice("sssmh")
    anchor = gen_anchor(rng, m, form)
    r = rng.random()
    if r < 0.33:
        reps = None
    elif r < 0.93:
        reps = rng.randint(1, 12)
    else:
        reps = rng.choice([0, -1, 1, 2, 1000])
    fmt = rng.choice([3, 3, 4, 4, 1])
    if fmt == 1:
        r2 = rng.random()
        if r2 < 0.08:
            L = F(0)
        elif r2 < 0.14:
            L = -UNIT[form] * rng.choice(MULT)
        else:
            L = UNIT[form] * rng.choice(MULT)
        form2 = rng.choice("sssmh")
        coarse = "h" in (form, form2)
        tz2 = other_zone(rng, anchor, coarse)
        other = spell(rng, m, Q.inst(m, anchor) + L, tz2, rng.choice("cow"), form2)
        if "h" in (form, Q.form_of(other)) and (other[8] - anchor[8]) % 15 != 0:
            other = spell(rng, m, Q.inst(m, anchor) + L, (anchor[7], anchor[8]), rng.choice("cow"), form2)
        second = other
        dur = None
        length = L
    else:
        dur = rng.choice(SPECIAL) if rng.random() < 0.1 else rng.choice(DURS[form])
        second = None
        length = dur_len(m, dur)
    if reps is None or reps > 20:
        k = rng.choice([0, 1, 2, 3, 5, 8, 13])
    else:
        k = rng.choice([reps + 3, reps + 3, reps + 1, max(0, reps - 1), reps, 0])
    return dict(m=m, fmt=fmt, reps=reps, anchor=anchor, dur=dur, second=second, k=k, form=form, length=length)


def rec_tokens(c):
    tail = dur_tokens(c["dur"]) if c["fmt"] != 1 else Q.tokens(c["second"])
    return "%s %d %s %s %s" % (c["m"], c["fmt"], "_" if c["reps"] is None else c["reps"], Q.tokens(c["anchor"]), tail)


def pt_str(p):
    if p is None:
        return "_"
    date, H, M, S, tzh, tzm = Q.slots_of(p)
    d = "%s %d %d %d" % (date[0], date[1], date[2], date[3] if len(date) > 3 else 0)
    return "%s %s %s %s %d %d" % (d, Q.q(H), Q.q(M), Q.q(S), tzh, tzm)


def dur_str(d):
    if d is None:
        return "_"
    if d._weeks is not None:
        return "W %d" % d._weeks
    return "U %d %d %d %s %s %s" % (d._years, d._months, d._days, Q.q(F(d._hours)), Q.q(F(d._minutes)),
                                    Q.q(F(d._seconds)))


def build(rng, c):
    from metomi.isodatetime.data import TimeRecurrence
    kw = {}
    if c["reps"] is not None:
        kw["repetitions"] = c["reps"]
    if c["fmt"] == 3:
        kw.update(start_point=Q.mk_point(c["anchor"]), duration=mk_dur(rng, c["dur"]))
    elif c["fmt"] == 4:
        kw.update(end_point=Q.mk_point(c["anchor"]), duration=mk_dur(rng, c["dur"]))
    else:
        kw.update(start_point=Q.mk_point(c["anchor"]), end_point=Q.mk_point(c["second"]))
    return TimeRecurrence(**kw)


def gen_probe(rng, c, pts):
    """A probe point near the series: on it (respelled), just off it, before / after it."""
    m = c["m"]
    base = Q.inst(m, c["anchor"])
    L = c["length"]
    j = rng.randint(-2, 14)
    sign = -1 if c["fmt"] == 4 and c["reps"] is None else 1
    if c["fmt"] == 4 and c["reps"] is not None:
        j = j - (c["reps"] - 1)
    total = base + sign * j * L
    r = rng.random()
    if r < 0.3:
        total += rng.choice([1, -1]) * UNIT[c["form"]] * rng.choice([1, 1, 2, 3])
    # never coarser than the anchor's form: the interval's slots are exact for that form and finer ones
    form = rng.choice({"s": "s", "m": "sm", "h": "smh"}[c["form"]])
    # (the second point of a start/second-point series counts too: the probe is compared with it as the end bound,
    #  and re-zoning a decimal-hour point by minutes that are no multiple of 15 is not exact in binary64)
    second_form = Q.form_of(c["second"]) if c.get("second") else ""
    coarse = c["form"] == "h" or form == "h" or second_form == "h"
    tz = other_zone(rng, c["anchor"], coarse)
    p = spell(rng, m, total, tz, rng.choice("cow"), form)
    if "h" in (c["form"], Q.form_of(p), second_form) and (p[8] - c["anchor"][8]) % 15 != 0:
        p = spell(rng, m, total, (c["anchor"][7], c["anchor"][8]), rng.choice("cow"), form)
    return p




def freeze(c):
    return (c["m"], c["fmt"], c["reps"], c["anchor"], c["dur"], c["second"], c["k"], c["form"], c["length"])


def thaw(t):
    return dict(zip(("m", "fmt", "reps", "anchor", "dur", "second", "k", "form", "length"), t))


class _Rng:
    """mk_dur wants a random source only to pick int or float for whole numbers: derive it from the case."""

    def __init__(self, seed):
        import random
        self.r = random.Random(seed)

    def random(self):
        return self.r.random()


class RecQOp(Op):
    def __init__(self, prop, name, kinds, n_quick):
        self.prop = prop
        self.name = name
        self.kinds = kinds
        self.n_quick = n_quick

    def gen(self, rng, tier, boost):
        n = (self.n_quick if tier == "quick" else self.n_quick * 10) * boost
        for _ in range(n):
            c = gen_case(rng)
            kind = rng.choice(self.kinds)
            if kind == "riterq":
                yield (kind, freeze(c), None)
            elif kind in ("rvalidq", "rfirstq"):
                if kind == "rfirstq" and c["fmt"] == 4 and c["reps"] is None:
                    c["fmt"] = 3           # get_first_after is defined for series that have a start point
                yield (kind, freeze(c), gen_probe(rng, c, []))
            else:
                idx = max(0, rng.choice([0, 1, 2, c["reps"] or 3, (c["reps"] or 4) - 1, 7]))
                yield (kind, freeze(c), idx)

    def line(self, a):
        kind, t, x = a
        c = thaw(t)
        rt = rec_tokens(c)
        if kind == "riterq":
            return "riterq %s %d" % (rt, c["k"])
        if kind == "rvalidq":
            return "rvalidq %s %d %s" % (rt, 5000, Q.tokens(x))
        if kind == "rfirstq":
            return "rfirstq %s %d %s" % (rt, 5000, Q.tokens(x))
        return "ritemq %s %d" % (rt, x)

    def impl(self, a):
        kind, t, x = a
        c = thaw(t)
        set_mode(c["m"])
        try:
            rec = build(_Rng(hash(self.line(a)) & 0xffff), c)
        except ValueError:
            return "err"
        if kind == "riterq":
            pts = list(itertools.islice(iter(rec), c["k"]))
            stored = "%s ; %s ; %s ; %s ; %s" % ("_" if rec._repetitions is None else rec._repetitions,
                                                 pt_str(rec._start_point), dur_str(rec._duration),
                                                 pt_str(rec._end_point), rec._format_number)
            return ("%s # %d # %s" % (stored, len(pts), " | ".join(pt_str(p) for p in pts))).strip()
        if kind == "rvalidq":
            tp = Q.mk_point(x)
            ib = rec._get_is_in_bounds(tp)
            iv = rec.get_is_valid(tp)
            nx = rec.get_next(tp) if rec._duration is not None or rec._repetitions == 1 else None
            pv = rec.get_prev(tp) if rec._duration is not None or rec._repetitions == 1 else None
            return "%d %d %s %s" % (ib, iv, pt_str(nx), pt_str(pv))
        if kind == "rfirstq":
            if rec._start_point is None:
                return "_"            # (TypeError / None in the Python: no start point, outside the clause)
            return pt_str(rec.get_first_after(Q.mk_point(x)))
        try:
            return pt_str(rec[x])
        except IndexError:
            return "IndexError"

    def canon_model(self, a, out):
        return out.strip()

    def exact_positive(self, c):
        exact = c["fmt"] == 1 or c["dur"][0] == "W" or (c["dur"][1] == 0 and c["dur"][2] == 0)
        return exact and c["length"] > 0

    def oracle(self, a, out):
        kind, t, x = a
        c = thaw(t)
        if out.startswith(("EXC", "Timeout")):
            return "%s: %s" % (self.line(a), out)
        if out == "err" or not self.exact_positive(c):
            return None
        m, L = c["m"], c["length"]
        base = Q.inst(m, c["anchor"])
        reps = c["reps"]
        if reps is not None and reps < 1:
            return None

        def member_index(v):
            """index k of the member at instant v, or None"""
            off = (v - base) if c["fmt"] != 4 else (base - v)
            if off < 0 or off % L != 0:
                return None
            k = int(off / L)
            return k if reps is None or k < reps else None
        if kind == "riterq":
            parts = [x.strip() for x in out.split("#")]
            head, count, pts = parts if len(parts) == 3 else (out, "?", "")
            want_n = c["k"] if reps is None else min(c["k"], reps)
            if count != str(want_n):
                return "%s: iteration yields %s of the first %d points; the series has %s" % (
                    self.line(a), count, c["k"], "no end" if reps is None else "%d points" % reps)
            for kk, ptxt in enumerate(p for p in pts.split(" | ") if p.strip()):
                f = ptxt.split()
                date = (f[0], int(f[1]), int(f[2])) if f[0] == "o" else (f[0], int(f[1]), int(f[2]), int(f[3]))
                H, M, S = (None if v == "_" else F(v) for v in f[4:7])
                inst = (86400 * oracle.date_day_num(m, date) + 3600 * H + 60 * (M or 0) + (S or 0)
                        - 3600 * int(f[7]) - 60 * int(f[8]))
                if c["fmt"] != 4:
                    want = base + kk * L
                elif reps is None:
                    want = base - kk * L
                else:
                    want = base - (reps - 1 - kk) * L
                if inst != want:
                    return "%s: point %d is at instant %s, the series has it at %s" % (self.line(a), kk, inst, want)
            return None
        if kind == "rfirstq" and c["fmt"] != 4:
            # the earliest member strictly later than the probe; the first member before the series; None after it
            v = Q.inst(m, x)
            if v.denominator != 1:
                return None          # the property claims get_first_after for whole-second probes (the model: Props/C13r)
            if v < base:
                want = base
            else:
                k = int((v - base) // L) + 1
                want = base + k * L if (reps is None or k < reps) else None
            if out == "_":
                got = None
            else:
                f = out.split()
                date = (f[0], int(f[1]), int(f[2])) if f[0] == "o" else (f[0], int(f[1]), int(f[2]), int(f[3]))
                H, M, S = (None if t_ == "_" else F(t_) for t_ in f[4:7])
                got = (86400 * oracle.date_day_num(m, date) + 3600 * H + 60 * (M or 0) + (S or 0)
                       - 3600 * int(f[7]) - 60 * int(f[8]))
            if got != want:
                return "%s: get_first_after gives %s (instant %s); the earliest later member is at %s" % (
                    self.line(a), out, got, want)
            return None
        if kind == "rvalidq":
            f = out.split()
            v = Q.inst(m, x)
            want = member_index(v) is not None
            if reps is None and want and member_index(v) >= 5000:
                return None
            if f[1] != ("1" if want else "0"):
                return "%s: get_is_valid gives %s; the probe is %s of the series" % (
                    self.line(a), f[1], "a member" if want else "NOT a member")
        return None

    def label(self, a):
        c = thaw(a[1])
        return "%s/%s/fmt%d/%s/%s" % (a[0], c["m"], c["fmt"], "unbounded" if c["reps"] is None else "bounded", c["form"])
