#!/venv/bin/python
"""check.py <property id> [--tier quick|thorough] [--replay FILE]

Decides one property of /verif/properties.jsonl for /repo's current working tree
(DESIGN §5):

  1. regenerate lean/IsoDT/Gen from the source (translator);
  2. `lake build` the driver and the property's theorem modules against the regenerated Gen;
  3. audit: axioms of every theorem of those modules, forbidden tokens;
  4. correspondence: corpus first, then seeded generated operations, real code vs compiled
     Lean model, and the property's own clauses evaluated on the implementation (oracle);
  5. verdict, evidence file, replay file(s).

Exit 0: property held on everything explored.  Exit 1 + "VIOLATION property=<id> replay=<path>"
otherwise.  Exit 2: infrastructure problem (timeouts, missing tools) — never a verdict.
"""
import sys
import os
import re
import json
import time
import glob
import fcntl
import importlib
import subprocess
import traceback

HERE = os.path.dirname(os.path.abspath(__file__))
sys.path.insert(0, HERE)
import common  # noqa: E402
import engine  # noqa: E402

ALLOWED_AXIOMS = {"propext", "Classical.choice", "Quot.sound"}
FORBIDDEN = [r"\bsorry\b", r"\badmit\b", r"\bnative_decide\b", r"\bbv_decide\b",
             r"\bimplemented_by\b", r"\bunsafe\b", r"maxHeartbeats\s+0\b", r"^\s*axiom\s",
             r"\bextern\b", r"\bcsimp\b"]

TRUSTED_BASE = [
    "Lean 4.33.0 kernel (leanchecker re-checks the .olean files in the thorough tier)",
    "axioms: at most propext, Classical.choice, Quot.sound per theorem (audited each run); "
    "no native_decide, bv_decide, sorry, admit, own axioms",
    "IsoDT/Spec/*.lean is the reading of the calendar definition, instants and text forms",
    "harness/translate.py (source -> IsoDT/Gen/*.lean literals)",
    "harness correspondence: generators, canonicalisation, compiled driver (lean/Main.lean)",
    "CPython (big ints, re, str formatting, functools.lru_cache); binary64 rounding is not modelled: fractional "
    "behaviour is proved over exact rationals where a *q theorem exists and otherwise observed to 1 us",
]


def log(msg):
    print(msg, flush=True)


def run(cmd, cwd=None, timeout=3600):
    proc = subprocess.run(cmd, cwd=cwd, stdout=subprocess.PIPE, stderr=subprocess.STDOUT,
                          timeout=timeout)
    return proc.returncode, proc.stdout.decode(errors="replace")


class BuildLock:
    def __enter__(self):
        os.makedirs(os.path.join(common.LEAN_DIR, ".lake"), exist_ok=True)
        self.handle = open(os.path.join(common.LEAN_DIR, ".lake", "verif.lock"), "w")
        fcntl.flock(self.handle, fcntl.LOCK_EX)
        return self

    def __exit__(self, *exc):
        fcntl.flock(self.handle, fcntl.LOCK_UN)
        self.handle.close()


def strip_comments(text):
    text = re.sub(r"/-.*?-/", "", text, flags=re.S)
    text = re.sub(r"--.*", "", text)
    return text


def import_closure(modules, with_main=True):
    """Files (relative to lean/) reachable by `import IsoDT...` from the given modules (+ Main)."""
    todo = [m.replace(".", "/") + ".lean" for m in modules] + (["Main.lean"] if with_main else [])
    seen = []
    while todo:
        rel = todo.pop()
        if rel in seen:
            continue
        path = os.path.join(common.LEAN_DIR, rel)
        if not os.path.exists(path):
            continue
        seen.append(rel)
        with open(path) as handle:
            for mt in re.finditer(r"^import\s+(IsoDT[\w.]*)", handle.read(), flags=re.M):
                todo.append(mt.group(1).replace(".", "/") + ".lean")
    return seen


def forbidden_tokens(modules):
    hits = []
    for rel in import_closure(modules):
        path = os.path.join(common.LEAN_DIR, rel)
        with open(path) as handle:
            text = strip_comments(handle.read())
        if rel == "Main.lean":
            text = text.replace("partial def loop", "def loop")
        for pat in FORBIDDEN:
            for mt in re.finditer(pat, text, flags=re.M):
                hits.append("%s: %s" % (rel, mt.group(0).strip()))
    return hits


AUDIT_TEMPLATE = """import Lean
%(imports)s
open Lean Elab Command in
run_cmd do
  let env ← getEnv
  for modName in [%(mods)s] do
    let some idx := env.getModuleIdx? modName | throwError "no module {modName}"
    for n in env.header.moduleData[idx]!.constNames do
      if let some (.thmInfo _) := env.find? n then
        if !n.isInternalDetail then
          let axs ← Lean.collectAxioms n
          logInfo m!"AXIOMS {n} :: {axs.toList}"
"""


def audit(modules):
    """Returns (theorems: {name: [axioms]}, log)."""
    text = AUDIT_TEMPLATE % {
        "imports": "\n".join("import " + m for m in modules),
        "mods": ", ".join("`" + m for m in modules)}
    path = os.path.join(common.LEAN_DIR, ".lake", "audit_%d.lean" % os.getpid())
    with open(path, "w") as handle:
        handle.write(text)
    try:
        code, out = run(["lake", "env", "lean", path], cwd=common.LEAN_DIR)
    finally:
        os.unlink(path)
    theorems = {}
    for mt in re.finditer(r"AXIOMS (\S+) :: \[(.*?)\]", out):
        theorems[mt.group(1)] = [x.strip() for x in mt.group(2).split(",") if x.strip()]
    return code, theorems, out


def build(modules):
    """Build driver, then the theorem modules. Returns dict."""
    info = {"driver_ok": False, "proof_ok": False, "log": "", "broken": []}
    with BuildLock():
        code, out = run(["lake", "build", "driver"], cwd=common.LEAN_DIR)
        info["driver_ok"] = code == 0
        info["log"] += out[-3000:] if code else ""
        code, out = run(["lake", "build"] + modules, cwd=common.LEAN_DIR)
        info["proof_ok"] = code == 0
        if code:
            info["log"] += out[-6000:]
            for mt in re.finditer(r"error: (\S+\.lean):(\d+):(\d+): (.*)", out):
                info["broken"].append(
                    "%s:%s %s" % (mt.group(1), mt.group(2), mt.group(4)[:160]))
            if not info["broken"]:
                info["broken"].append("lake build failed: " + out[-300:].replace("\n", " | "))
    return info


def locate_theorem(broken_line):
    """Map 'IsoDT/Props/C03.lean:123 msg' to the theorem declared at or before that line."""
    mt = re.match(r"(\S+\.lean):(\d+)", broken_line)
    if not mt:
        return None
    path = os.path.join(common.LEAN_DIR, mt.group(1))
    try:
        with open(path) as handle:
            lines = handle.read().split("\n")
    except OSError:
        return None
    for i in range(min(int(mt.group(2)), len(lines)) - 1, -1, -1):
        m2 = re.match(r"\s*(?:@\[.*?\]\s*)?(?:private\s+)?(theorem|lemma|def|instance|example)\s+(\S+)?", lines[i])
        if m2:
            return "%s %s (%s)" % (m2.group(1), m2.group(2) or "", mt.group(1))
    return None


def write_replay(prop, seed, tier, k, payload):
    path = os.path.join(common.REPLAY_DIR, "%s-%s-%d-%d.json" % (prop, tier, seed, k))
    payload = dict(payload)
    payload.update({"property": prop, "seed": seed, "tier": tier})
    common.dump_json(path, payload)
    return os.path.relpath(path, common.VERIF)


def match_known(mod, known, op, a, out, msg):
    preds = getattr(mod, "KNOWN_PREDICATES", {})
    for finding in known.get("findings", []):
        if finding.get("property") != mod.PROP:
            continue
        pred = preds.get(finding.get("predicate"))
        if pred is None:
            continue
        try:
            if pred(op, a, out, msg):
                return finding
        except Exception:
            continue
    return None


def load_corpus(mod):
    """Corpus entries: {"op": name, "args": [...]} one per line in corpus/<prop>/*.jsonl."""
    entries = []
    for path in sorted(glob.glob(os.path.join(common.CORPUS_DIR, mod.PROP, "*.jsonl"))):
        with open(path) as handle:
            for line in handle:
                line = line.strip()
                if line and not line.startswith("#"):
                    entries.append(json.loads(line))
    return entries


def run_corpus(mod, ops, res):
    byname = {op.name: op for op in ops}
    batch = []
    for entry in load_corpus(mod):
        op = byname.get(entry["op"])
        if op is None:
            continue
        a = tuple(tuple(x) if isinstance(x, list) else x for x in entry["args"])
        if hasattr(op, "from_corpus"):
            a = op.from_corpus(a)
        out = engine.run_one(op, a, res)
        if op.model:
            batch.append((op, a, out))
    engine.compare(batch, res)
    return len(batch)


def parallel_run(mod, seed, tier, boost, nproc, deadline):
    """Thorough tier: shard the generators over nproc processes."""
    import multiprocessing as mp
    ctx = mp.get_context("fork")
    with ctx.Pool(nproc) as pool:
        parts = pool.map(_shard_worker, [(mod.__name__, seed, tier, boost, i, nproc, deadline)
                                         for i in range(nproc)])
    res = engine.Result()
    for part in parts:
        res.evaluations += part["evaluations"]
        res.keys |= part["keys"]
        res.hist.update(part["hist"])
        res.errors.update(part["errors"])
        res.samples += part["samples"][:2]
        res.notes += part["notes"]
        byname = {op.name: op for op in mod.ops()}
        for name, a, out, model in part["disagreements"]:
            res.disagreements.append((byname[name], a, out, model))
        for name, a, out, msg in part["violations"]:
            res.violations.append((byname[name], a, out, msg))
    return res


def _shard_worker(job):
    modname, seed, tier, boost, i, n, deadline = job
    mod = importlib.import_module(modname)
    ops = mod.ops()
    for op in ops:
        op.shard = (i, n)
    res = engine.run_ops(ops, seed * 1000 + i, tier, boost, deadline=deadline)
    return {
        "evaluations": res.evaluations, "keys": res.keys, "hist": res.hist,
        "errors": res.errors, "samples": res.samples, "notes": res.notes,
        "disagreements": [(op.name, a, o, m) for op, a, o, m in res.disagreements[:200]],
        "violations": [(op.name, a, o, m) for op, a, o, m in res.violations[:200]],
    }


def main(argv):
    t0 = time.time()
    if not argv:
        print(__doc__)
        return 2
    prop = argv[0].upper()
    tier = os.environ.get("VERIF_TIER", "quick")
    replay = None
    i = 1
    while i < len(argv):
        if argv[i] == "--tier":
            tier = argv[i + 1]
            i += 2
        elif argv[i] == "--replay":
            replay = argv[i + 1]
            i += 2
        else:
            print("unknown argument " + argv[i])
            return 2
    if tier not in ("quick", "thorough"):
        tier = "quick"
    seed = int(os.environ.get("VERIF_SEED", "0") or 0)
    common.use_repo()
    mod = importlib.import_module("props." + prop.lower())
    if replay:
        return do_replay(mod, replay)

    broken = []          # names of theorems / correspondences that no longer check
    if getattr(mod, "FOREIGN_FIRST", False):
        # this check's process starts with parsers / dumpers in configurations it does not use itself
        # (common.foreign_configurations): whatever they leave behind is there for everything that follows
        common.foreign_configurations()
    # -- 1. translator ---------------------------------------------------------------
    import translate
    try:
        with BuildLock():
            tcode = translate.main([])
    except Exception as exc:
        tcode = 3
        log("translate crashed: %r" % (exc,))
    if tcode != 0:
        # A generator that fails is a broken tie only for the properties whose theorems or model rest on
        # that Gen module (its import closure); for the others it is reported, not counted.
        needed = set(os.path.basename(rel)[:-5] for rel in import_closure(mod.LEAN_MODULES, with_main=False)
                     if rel.startswith("IsoDT/Gen/"))
        needed |= set(getattr(mod, "GEN_DEPS", []))
        failed = list(getattr(translate, "LAST_FAILED", [])) or [("?", "translator crashed")]
        for name, msg in failed:
            if name in needed or name == "?":
                broken.append("translator: Gen/%s.lean could not be regenerated from the source: %s" % (name, msg[:200]))
            else:
                log("note: Gen/%s.lean could not be regenerated (%s); not used by %s" % (name, msg[:120], prop))

    # -- 2. build ----------------------------------------------------------------------
    binfo = build(mod.LEAN_MODULES)
    if not binfo["proof_ok"]:
        for line in binfo["broken"][:6]:
            broken.append("proof: %s [%s]" % (locate_theorem(line) or "?", line))
        log("PROOF-BROKEN (lake build of %s failed)" % " ".join(mod.LEAN_MODULES))
        log(binfo["log"][-1500:])

    # -- 3. audit ------------------------------------------------------------------------
    theorems = {}
    if binfo["proof_ok"]:
        acode, theorems, alog = audit(mod.LEAN_MODULES)
        if acode != 0 or not theorems:
            broken.append("audit: could not list theorems: " + alog[-300:])
        for name, axs in sorted(theorems.items()):
            bad = [a for a in axs if a not in ALLOWED_AXIOMS]
            if bad:
                broken.append("audit: theorem %s depends on %s" % (name, bad))
    leanchecker = "not run (quick tier)"
    if tier == "thorough" and binfo["proof_ok"]:
        try:
            lcode, lout = run(["lake", "env", "leanchecker"] + list(mod.LEAN_MODULES), cwd=common.LEAN_DIR,
                              timeout=1800)
            leanchecker = "ok" if lcode == 0 else "REJECTED: " + lout[-300:]
            if lcode != 0:
                broken.append("audit: leanchecker rejected the compiled modules: " + lout[-200:])
        except Exception as exc:   # tool problem, not a verdict
            leanchecker = "unavailable: %r" % (exc,)
    hits = forbidden_tokens(mod.LEAN_MODULES)
    for hit in hits:
        broken.append("audit: forbidden token " + hit)
    required = list(getattr(mod, "REQUIRED_THEOREMS", []))
    try:
        with open(os.path.join(HERE, "required_theorems.json")) as handle:
            for name in json.load(handle).get(prop, []):
                if name not in required:
                    required.append(name)
    except OSError:
        pass
    for name in required:
        if binfo["proof_ok"] and name not in theorems:
            broken.append("audit: required theorem %s is missing" % name)

    # -- 4. correspondence + oracle ---------------------------------------------------
    boost = int(getattr(mod, "QUICK_BOOST", 1)) if tier == "quick" else 1   # cheap checks run a larger stream
    if broken:
        boost *= 4    # the failing-input search: same generators, larger budget
    res = engine.Result()
    ops = mod.ops()
    known = engine.load_known()
    corr_possible = binfo["driver_ok"]
    budget = float(os.environ.get("VERIF_BUDGET_S", "900" if tier == "quick" else "5400"))
    deadline = t0 + budget
    try:
        if not corr_possible:
            broken.append("correspondence: the driver does not build against the regenerated Gen")
            engine.run_driver = lambda lines: ["<no-driver>"] * len(lines)
        ncorpus = run_corpus(mod, ops, res)
        if tier == "thorough" and getattr(mod, "PARALLEL", True):
            nproc = min(16, os.cpu_count() or 4)
            part = parallel_run(mod, seed, tier, boost, nproc, deadline)
            res.evaluations += part.evaluations
            res.keys |= part.keys
            res.hist.update(part.hist)
            res.errors.update(part.errors)
            res.samples += part.samples
            res.notes += part.notes
            res.disagreements += part.disagreements
            res.violations += part.violations
            res.exhaustive = bool(getattr(mod, "THOROUGH_EXHAUSTIVE", False))
        else:
            engine.run_ops(ops, seed, tier, boost, result=res, deadline=deadline)
        extra = getattr(mod, "extra_checks", None)
        if extra:
            extra(res, seed, tier, boost)
    except Exception as exc:
        log("INFRASTRUCTURE: %s" % traceback.format_exc())
        return 2
    finally:
        try:
            engine.set_mode("greg")
        except Exception:
            pass
    if not corr_possible:
        res.disagreements = []

    # -- 5. verdict -------------------------------------------------------------------------
    violations = []
    known_hit = {}
    for op, a, out, msg in res.violations:
        finding = match_known(mod, known, op, a, out, msg)
        if finding:
            known_hit.setdefault(finding["id"], (finding, op, a, out, msg))
        else:
            violations.append((op, a, out, msg))
    for fid, (finding, op, a, out, msg) in sorted(known_hit.items()):
        log("KNOWN-FINDING: property=%s %s: %s [e.g. %s -> %s]" % (
            prop, fid, finding["summary"], op.line(a), out))
    disagreements = []
    for op, a, out, model in res.disagreements:
        disagreements.append((op, a, out, model))
    if disagreements:
        for op, a, out, model in sorted(disagreements, key=lambda v: len(str(v[1])))[:4]:
            log("DISAGREE %s | implementation: %s | model: %s" % (op.line(a)[:300], out[:200], model[:200]))
        names = sorted(set(op.name for op, _, _, _ in disagreements))
        broken.append("correspondence: model and implementation differ on op(s) %s (%d cases)"
                      % (",".join(names), len(disagreements)))

    exit_code = 0
    replays = []
    if violations:
        # concrete failing inputs of the property itself on the real code
        seen = set()
        k = 0
        for op, a, out, msg in sorted(violations, key=lambda v: len(str(v[1]))):
            if op.name in seen:
                continue
            seen.add(op.name)
            path = write_replay(prop, seed, tier, k, {
                "kind": "failing-input", "op": op.name, "args": list(a), "line": op.line(a),
                "implementation_returned": out, "property_requires": msg,
                "also_broken": broken})
            replays.append(path)
            log("VIOLATION property=%s replay=%s" % (prop, path))
            log("  %s: %s" % (op.line(a), msg))
            k += 1
            if k >= 5:
                break
        exit_code = 1
    elif broken:
        # the property is no longer shown to hold, and no failing input was found
        example = None
        if disagreements:
            op, a, out, model = sorted(disagreements, key=lambda v: len(str(v[1])))[0]
            example = {"op": op.name, "args": list(a), "line": op.line(a),
                       "implementation_returned": out, "model_returned": model}
        path = write_replay(prop, seed, tier, 0, {
            "kind": "no-failing-input-found", "broken": broken,
            "first_disagreement": example,
            "build_log_excerpt": binfo["log"][-2000:],
            "searched": {"evaluations": res.evaluations, "boost": boost}})
        replays.append(path)
        log("VIOLATION property=%s replay=%s no-failing-input-found" % (prop, path))
        for item in broken[:8]:
            log("  broken: " + item)
        exit_code = 1

    # -- evidence -------------------------------------------------------------------------
    n_thm = len(theorems)
    discharged = sum(1 for axs in theorems.values()
                     if all(a in ALLOWED_AXIOMS for a in axs)) if binfo["proof_ok"] else 0
    evidence = {
        "property_id": prop, "tier": tier, "seed": seed, "level": "proof",
        "coverage": {
            "obligations": max(n_thm, len(required), 1),
            "discharged": discharged,
            "checker_cmd": "cd lean && lake build %s && lake env lean <audit: Lean.collectAxioms "
                           "over every theorem of those modules>" % " ".join(mod.LEAN_MODULES),
            "trusted_base": TRUSTED_BASE + list(getattr(mod, "TRUSTED_EXTRA", [])),
            "theorems": {k: v for k, v in sorted(theorems.items())},
            "leanchecker": leanchecker,
            "evaluations": res.evaluations,
            "distinct_nontrivial": len(res.keys),
            "rule": getattr(mod, "RULE", "seeded boundary-biased generators; a case counts once "
                            "per distinct (op, arguments) tuple"),
            "samples": res.samples[:12] or [{"note": "no cases"}],
            "exhaustive": bool(res.exhaustive),
            "distribution": dict(sorted(res.hist.items())),
            "error_kinds": dict(res.errors),
            "corpus_cases": ncorpus,
            "correspondence_disagreements": len(res.disagreements),
            "oracle_violations": len(violations),
            "known_findings_printed": sorted(known_hit),
            "broken": broken,
            "notes": res.notes[:10],
            "explanation": getattr(mod, "EXPLANATION", ""),
        },
        "assumptions": list(getattr(mod, "ASSUMPTIONS", [])),
        "wall_s": round(time.time() - t0, 2),
        "violations": len(violations) + (1 if (broken and not violations) else 0),
    }
    common.dump_json(os.path.join(common.EVIDENCE_DIR, prop + ".json"), evidence)
    log("%s %s seed=%d: theorems=%d discharged=%d evaluations=%d distinct=%d disagreements=%d "
        "violations=%d known=%s wall=%.1fs -> exit %d" % (
            prop, tier, seed, n_thm, discharged, res.evaluations, len(res.keys),
            len(res.disagreements), len(violations), sorted(known_hit), time.time() - t0,
            exit_code))
    return exit_code


def do_replay(mod, path):
    with open(path if os.path.isabs(path) else os.path.join(common.VERIF, path)) as handle:
        rep = json.load(handle)
    if rep.get("kind") == "no-failing-input-found" and not rep.get("first_disagreement"):
        log("replay: nothing to run; broken obligations were: %s" % rep.get("broken"))
        return 1
    entry = rep if rep.get("kind") == "failing-input" else rep["first_disagreement"]
    ops = {op.name: op for op in mod.ops()}
    op = ops[entry["op"]]
    a = tuple(tuple(x) if isinstance(x, list) else x for x in entry["args"])
    if hasattr(op, "from_corpus"):
        a = op.from_corpus(a)
    res = engine.Result()
    build(mod.LEAN_MODULES)
    out = engine.run_one(op, a, res)
    try:
        if op.model:
            engine.compare([(op, a, out)], res)
    except Exception as exc:
        log("replay: driver unavailable: %s" % exc)
    log("replay %s" % op.line(a))
    log("  implementation: %s" % out)
    for _, _, _, model in res.disagreements:
        log("  model:          %s" % model)
    for _, _, _, msg in res.violations:
        log("  property:       %s" % msg)
    engine.set_mode("greg")
    if res.violations or res.disagreements:
        log("VIOLATION property=%s replay=%s" % (mod.PROP, path))
        return 1
    log("replay: holds now")
    return 0


if __name__ == "__main__":
    sys.exit(main(sys.argv[1:]))
