#!/venv/bin/python
"""validate_seed.py <PROP> <candidate dir> [--check]

Confirms a seeded change (patch.diff, demo.py) in a scratch worktree of /repo outside /repo and /verif:
  - the patch applies to /repo's HEAD;
  - the pinned test suite still reports 85 passed with it;
  - demo.py exits non-zero with the change and 0 without it.
With --check it then runs `./check <PROP> --tier quick` against that scratch worktree (VERIF_REPO) and
reports the exit status and the VIOLATION lines.  Prints one JSON object; removes the worktree.
"""
import sys
import os
import re
import json
import shutil
import subprocess
import tempfile

VERIF = os.path.dirname(os.path.dirname(os.path.abspath(__file__)))


def sh(cmd, cwd=None, env=None, timeout=1800):
    proc = subprocess.run(cmd, cwd=cwd, env=env, stdout=subprocess.PIPE, stderr=subprocess.STDOUT,
                          timeout=timeout, shell=isinstance(cmd, str))
    return proc.returncode, proc.stdout.decode(errors="replace")


def main(argv):
    prop, cand = argv[0], os.path.abspath(argv[1])
    do_check = "--check" in argv
    extra_props = [a for a in argv[2:] if re.match(r"C\d\d$", a)]
    wt = tempfile.mkdtemp(prefix="seedval-", dir="/tmp")
    os.rmdir(wt)
    out = {"property": prop, "candidate": cand}
    try:
        code, log = sh(["git", "-C", "/repo", "worktree", "add", "--detach", wt, "HEAD"])
        assert code == 0, log
        env = dict(os.environ)
        env["PYTHONPATH"] = wt
        env.pop("VERIF_REPO", None)
        shutil.copy(os.path.join(cand, "demo.py"), os.path.join(wt, "demo.py"))
        code, log = sh(["/venv/bin/python", "demo.py"], cwd=wt, env=env, timeout=600)
        out["demo_without_change_exit"] = code
        code, log = sh(["git", "apply", os.path.join(cand, "patch.diff")], cwd=wt)
        if code != 0:
            # written against an earlier HEAD (before a later fix: commit touched the same lines): three-way merge
            code, log = sh(["git", "apply", "-3", os.path.join(cand, "patch.diff")], cwd=wt)
            out["patch_applied_three_way"] = code == 0
        out["patch_applies"] = code == 0
        if code != 0:
            out["apply_log"] = log[-500:]
            return out
        code, log = sh(["/venv/bin/python", "demo.py"], cwd=wt, env=env, timeout=600)
        out["demo_with_change_exit"] = code
        out["demo_tail"] = log[-600:]
        code, log = sh("/venv/bin/python -m pytest -ra -q -p no:cacheprovider --timeout=900 "
                       "--continue-on-collection-errors --deselect demo.py 2>&1 | tail -1", cwd=wt, env=env)
        out["suite_with_change"] = log.strip()
        out["suite_ok"] = bool(re.search(r"\b85 passed\b", log)) and bool(re.search(r"\b2 failed\b", log))
        out["confirmed"] = (out["suite_ok"] and out["demo_without_change_exit"] == 0
                            and out["demo_with_change_exit"] not in (0, None))
        if do_check:
            os.unlink(os.path.join(wt, "demo.py"))
            for p in [prop] + extra_props:
                env2 = dict(os.environ)
                env2["VERIF_REPO"] = wt
                code, log = sh([os.path.join(VERIF, "check"), p, "--tier", "quick"], cwd=VERIF, env=env2,
                               timeout=3000)
                out["check_%s_exit" % p] = code
                out["check_%s_lines" % p] = [l for l in log.split("\n")
                                             if re.match(r"(VIOLATION|KNOWN-FINDING|  broken|DISAGREE|  \S+ .*: )", l)][:14]
                out["check_%s_summary" % p] = [l for l in log.split("\n") if "-> exit" in l]
        return out
    finally:
        sh(["git", "-C", "/repo", "worktree", "remove", "--force", wt])
        shutil.rmtree(wt, ignore_errors=True)
        priv = None
        try:
            import hashlib
            priv = "/tmp/verif-lean-" + hashlib.sha256(os.path.realpath(wt).encode()).hexdigest()[:10]
            shutil.rmtree(priv, ignore_errors=True)
        except Exception:
            pass


if __name__ == "__main__":
    print(json.dumps(main(sys.argv[1:]), indent=1))
