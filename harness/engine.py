"""Correspondence engine: run generated operations on the real implementation (in-process),
pipe the same operations through the compiled Lean driver, diff the canonical outputs, and
evaluate the property's own clauses (oracle) on what the implementation returned.
"""
import os
import signal
import subprocess
import time
import json
import random
import collections

import common


class OpTimeout(Exception):
    pass


def _alarm(signum, frame):
    raise OpTimeout()


OP_BUDGET_S = float(os.environ.get("VERIF_OP_BUDGET_S", "5"))
RETRY_SCALE = float(os.environ.get("VERIF_RETRY_SCALE", "8"))


_budget_scale = [1.0]


def guarded(func, *args):
    """Run func under the per-operation wall-clock budget.  Re-entrant: a call made while a budget is
    already running (an op's impl guarding one of its own steps) stays under the outer budget - it must
    not cancel it."""
    if signal.getitimer(signal.ITIMER_REAL)[0] > 0:
        return func(*args)
    old = signal.signal(signal.SIGALRM, _alarm)
    signal.setitimer(signal.ITIMER_REAL, OP_BUDGET_S * _budget_scale[0])
    try:
        return func(*args)
    finally:
        signal.setitimer(signal.ITIMER_REAL, 0)
        signal.signal(signal.SIGALRM, old)


def canon_exc(exc):
    """Map an exception to the small error enum shared with the model."""
    from metomi.isodatetime import exceptions as ex
    if isinstance(exc, OpTimeout):
        return "Timeout"
    if isinstance(exc, ex.ISO8601SyntaxError):
        return "err"
    if isinstance(exc, ex.BadInputError):
        return "err"
    if isinstance(exc, ValueError):
        return "err"
    return "EXC:" + type(exc).__name__


_current_mode = [None]


def set_mode(m):
    """Switch the implementation's calendar to model mode m ('greg', 'd360', ...)."""
    from metomi.isodatetime.data import CALENDAR
    import oracle
    if m not in SPELLINGS:
        spelling = oracle.SPELLING.get(m, m)
        if CALENDAR.mode != spelling:
            CALENDAR.set_mode(spelling)
        _current_mode[0] = m
        return
    current = oracle.ALL_SPELLINGS.get(str(CALENDAR.mode).lower())
    if current != m:
        # every switch uses the next accepted spelling of the mode (canonical, CF alias, other letter case:
        # Calendar.set_mode looks the name up case-insensitively and keeps it as given)
        _switches[0] += 1
        names = SPELLINGS[m]
        CALENDAR.set_mode(names[_switches[0] % len(names)])
    _current_mode[0] = m


SPELLINGS = {"greg": ["gregorian", "Gregorian", "gregorian", "GREGORIAN"],
             "d360": ["360day", "360_day", "360Day"], "d365": ["365day", "365_day", "365DAY"],
             "d366": ["366day", "366_day", "366_Day"]}
_switches = [0]


class Op:
    """One kind of operation of the line protocol.

    gen(rng, tier, boost) yields argument tuples; line(a) is the driver input line;
    impl(a) runs the real code and returns the canonical output string; oracle(a, out, raw)
    returns None if the property's clauses hold on the implementation's answer, else a
    message; label(a) classifies the input for the distribution histogram;
    nontrivial(a) says whether the case crosses a carry/clamp/sign boundary.
    """
    name = "?"
    prop = "?"
    model = True      # False: implementation + oracle only (e.g. float-domain streams)

    def gen(self, rng, tier, boost):
        return []

    def line(self, a):
        return self.name + " " + " ".join(str(x) for x in a)

    def impl(self, a):
        raise NotImplementedError

    def oracle(self, a, out):
        return None

    def label(self, a):
        return self.name

    def nontrivial(self, a):
        return True

    def neighbours(self, a):
        return []

    def describe(self, a):
        return {"op": self.name, "args": list(a)}


class Result:
    def __init__(self):
        self.evaluations = 0
        self.keys = set()
        self.hist = collections.Counter()
        self.disagreements = []   # (op, args, impl_out, model_out)
        self.violations = []      # (op, args, impl_out, message)
        self.samples = []
        self.errors = collections.Counter()
        self.exhaustive = False
        self.notes = []


def run_driver(lines):
    """Feed lines to the compiled driver; returns the list of output lines."""
    for _ in range(60):       # another check may be re-linking the driver right now
        if os.path.exists(common.DRIVER):
            break
        time.sleep(2)
    else:
        raise RuntimeError("driver not built: " + common.DRIVER)
    data = ("\n".join(lines) + "\n").encode()
    proc = subprocess.run([common.DRIVER], input=data, stdout=subprocess.PIPE,
                          stderr=subprocess.PIPE, timeout=3600)
    if proc.returncode != 0:
        raise RuntimeError("driver exited %d: %s" % (proc.returncode,
                                                      proc.stderr.decode()[-400:]))
    out = proc.stdout.decode().split("\n")
    if out and out[-1] == "":
        out.pop()
    return out


def run_ops(ops, seed, tier, boost=1, result=None, max_cases=None, deadline=None):
    """Run every op's generated cases; returns a Result."""
    res = result or Result()
    rng = random.Random(seed)
    batch = []   # (op, args, impl_out)
    for op in ops:
        sub = random.Random(rng.getrandbits(64))
        sib = random.Random(sub.getrandbits(64))
        sibling = getattr(op, "sibling", None)
        rate = getattr(op, "sibling_rate", 0.2)
        count = 0
        for a in op.gen(sub, tier, boost):
            if max_cases is not None and count >= max_cases:
                break
            if deadline is not None and time.time() > deadline:
                res.notes.append("deadline reached in op %s after %d cases" % (op.name, count))
                break
            count += 1
            out = run_one(op, a, res)
            if op.model:
                batch.append((op, a, out))
            if sibling is not None and sib.random() < rate:
                # History sensitivity: the implementation is one long-lived process, the model is a pure
                # function.  Directly after a case, run the SAME question with only its context respelled
                # (the same instant in another offset / representation, the same text under another calendar
                # mode or parser configuration): a memo table keyed on too little then answers from the
                # earlier case, and the correspondence and the oracle see it.
                try:
                    sibs = list(sibling(a, sib) or [])
                except Exception:   # a sibling that cannot be built is simply not run
                    sibs = []
                for b in sibs:
                    count += 1
                    res.hist["sibling-cases"] += 1
                    out = run_one(op, b, res)
                    if op.model:
                        batch.append((op, b, out))
    compare(batch, res)
    set_mode("greg")
    return res


def _run_impl(op, a):
    try:
        return guarded(op.impl, a), None
    except Exception as exc:  # noqa
        return canon_exc(exc), exc


def run_one(op, a, res):
    out, exc = _run_impl(op, a)
    if isinstance(out, str) and "Timeout" in out:
        # A case that ran out of its budget is run once more with a budget RETRY_SCALE times larger, so
        # that a slow or loaded machine cannot turn a merely expensive case into a verdict; what still
        # does not finish then is what the ops report as a hang.
        scale = getattr(op, "retry_scale", RETRY_SCALE)
        _budget_scale[0] = scale
        try:
            out, exc = _run_impl(op, a)
        finally:
            _budget_scale[0] = 1.0
        res.hist["slow-case-retried"] += 1
        if len(res.notes) < 10:
            res.notes.append("slow case re-run with %gx budget: %s -> %s" % (scale, op.line(a)[:160], out[:60]))
    if exc is not None:
        res.errors[out] += 1
    res.evaluations += 1
    lab = op.label(a)
    res.hist[lab] += 1
    if op.nontrivial(a):
        res.keys.add((op.name,) + tuple(a))
    if len(res.samples) < 12 and (res.evaluations % 997 == 1 or len(res.samples) < 3):
        res.samples.append({"line": op.line(a), "impl": out})
    try:
        msg = op.oracle(a, out)
    except Exception as exc:  # an oracle crash is reported, never swallowed
        msg = "oracle crashed: %s: %s" % (type(exc).__name__, exc)
    if msg is not None:
        res.violations.append((op, a, out, msg))
    return out


def compare(batch, res):
    if not batch:
        return
    lines = [op.line(a) for op, a, _ in batch]
    outs = run_driver(lines)
    if len(outs) != len(lines):
        raise RuntimeError("driver returned %d lines for %d inputs" % (len(outs), len(lines)))
    for (op, a, impl_out), model_out in zip(batch, outs):
        canon = getattr(op, "canon_model", None)
        if canon is not None:
            # the model answers exactly (e.g. rationals); the op maps that to the canonical form
            # in which the implementation's (float) answer was recorded
            try:
                model_out = canon(a, model_out)
            except Exception as exc:  # noqa  (canonicalisation may re-run the implementation)
                model_out = "CANON-" + canon_exc(exc)
        if impl_out != model_out:
            res.disagreements.append((op, a, impl_out, model_out))


def shrink_disagreement(op, a, res_disagree):
    """Nothing clever: return the lexicographically smallest disagreeing argument tuple by
    absolute magnitude among those seen for the same op."""
    same = [d for d in res_disagree if d[0] is op]
    same.sort(key=lambda d: sum(abs(x) if isinstance(x, int) else len(str(x)) for x in d[1]))
    return same[0]


# ---------------------------------------------------------------------------
# known findings

def load_known():
    try:
        with open(common.KNOWN_FINDINGS) as handle:
            return json.load(handle)
    except OSError:
        return {"findings": [], "fixed": []}
