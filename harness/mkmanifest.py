#!/usr/bin/env python3
"""Write MANIFEST.json from the table below (kept as code so it stays valid and consistent)."""
import json, os
HERE = os.path.dirname(os.path.abspath(__file__))
VERIF = os.path.dirname(HERE)

BASE_NOTE = ("Trusted: Lean 4.33.0 kernel; axioms propext/Classical.choice/Quot.sound only (audited per run); "
             "IsoDT/Spec as the reading of the property; harness/translate.py (source -> Gen tables); the "
             "correspondence harness + compiled driver that tie the hand-written model to /repo; CPython. "
             "Binary64 rounding is not modelled: whole-second theorems, exact-rational theorems where stated, fractional behaviour otherwise observed to 1 us.")

CLAIMED = {
    "C01": dict(
        text="Theorem C01_add_exact over the Lean model of TimePoint.__add__/_tick_over (year and week-year carry loops "
             "mirrored as well-founded recursions): for every valid whole-second point (3 representations, any offset, "
             "24:00, every year in Int), every exact duration of either sign and all 4 modes, the result denotes the "
             "instant shifted by exactly the duration's length, is valid with 0<=h<24, keeps representation and offset; "
             "p - d = p + (-d); Props/C01b: exact durations act as translations - (p+d1)+d2 = p+(d1+d2) as instants "
             "(C01_add_compose), additions commute (C01_add_commute), (p+d)-d is p (C01_add_sub_cancel), adding one duration to two "
             "points preserves their comparison (C01_add_preserves_order). Fractions: C01_tick_over_rat / C01_add_exact_rat state the same for the model addExactQ, "
             "which runs _tick_over and the exact part of __add__ statement by statement over exact rationals with the "
             "minute/second slots possibly None (decimal-second, decimal-minute, decimal-hour forms; fractional "
             "hours/minutes/seconds in the duration), and C01_rat_extends_int shows it coincides with the integer model on "
             "whole-second input. Python computes in binary64: the rational model is tied to it by the addq correspondence "
             "(representation, offset, slot pattern and instant to 1 us) - float rounding itself is observed, not proved; "
             "that differential found and repaired F15 (a float remainder equal to its modulus).",
        design="DESIGN §8 C01",
        technique="Lean 4 proof (loop invariants over Int) + model/implementation correspondence"),
    "C02": dict(
        text="Theorem C02_cmp over the Lean model of TimePoint._cmp (re-zone, 24:00 normalisation, list comparison by "
             "the left operand's representation): the comparison is exactly the order of the instants for all valid "
             "whole-second operands in any mix of representations/offsets/24:00; the six operators, trichotomy, "
             "symmetry, transitivity, hash-key equality for equal instants and the sign of a-b follow as theorems; Props/C02b: "
             "cmp b a = -(cmp a b) (C02_cmp_antisymm), == is a congruence for every comparison (C02_cmp_congr), re-zoning either "
             "operand never changes a comparison (C02_cmp_rezone_invariant). "
             "Precision forms: Props/C02q proves the same (C02_cmp_rat, C02_operators_rat, C02_hash_rat, C02_sub_sign_rat) "
             "for the model cmpQ/hashKeyQ that runs _cmp/__hash__ over exact rationals with the minute/second slots "
             "possibly None (decimal-hour/-minute/-second forms, mixed freely), and that it coincides with the integer "
             "model on whole-second input. Python computes in binary64: cmpq/hashq tie the rational model to it (exact "
             "agreement on distinct instants); for two spellings of exactly the same instant through values binary64 "
             "cannot hold the float implementation deviates - known findings F16 (equal points hash differently) and "
             "F17 (inconsistent comparison), matched only on such pairs.",
        design="DESIGN §8 C02",
        technique="Lean 4 proof (refinement of _cmp to the order of instants) + model/implementation correspondence"),
    "C04": dict(
        text="Theorems over the Lean model of TimePoint.__sub__(TimePoint) (swap test, re-zone, ordinal dates, closed-form "
             "year range, borrow chain): the result is a d/h/m/s duration of length inst a - inst b with |h|<24, |m|,|s|<60 "
             "and one sign; antisymmetry, b+(a-b)==a and (p+d)-p==d follow; Props/C04b: the difference depends on the two instants only "
             "(C04_depends_on_instants_only: other representations / offsets / 24:00 give the field-for-field same duration), is empty "
             "exactly when a == b (C04_zero_iff_equal), takes its sign from the comparison (C04_sign_follows_cmp) and adds up: "
             "(a-b)+(b-c) has the length of a-c (C04_chasles). Precision forms: C04_sub_rat / C04_add_back_rat "
             "(Props/C02q) prove the same for subTPQ over exact rationals with possibly absent minute/second slots, extending "
             "the integer model; the subq op ties it to the Python (length to 1 us, shape clauses judged on the "
             "implementation). Float-only deviations are known findings F13 (seconds == 60.0) and F17b (noise of mixed sign or "
             "RecursionError for two float spellings of exactly the same instant).",
        design="DESIGN §8 C04",
        technique="Lean 4 proof + model/implementation correspondence"),
    "C05": dict(
        text="Theorems over the Lean model of add_months / the year branch of __add__: each month step is the calendar rule "
             "(adjacent month, same day or the month's own last day in the target year), n months are n single steps, "
             "ordinal/week dates go via calendar form and back, years clamp per representation (29 Feb->28 Feb, 366->365, "
             "W53->last week); time, offset, representation kept; result always valid; exact part first, then months, "
             "then years. The clamp domain is finite and swept exhaustively by the correspondence in the thorough tier. "
             "Every precision form (Props/C05q over the rational-slot model addDurQ = addExactQ, then addMonthsQ, then addYearsQ, "
             "mirroring add_months and the year branch on points whose minute/second slots may be None): C05_nominal_projection - "
             "the month/year part never reads the time slots; C05_add_months_rat / C05_add_years_rat - the date is exactly the "
             "whole-second theorems' date, time slots, slot pattern, offset and representation unchanged, result legal; "
             "C05_order_rat; C05_add_valid_rat; C05_rat_extends_int - on whole-second points the rational model is the integer "
             "model. Tied to the float implementation by the addnomq correspondence (instant to 1 us).",
        design="DESIGN §8 C05",
        technique="Lean 4 proof (induction over month steps) + model/implementation correspondence"),
    "C06": dict(
        text="Theorems over the Lean model of to_time_zone/to_utc and TimeZone.__init__: re-zoning keeps the instant, carries "
             "exactly the requested offset, keeps the representation and yields valid local fields, for every legal offset "
             "-99:59..+99:59; equal/hash-equal/zero difference follow from C02/C04; the constructor accepts exactly the legal "
             "offsets. Props/C06d: a point with 0<=h<24 is determined by instant, offset and representation (C06_canonical), so "
             "re-zoning through an intermediate offset equals the direct re-zoning field for field (C06_compose), re-zoning to the "
             "point's own offset is the identity and there-and-back returns the same point (C06_identity_and_round_trip). "
             "Literal zones in dump formats (Props/C06b): C06_literal_zone_read - the dumper reads every legal literal "
             "+-hh:mm back as that offset; C06_dump_literal_zone(+_bounds) - dumping any valid point with CCYY-MM-DD / CCYY-DDD / "
             "CCYY-Www-D, Thh:mm:ss and a literal zone prints the point re-zoned to that zone (bounds error iff the re-zoned year "
             "leaves 0000-9999); C06_dump_literal_zone_roundtrip - that text parses back to a point at the same instant "
             "carrying exactly the literal offset. Precision forms: C06_to_time_zone_rat over exact rationals (tzq op). Other "
             "literal spellings (Props/C06c): C06_literal_zone_read_all - +-hh:mm, +-hhmm and +-hh are read as exactly that offset, "
             "-00:30 / -0030 included; C06_dump_literal_zone_all(_bounds,_roundtrip,_target) - Z and every literal zone in "
             "every basic and extended complete format (with or without +X): the dumped point carries exactly the requested "
             "offset and parses back to the same instant.",
        design="DESIGN §8 C06",
        technique="Lean 4 proof (corollary of C01) + model/implementation correspondence"),
    "C11": dict(
        text="Theorems over the Lean model of Duration (__add__, __mul__, __eq__, __hash__, ordering, get_days_and_seconds, "
             "constructor): addition is commutative and associative field for field, the empty duration is the identity, "
             "d + (-1*d) is empty, n*d equals n-fold addition, 1W=7D=168H..., == holds exactly when years, months and the "
             "exact remainder match (an equivalence), equal durations hash equally, and <,<=,>,>= are the order of the "
             "rough length (common-year length, 30-day month), hence mutually consistent; Props/C11ord: a strict order / total "
             "preorder (C11_order_strict) compatible with + (C11_order_add_compat) and with * n, n >= 0 (C11_order_mul_mono). "
             "Integer components for all Int. "
             "Fractional hours/minutes/seconds (the only components the constructor lets be fractional: C11q_constructor_accepts): "
             "Props/C11q proves the same laws over the model DurationQ with rational h/mi/s (C11q_eq_iff, C11q_hash(_iff), "
             "C11q_add_comm/assoc/zero/inverse, C11q_mul_is_repeated_add, C11q_units(_frac), C11q_order(_mutual), "
             "C11q_exact_order_by_length, C11q_standardize, C11q_abs, C11q_floordiv) and C11_rat_extends_int that 20 operations "
             "coincide with the integer model on integral input. The op durq ties it to the float implementation exactly on "
             "dyadic inputs (18 operations); other decimals are observed within tolerance (dfloat).",
        design="DESIGN §8 C11",
        technique="Lean 4 proof (linear arithmetic over Int) + model/implementation correspondence"),
    "C18": dict(
        text="Theorems: the (hours, minutes) split of get_local_time_zone is exact for every whole-minute offset in Int "
             "(60h+m = offset/60, |m|<60, both parts carry the offset's sign; Python floor division and divisor-signed "
             "modulus modelled with Int.fdiv/fmod), the DST choice, the shape of the three text forms, and the Unix-epoch "
             "conversions (corollaries of C01/C04: instant = epoch + n; seconds_since = instant - epoch) for all n, all "
             "offsets, all modes. The OS zone data are parameters (patched in the harness; exhaustive over every "
             "whole-minute offset within +-24 h in the thorough tier). FRACTIONAL COUNTS (Props/C18b over exact rationals): "
             "C18_from_unix_rat - for any rational x, UTC or re-zoned, the point has instant = epoch + x exactly, valid, whole "
             "hour and minute, second in [0, 60); C18_seconds_since_rat - seconds_since_unix_epoch is the difference truncated "
             "toward zero (not floored: C18_seconds_since_not_floor_counterexample), for every precision form; round trips "
             "C18_unix_round_trip_*. Ops unixq and sincefrac tie it to the float implementation on dyadic fractions. THROUGH THE "
             "PARSER (Props/C18c, model strpZone of the glue after the regex match: the %s translator, the date/time/zone "
             "buckets, process_time_zone_info, the constructor call): C18_strptime_unix_instant - for every n, mode, legal local "
             "zone and every parser configuration strptime(n, '%s') is the instant epoch + n in the local zone (the assumed "
             "zone and the unknown flag never apply); _zero_fields; _with_zone(_counterexample); C17_strptime_zone_default / "
             "_round_trip for field formats. Ops strpzone (against the model) and strptimeunix.",
        design="DESIGN §8 C18",
        technique="Lean 4 proof + model/implementation correspondence with the OS zone data patched"),
    "C12": dict(
        text="Theorems over the Lean model of TimeRecurrence.__init__/__iter__/get_next/get_prev: for exact intervals of "
             "any size, every notation, bounded or unbounded, any anchor, any mode: iteration yields exactly the series "
             "(start, start+d, ... / end, end-d, ...) as valid points in the anchor's representation and offset; n "
             "repetitions yield exactly n strictly increasing points including the anchor; start/second-point iterates "
             "like start/duration with the exact difference; one repetition or a zero interval yields exactly the anchor. "
             "Month/year intervals (Props/C12b, every non-negative nominal interval): one nominal addition moves every valid "
             "point strictly forward; unbounded iteration is exactly repeated nominal addition (resp. subtraction from the "
             "end), strictly monotone, valid, in the anchor's representation and offset; bounded iteration is exactly the "
             "prefix of that series up to the derived bound, independent of fuel once it exceeds a stated bound. The bounded "
             "COUNT / reaching the end anchor is false of the code for month/year intervals (known finding F5: two proved "
             "counter-witnesses, matched by mechanism in the correspondence). min_point/max_point (Props/C12mm over the model "
             "RecMM): with no window every function is the existing one (RecMM_none_is_Rec); iteration with a window is the "
             "longest prefix of the unrestricted iteration lying within [min, max] (C12_mm_iter_longest_prefix, closed forms per "
             "constructor for exact intervals); ops mmr* tie it to the code. FRACTIONS (Props/C12q over the rational model RecQ): "
             "the same statements for anchors in any precision form and every exact interval of positive length, however "
             "small (C12_rat_start_duration_bounded/unbounded, _duration_end_*, _start_second), bounds are exact comparisons of "
             "rational instants (C12_rat_no_tolerance), the integer model is the restriction (C12_rat_extends_int); op riterq "
             "compares on dyadic fractions, exactly.",
        design="DESIGN §8 C12",
        technique="Lean 4 proof (induction over iteration, refinement to an arithmetic series of instants) + correspondence"),
    "C13": dict(
        text="Theorems for exact intervals, every notation, bounded and unbounded: get_next/get_prev give the point one "
             "interval away iff it is within bounds (None at the ends); r[i] is the i-th iterated point / IndexError "
             "(C13_getitem*, incl. duration/end which iterates forward from the derived start when bounded and backwards "
             "when unbounded); get_is_valid is membership of the iterated series by instant for every notation "
             "(C13_is_valid_iff_iterated), with the closed characterisation (in bounds and a multiple of the interval from "
             "the anchor) and the amount of iteration that suffices (early exits sound); get_first_after: closed form, the "
             "start before the series, None after it, and the result is the LEAST member strictly later than the probe "
             "(C13_first_after_least). Month/year intervals (Props/C13c, every non-negative nominal interval, relative to the "
             "iteration as it is): get_next / get_prev from the k-th iterated point give the (k+1)-th in the direction of "
             "iteration and None exactly at the end (C13_next_nominal, C13_prev_nominal + per-constructor corollaries; a witness "
             "that against the direction the neighbour can be a non-member), r[i] is i-fold nominal addition cut at the far bound "
             "(C13_getitem_nominal(_rev)), get_is_valid iff an iterated point has the probe's instant with the fuel that suffices "
             "(C13_is_valid_nominal(_rev)), the iteration branch of get_first_after returns the least iterated member later than "
             "the probe (C13_first_after_nominal). Windows (Props/C13mm): C13_mm_is_valid_sound/_iff_iterated, C13_mm_next_prev, "
             "C13_mm_first_after_*. FRACTIONS (Props/C13q over RecQ): C13_rat_is_valid_iff_iterated, _bounded/_unbounded, "
             "_off_grid (a probe 0 < eps < L off a member is rejected), C13_rat_next_prev, C13_rat_getitem; ops rqueryq (against "
             "the model) and rqueryfrac (oracle; found F22: get_first_after dropped the sub-second part of the offset - "
             "repaired in /repo 6ac11ec). Props/C13r (model getFirstAfterQ of the repaired closed form over rationals, Python's float "
             "divmod modelled exactly): C13_rat_first_after_exact(_second_point) - for every exact interval L > 0 and any probe the "
             "result is the member at start + (floor((p - start)/L) + 1)*L in the probe's zone: a member, strictly later, none "
             "between; None iff beyond the last member; the start before the series; C13_rat_first_after_is_valid; "
             "C13_first_after_floor_witness (the pre-repair version returns a non-member); _floor_agrees_on_whole_seconds (the "
             "repair is conservative); C13_rat_first_after_extends_int. Op rfirstq. Op rderivedint: intervals derived by + - * // from "
             "a Duration with a past answer every query as the same interval built afresh.",
        design="DESIGN §8 C13",
        technique="Lean 4 proof + model/implementation correspondence"),
    "C14": dict(
        text="Theorems for exact intervals and exact shifts of either sign, in every notation (start/duration, "
             "duration/end, start/second-point), bounded and unbounded, and single-point recurrences (F4): r + x succeeds, "
             "keeps repetitions, notation and an interval of the same length, and its k-th iterated point is the k-th point "
             "of r moved by exactly x's length, valid, same representation and offset; (r + x) + (-x) == r; equality holds "
             "exactly when repetitions, start, end (by instant) and interval agree; equal recurrences have equal hash keys. "
             "Month/year intervals (Props/C14c): for ANY shift x and every notation incl. single points, r + x is the "
             "constructor applied to the anchor moved by x with the same repetitions and interval (C14_shift_nominal_*, "
             "C14_anchor_shift_total), and (r + x) - x == r for exact x (C14_shift_inverse_nominal_*); witnesses that the derived "
             "far bound is re-derived rather than moved. Windows (Props/C14mm): C14_mm_eq_iff (all six components), C14_mm_hash, "
             "C14_mm_differ_only_in_min/max, C14_mm_shift_iff. TEXT (Props/C14b over Model/RecText = __str__ and the three "
             "recurrence regexes with CPython's newline / greedy-split behaviour, then the point and duration parsers and the "
             "constructor): C14_text_roundtrip - for every recurrence of each notation (bounded, unbounded, single point) with "
             "valid whole-second points in the year range of C08 and a single-signed integer interval in the domain of C10, "
             "parse(str r) = r' with r' == r, the same notation and iter r' = iter r for every fuel; per-notation versions give "
             "r' = r field for field; C09_rec_text_total. Ops rtext (one long-lived parser, mode siblings) and rectext.",
        design="DESIGN §8 C14",
        technique="Lean 4 proof + model/implementation correspondence"),
    "C15": dict(
        text="Theorems over a state-machine model of the memoised calendar helpers (state = current mode spelling x cache): "
             "for every table passing KeyDiscipline, after any history of set_mode and calls every cache entry equals the "
             "cache-free value for the mode in its key, and any call returns what a fresh single-mode process computes; "
             "C15_discipline decides by kernel evaluation that the table regenerated from data.py/dumpers.py (which "
             "lru_cache'd function has a mode key, what CALENDAR attributes its closure reads, which call sites pass "
             "CALENDAR.mode) satisfies the discipline; C15_modes: the seven spellings install exactly the four calendars "
             "of the property text; Props/C15algo: the calendar FUNCTIONS re-translated from data.py on every run "
             "(get_is_leap_year, get_days_in_year, get_days_in_month) compute, for every integer year (year 0 and negative "
             "years included) and month 1..12, exactly the lengths of the mode - twelve 30-day months, 365 always, 366 "
             "always, the Gregorian 4/100/400 rule (C15_algo_leap_rule, _year_lengths, _month_lengths, _february, "
             "_thirty_day_months, _fixed_calendars, _year_zero). Histories over the API, --calendar and ISODATETIMECALENDAR "
             "(every accepted spelling of each mode, upper case included) are compared with fresh "
             "state in-process (quick) and fresh subprocesses (thorough).",
        design="DESIGN §8 C15",
        technique="Lean 4 proof (invariant by induction over histories) over a table regenerated from the source + history correspondence"),
    "C20": dict(
        text="Theorems over the Lean model of add_truncated (each while-loop mirrored with a fuel bound): every loop returns "
             "the first point along its walk whose field equals the target, each step moving the instant forward by exactly "
             "one unit; C20_terminates - for every valid point and every legal truncation (any combination, every mode) all "
             "loops end within their fuel and the result is valid, in p's offset, not earlier than p; C20_matches - the result "
             "carries every specified time field (lower ones zero) and, for the property's shapes, the specified day "
             "designator; earliest match: C20_seconds/_minutes/_hours (time-of-day shapes), C20_day_only_earliest (one day "
             "designator, time of day kept), C20_day_hour_earliest (day designator + hour[:minute[:second]]); idempotence for "
             "all of them (C20_idempotent, C20_day_idempotent); zone alignment (C20_zone). Proved counter-witnesses: minimality "
             "fails for a day designator with minute/second but no hour (known finding F9); two unrelated day designators "
             "disturb each other and a week alone keeps p's weekday (both outside the property's shapes, recorded). EVERY "
             "PRECISION FORM (Props/C20q over addTruncatedQ on rational-slot points, mirroring the repaired add_truncated): "
             "C20_ceilSec - the search starts from the least whole second at or after p; C20_time_field_is_ceilSec_run; "
             "C20_terminates_rat - for every valid p (fractional seconds, decimal minutes / hours, 24:00) the result exists, is "
             "valid, in p's offset, not earlier than p; C20_matches_rat; C20_earliest_rat_hours/_minutes/_seconds/_day - "
             "earliest among candidates of any precision form; C20_idempotent_rat; C20_rat_extends_int. Mirroring the code over "
             "rationals found F18 (the loops never ended for a point inside a second), repaired in /repo; "
             "C20_fraction_regression keeps the six formerly spinning inputs. END-OF-DAY TARGET (Props/C20r): the constructor "
             "admits hour 24 on a truncated point and `T24 + p` never ended (F21, repaired: the target is read as hour 0); "
             "LegalTrunc24, C20_terminates_hour24, C20_hour24_is_hour0, C20_repair_conservative, "
             "C20_hour24_unrepaired_witness.",
        design="DESIGN §8 C20",
        technique="Lean 4 proof (loop specification + periodicity by linear arithmetic) + model/implementation correspondence"),
    "C16": dict(
        text="Theorems over an abstract heap and an effect IR (new / mov / load / write / call / ret, flow-insensitive, any "
             "call depth) regenerated from the AST of data.py for every method of TimePoint, Duration, TimeZone and "
             "TimeRecurrence: if every method body passes the decidable local check okMethod against its callees' summaries "
             "then a public call writes no address that existed before it (C16_sem_sound, C16_public), hence after any "
             "history of public operations every earlier value is unchanged (C16_history); C16_gen_ok decides by kernel "
             "evaluation that the regenerated table passes - the obligation that breaks when a method writes self, stops "
             "copying, or mutates something it did not allocate. The Python->IR reading is validated dynamically on every "
             "run by a __setattr__ monitor and by histories with full snapshots re-inspected after every step.",
        design="DESIGN §8 C16",
        technique="Lean 4 proof (soundness of an effect discipline by induction on call depth and on histories) over an IR "
                  "regenerated from the source + monitored histories"),
    "C19": dict(
        text="Theorems over a Lean model of main.py's dispatch (over what argparse returns) and the -P... escaping: which "
             "library-level operation runs for each argument shape (date-time + offsets applied in order, empty offsets "
             "skipped, sign split; two date-times -> signed difference, --as-total on that same duration; R... -> first N "
             "points, N = --max for N>=1; --as-total on a duration; option over environment variable over default). The "
             "check executes the model's plan through the library API and compares it with the real command run "
             "in-process (stdout / exit), including malformed arguments in every slot; argparse, now, stdin and the "
             "datetime fallbacks are outside the model; 'never a traceback' is observed, not proved. The composed library "
             "operations themselves are the subject of C01-C18. EVALUATING MODEL (Props/C19b over cliEval : Env -> Args -> "
             "Except Fail (List Str), composed from the value models incl. date_parse, date_shift, date_diff, date_format, "
             "format_duration_str, iter_recurrence_str and the recurrence parser; the local zone and repr(n/k) are parameters): "
             "C19_eval_shift - the line printed is the point plus the signed offsets in order, in the print format if given "
             "else the format it was parsed with; C19_eval_diff (+ C19_eval_as_total) - str D with first + D at the instant of "
             "second; C19_eval_recurrence(_format) - the first N points in order through the format; C19_eval_errors_* - every "
             "component failure is the command's failure, an exit with a message; C19_eval_outcomes - lines, a benign failure, "
             "or one of exactly two traceback paths (known finding F20 and the unknown calendar name, both with witnesses); "
             "C19_eval_never_arith. Building this model found F19 (ISO input misread through the lenient strptime fallback), "
             "repaired in /repo.",
        design="DESIGN §8 C19",
        technique="Lean 4 proof (decision logic stated outright) + plan-execution correspondence against the real CLI"),
    "C09": dict(
        text="Theorems over the Lean model. Constructor (TimePoint.__init__/_check_bounds/TimeZone.__init__, integral "
             "arguments): C09_accept_sound / C09_accept_complete / C09_conflicts - an accepted point is a real date-time of the "
             "active mode and every valid point is accepted. Text (Props/C09b): C09_text_accept_sound(+_decimal, _bounds) - for "
             "ANY text, parser tables and configuration, whatever TimePointParser accepts is a real date-time of the mode (month, "
             "day within month/year/week-year, weekday, hour <= 24 with 24 only as 24:00:00 and zero fractions, minute/second "
             "< 60, legal one-signed offset); C09_text_total; C09_text_reject_examples / C09_text_mode_examples - kernel-decided "
             "tables of 47 + 16 impossible texts refused under every table and configuration, with their nearest valid twins "
             "accepted, per calendar mode. Truncated constructor (Props/C09c, model mkTruncTP of TimePoint(truncated=True, "
             "[truncated_property, short year], ...)): C09_trunc_accept_complete (accepted iff a readable decidable predicate), "
             "C09_trunc_accept_sound (every kept field legal for the mode, at most one date notation), C09_trunc_year_sound, "
             "C09_trunc_short_year_possible (an accepted date with a year of century / decade exists in SOME year ending in "
             "those digits) / C09_trunc_no_year_possible, C09_trunc_conflicts, C09_trunc_keeps, C09_trunc_reported_year, "
             "boundary witnesses per mode; op mktrunc compares the constructor with the model. C09_exceptions decides over the regenerated table that every raise site raises a "
             "class whose live MRO contains ValueError. PARTIAL: 'never another exception type, never a hang' of the Python "
             "on arbitrary text is observed on mutation/splice/garbage streams through the three parsers in 11 configurations "
             "(known findings F10 cost, F11 TypeError), not proved. Op recaccept: recurrence texts with an impossible point or a "
             "malformed interval in each slot, every repetition count and notation, are refused and their valid twins accepted.",
        design="DESIGN §8 C09",
        technique="Lean 4 proof (acceptance iff validity; MRO table regenerated from the source) + constructor/text/garbage correspondence"),
    "C07": dict(
        text="Theorems over the Lean model of TimePointParser (get_info / get_date_info / get_time_info / "
             "get_time_zone_info / process_time_zone_info / _create_timepoint_from_info / TimePoint.__init__) whose regular "
             "expressions are templates regenerated on every run from the regex objects the live parser compiled (expanded "
             "digits 0/2/3 x basic-only). Regex half: C07_template_roundtrip, C07_overlaps / C07_first_match_tables "
             "(kernel-decided over the regenerated tables) + C07_first_match, C07_split / C07_groups / C07_groups_date - a "
             "rendered form is matched by its own entry, the complete list of genuine overlaps (truncated forms only) is "
             "proved, get_info cuts date, time and zone exactly. Value half (Props/C07b, generic over the tables with "
             "kernel-decided side conditions): C07_decode / C07_decode_date / C07_parse - for every complete and reduced "
             "non-truncated date form x every non-truncated time form (decimals incl.) x every zone form or none, and every "
             "assignment of field values fitting the widths, parse of the spelled text is the constructor applied to exactly "
             "those values (year = +-(10000 X + 100 CC + YY), zone sign on hours and minutes, hh-only zone -> minutes 0, "
             "missing zone by configuration); C07_defaults(_fields) - omitted lower-order fields take the start of the period; "
             "C07_accept - accepted iff the values form a valid date-time; C07_decode_no_expanded_digits - with zero expanded "
             "digits the signed forms are refused (DESIGN §9). Reproduction (Props/C07c): C07_as_parsed(_any,_same,_decimal,"
             "_date) - parsing any such text with dump_as_parsed and printing it reproduces the text, a '-' on an all-zero "
             "year or offset becoming '+', decimal fractions of <= 6 digits up to trailing zeros (longer ones are rounded: "
             "known finding F12, proved as the model's behaviour). Truncated forms (Props/C07d, allow_truncated, every table): "
             "C07_truncated_decode(_date) / C07_truncated_fields / C07_truncated_properties - every truncated date template "
             "(25 per table) and truncated time template (18), in every documented combination (truncated date alone; any time "
             "and zone after a marked or absent date), decodes to a point whose truncated properties are exactly the spelled "
             "fields with exactly those values, nothing defaulted; C07_truncated_zone - zone unknown iff none is spelled and the "
             "parser defaults to unknown; C07_truncated_accept; C07_truncated_first - no truncated form is the later form of an "
             "overlap; C07_truncated_as_parsed(_any,_decimal,_date) - reproduced by dump_as_parsed. The model of "
             "get_truncated_properties is tied to the code by the op tprops (texts rendered from parser_spec's own tables). "
             "Decimals are digit strings (floats observed).",
        design="DESIGN §8 C07, §13",
        technique="Lean 4 proof (generic template round trip by induction; table facts by kernel evaluation over templates "
                  "regenerated from the live regexes) + three-way correspondence"),
    "C08": dict(
        text="Theorems over the Lean model of TimePoint.__str__/_get_dump_format/TimePointDumper.dump (the dumper's "
             "substitution rules regenerated from the live _rec_formats) and of TimePointParser.parse (templates regenerated "
             "from the live compiled regexes): C08_str - for every valid whole-second point (3 representations, 4 modes, "
             "every legal offset incl. -00:30, 24:00:00) whose year the agreed expanded digits can spell, str(p) is exactly "
             "the specified ISO 8601 text stdText; C08_parse - a parser with the same expanded digits (any allow_truncated, "
             "any default zone) decodes that text to exactly p, field for field; C08_roundtrip - parse(str(p)) carries "
             "exactly p's representation, offset and values and str is a fixpoint; C08_default_format; a witness that "
             "outside the agreed digits the round trip does not apply. Decimal forms (Props/C08b): C08_str_decimal / "
             "C08_parse_decimal / C08_roundtrip_decimal - the same for decimal-hour, -minute and -second points with "
             "fractions of <= 6 digits (24:00 with zero fraction incl.): the text is the specified one, it parses back to "
             "the same point with the fraction equal as a number (trailing zeros stripped; an all-zero second fraction "
             "collapses to the whole-second point), and str is a fixpoint. Fractions are digit strings in the model; the "
             "Python's floats are tied by the three-way correspondence (tround, tdump, tdumpf), which also decides custom "
             "dump formats in other representations (literal +-hh:mm zones are proved under C06). CUSTOM FORMATS (Props/C08c, C08d): "
             "for the class of complete formats - calendar / ordinal / week date, basic or extended, with or without +X; "
             "hh:mm:ss / hhmmss with optional ,tt / .tt; zone Z, a placeholder +hh:mm / +hhmm / +hh or any literal offset in "
             "those spellings (36 date-time shapes) - C08_custom_dump: dump p fmt is the specified text of p re-zoned to the "
             "format's zone and converted to its representation (bounds error iff that year does not fit: "
             "C08_custom_dump_bounds); C08_custom_parse / C08_custom_roundtrip / C08_custom_equal_instant: the text parses back "
             "to a point at the same instant carrying the format's zone; C08_custom_*_decimal (C08d) for decimal hour / minute / "
             "second points dumped in their own precision and zone. Outside: re-zoning a decimal point (float arithmetic; "
             "op tdumpf), mixed basic/extended notation, the +hh placeholder on an offset with minutes (proved to lose them).",
        design="DESIGN §8 C08, §13",
        technique="Lean 4 proof (symbolic execution of the dumper's rule chain over an opaque digit block + parser refinement, composed through one specified text) over tables regenerated from the source + three-way correspondence"),
    "C10": dict(
        text="Theorems over the Lean model of Duration.__str__ and DurationParser.parse, whose three regular expressions "
             "are regenerated from the live compiled patterns and run by a leftmost-greedy backtracking matcher: "
             "C10_roundtrip - for every single-signed integer duration (any mix of absent/zero/present units, week form, "
             "either sign, components of any size with h/m/s exactly representable in binary64), in every mode, "
             "parse(str(d)) succeeds, equals d field for field (the empty duration as P0Y), == d in both operand orders, "
             "and str is a fixpoint; C10_designators(+_weeks) - every designator string decodes to its fields; C10_alt - "
             "the alternative date-time-like spelling (basic and extended, calendar and ordinal) decodes as the designator "
             "spelling; proved counter-witness beyond binary64 (float() in the parser); mixed-sign durations print as "
             "unparseable text (outside the property, recorded). DECIMAL COMPONENTS (Props/C10b, model toTextQ / parseQ over "
             "rational h/m/s, parameterised by reprF = str(float) and readF = float(str) where the Python calls them): under the "
             "explicit laws FloatText (float(repr(x)) == x, repr's character set, float of a digit string) - hypotheses, not "
             "axioms; instantiated and proved for the eighths k/8 < 2^17 and kernel-checked on a sample incl. exponent layouts - "
             "C10_roundtrip_decimal: parse(str d) = d, == both ways, str a fixpoint; C10_decimal_comma_point; "
             "C10_designators_decimal; C10_str_decimal_shape; C09_duration_text_total / _designator_total / _nomatch_syntax: the "
             "duration parser is total (no fuel), a matched text gives a duration or a ValueError-class failure. The op "
             "durtextq ties the model (with an exact model of CPython float()/repr on its domain) to the code. ALTERNATIVE "
             "SPELLING IN FULL (Props/C10c, model parseAltDur / parseA of the TimePointParser fallback with is_duration): "
             "C10_alt_forms - every complete / reduced / ordinal date form x time form x zone form of the regenerated table "
             "gives exactly the spelled components and zero for the omitted ones; C10_alt_roundtrip; C10_alt_no_missing_component; "
             "C10_alt_refused_week/_truncated; C10_alt_sign (a leading sign before an alternative form is refused). Op daltq.",
        design="DESIGN §8 C10, §13",
        technique="Lean 4 proof (regex matcher semantics over regenerated regex ASTs; digit-string lemmas) + correspondence"),
    "C17": dict(
        text="Theorems over the Lean model of TimePointDumper.strftime / TimePointParser.strptime with the translation "
             "tables regenerated from parser_spec.py: C17_strftime - for every valid point (3 representations, any offset, "
             "4 modes) with civil year 0000-9999 and every format over the eleven supported directives and literal text, "
             "the output is the POSIX text for the civil date-time (Spec.Posix), %Y the calendar year also for week dates, "
             "%z signed also with zero hours; C17_unix - %s is instant minus epoch; C17_strftime_bounds; C17_unsupported - "
             "any other %-letter is a StrftimeSyntaxError in both directions; C17_strptime - for every determining format "
             "strptime(strftime(p)) is a valid point at the same instant (p's own offset and clock fields; local zone for "
             "%s alone), adjacent numeric conversions included; C17_defaults - unnamed parts take their defaults and the "
             "assumed zone. %s together with %z is outside 'determined' (proved counter-witness, recorded in DESIGN). LITERALS "
             "AND PERCENT SIGNS (Props/C17b over strftime2 = strftime including the final `expression % properties` step, "
             "modelled as a state machine for CPython's %-formatting): C17_strftime_literals(_general,_bounds) - for formats of "
             "the 11 directives, %% and arbitrary literal text (no %% directly followed by a word character) the output is "
             "the POSIX text, %% as one %; C17_percent_posix_counterexample (%%Y is not POSIX: the splitter pairs the second % "
             "with the letter), C17_strftime_trailing_percent / _stray_percent (bare ValueError, or TypeError after a "
             "directive); C17_strptime_literals / _literal_exact - the round trip with arbitrary literal text, regex-special "
             "characters included; C17_strptime_percent_never_round_trips; C17_unix_rat(_round_trip) for %s on decimal forms.",
        design="DESIGN §8 C17, §13",
        technique="Lean 4 proof (refinement of the dumper/parser pipeline to a POSIX specification) over regenerated tables + correspondence"),
    "C03": dict(
        text="Theorems over the Lean model: the six conversions are total on valid dates, produce valid dates and "
             "preserve the Spec day number (so all round trips are identities), for every year in Int and all four "
             "modes; year-length/range/week-start/weeks-in-year queries equal the Spec closed forms. Tables are "
             "regenerated from the source each run; the hand-written algorithms are tied to data.py by differential "
             "correspondence (exhaustive over a 400-year cycle in the thorough tier). REGENERATED ALGORITHMS (Props/C03algo): "
             "harness/gen_algo.py translates 24 functions - get_is_leap_year, get_days_in_year(_range), get_days_in_month, "
             "get_weeks_in_year, the week-start routines, iter_months_days, the six conversions, get_days_since_1_ad and "
             "timezone.get_local_time_zone - from the Python AST into lean/IsoDT/Gen/Algo.lean on every run (loops as "
             "structural / well-founded recursion; anything outside its subset is a TranslateError), and C03_algo_<name> "
             "proves each generated definition equal to the hand-written model for every mode and every integer argument "
             "(month-length lookups: months 1..12, with the exact behaviour outside stated). A semantic edit of one of these "
             "functions changes Gen/Algo.lean and breaks its equality theorem; renaming locals or reordering tests does not.",
        design="DESIGN §8 C03",
        technique="Lean 4 proof over regenerated tables + model/implementation correspondence"),
}

def main():
    props = [json.loads(l) for l in open(os.path.join(VERIF, "properties.jsonl"))]
    checks = []
    na = []
    for p in props:
        pid = p["id"]
        if pid in CLAIMED:
            c = CLAIMED[pid]
            checks.append({
                "property_id": pid,
                "quick_cmd": "./check %s --tier quick" % pid,
                "thorough_cmd": "./check %s --tier thorough" % pid,
                "evidence_file": "evidence/%s.json" % pid,
                "replay_cmd_template": "./check %s --replay {path}" % pid,
                "engine": "lean-proof+correspondence",
                "level_claimed": {"category": "proof", "text": c["text"], "design_ref": c["design"]},
                "level_note": c.get("note", BASE_NOTE),
                "technique": c["technique"],
            })
        else:
            na.append({"property_id": pid,
                       "reason": NA.get(pid, "not yet built in this round: model and theorems for this property are "
                                        "still to be written (DESIGN §12 build order); no claim is made")})
    manifest = {
        "version": 1,
        "setup_cmd": "cd lean && lake build",
        "hooks": {
            "guard": "METOMI_ISODATETIME_VERIF",
            "enable": "no source hooks: all instrumentation is harness-side; the harness sets METOMI_ISODATETIME_VERIF=1 in its own environment only",
            "baseline_off_cmd": "cd /repo && /venv/bin/python -m pytest -ra -q -p no:cacheprovider --timeout=900 --continue-on-collection-errors",
            "source_commits": [],
            "add_only": True,
        },
        "engines": [{
            "name": "lean-proof+correspondence", "path": "harness/check.py",
            "serves_properties": sorted(CLAIMED),
            "kind_free_text": "Lean 4 theorems over a model (lean/IsoDT) whose tables are regenerated from /repo each run "
                              "(harness/translate.py) and whose algorithms are tied to /repo by a differential correspondence "
                              "against a compiled Lean driver (lean/Main.lean); failing-input search with a Python Spec oracle",
        }],
        "checks": checks,
        "not_applicable": na,
        "notes": "See DESIGN.md. fix: commits in /repo and known findings are listed in known_findings.json.",
    }
    with open(os.path.join(VERIF, "MANIFEST.json"), "w") as h:
        json.dump(manifest, h, indent=1)
        h.write("\n")

NA = {}
if __name__ == "__main__":
    main()
