"""Helpers for the ops that tie the rational-slot model (lean/IsoDT/Model/TimePointQ*.lean) to the
implementation: points whose hour / minute / second slots may carry a fraction and may be absent
(decimal-second, decimal-minute, decimal-hour forms).

A q-point is (rep, y, a, b, H, M, S, tzh, tzm): H a Fraction, M and S a Fraction or None.
Python computes in binary64, the model in exact rationals; inputs carry at most three decimals, so
an exact instant is a multiple of 1 ms (3.6 s / 60 ms for the decimal-hour / -minute forms) and a
float error below 0.5 us cannot change an instant rounded to the microsecond.
"""
from fractions import Fraction

import oracle
import gens
import tpcommon as T


def q(fr):
    if fr is None:
        return "_"
    return str(fr.numerator) if fr.denominator == 1 else "%d/%d" % (fr.numerator, fr.denominator)


def parse_q(tok):
    if tok == "_":
        return None
    n, _, d = tok.partition("/")
    return Fraction(int(n), int(d) if d else 1)


FRACS = [0, 1, 5, 25, 100, 125, 250, 500, 750, 999]


def gen_qpoint(rng, m, allow24=0.1, form=None, whole=0.25):
    """A valid q-point; `whole`: probability of a zero fraction."""
    t = T.gen_tp(rng, m, allow24=rng.random() < allow24)
    rep, y, a, b, hh, mi, ss, tzh, tzm = t
    form = form or rng.choice("smh")
    fr = Fraction(0) if (hh == 24 or rng.random() < whole) else Fraction(
        rng.choice(FRACS + [rng.randint(0, 999)]), 1000)
    if form == "s":
        return (rep, y, a, b, Fraction(hh), Fraction(mi), ss + fr, tzh, tzm)
    if form == "m":
        return (rep, y, a, b, Fraction(hh), mi + fr, None, tzh, tzm)
    return (rep, y, a, b, hh + fr, None, None, tzh, tzm)


def form_of(p):
    return "s" if p[6] is not None else ("m" if p[5] is not None else "h")


def date_of(p):
    return (p[0], p[1], p[2]) if p[0] == "o" else (p[0], p[1], p[2], p[3])


def inst(m, p):
    return (86400 * oracle.date_day_num(m, date_of(p)) + 3600 * p[4] + 60 * (p[5] or 0) + (p[6] or 0)
            - 3600 * p[7] - 60 * p[8])


def same_instant_as(rng, m, p):
    """Another spelling of exactly p's instant: other zone, representation and precision form."""
    total = inst(m, p)
    tzh, tzm = gens.offset(rng) if rng.random() < 0.7 else (p[7], p[8])
    local = total + 3600 * tzh + 60 * tzm
    day, sod = divmod(local, 86400)
    rep = rng.choice("cow")
    if rep == "c":
        y, a, b = oracle.cal_of_day_num(m, int(day))
    elif rep == "o":
        (y, a), b = oracle.ord_of_day_num(m, int(day)), 0
    else:
        y, a, b = oracle.week_of_day_num(m, int(day))
    form = rng.choice("smh")
    if form == "h":
        return (rep, y, a, b, sod / 3600, None, None, tzh, tzm)
    hh, rest = divmod(sod, 3600)
    if form == "m":
        return (rep, y, a, b, Fraction(hh), rest / 60, None, tzh, tzm)
    mi, ss = divmod(rest, 60)
    return (rep, y, a, b, Fraction(hh), Fraction(mi), ss, tzh, tzm)


def tokens(p):
    return "%s %d %d %d %s %s %s %d %d" % (p[0], p[1], p[2], p[3], q(p[4]), q(p[5]), q(p[6]), p[7], p[8])


def describe(p):
    return "%s %s T %s:%s:%s %+d:%02d" % (p[0], "-".join(str(x) for x in date_of(p)[1:]), q(p[4]), q(p[5]), q(p[6]),
                                          p[7], abs(p[8]))


def dyadic(p):
    """Are all slots exactly representable in binary64 (denominators powers of two)?"""
    for v in (p[4], p[5], p[6]):
        if v is not None:
            d = v.denominator
            if d & (d - 1):
                return False
    return True


def mk_point(p):
    """The TimePoint the constructor builds for q-point p (its *_decimal arguments are floats)."""
    from metomi.isodatetime.data import TimePoint
    rep, y, a, b, H, M, S, tzh, tzm = p
    kw = dict(year=y, time_zone_hour=tzh, time_zone_minute=tzm)
    if not 0 <= y <= 9999:
        kw["num_expanded_year_digits"] = 3
    if rep == "c":
        kw.update(month_of_year=a, day_of_month=b)
    elif rep == "o":
        kw.update(day_of_year=a)
    else:
        kw.update(week_of_year=a, day_of_week=b)

    def split(v):
        whole = v.numerator // v.denominator
        return whole, v - whole
    if S is not None:
        w, f = split(S)
        kw.update(hour_of_day=int(H), minute_of_hour=int(M), second_of_minute=w)
        if f:
            kw["second_of_minute_decimal"] = float(f)
    elif M is not None:
        w, f = split(M)
        kw.update(hour_of_day=int(H), minute_of_hour=w, minute_of_hour_decimal=float(f))
    else:
        w, f = split(H)
        kw.update(hour_of_day=w, hour_of_day_decimal=float(f))
    return TimePoint(**kw)


def slots_of(r):
    """(date tuple, H, M, S, tzh, tzm) of a TimePoint, the slots as exact Fractions of its floats."""
    if r.get_is_calendar_date():
        date = ("c",) + tuple(r.get_calendar_date())
    elif r.get_is_ordinal_date():
        date = ("o",) + tuple(r.get_ordinal_date())
    else:
        date = ("w",) + tuple(r.get_week_date())
    h2, m2, s2 = r._hour_of_day, r._minute_of_hour, r._second_of_minute
    return (date, Fraction(h2), None if m2 is None else Fraction(m2), None if s2 is None else Fraction(s2),
            r.time_zone.hours, r.time_zone.minutes)


def canon(m, date, H, M, S, tzh, tzm):
    """`rep tzh tzm pattern instant-in-microseconds`."""
    if not oracle.date_valid(m, date):
        return "invalid-date %r" % (date,)
    total = (86400 * oracle.date_day_num(m, date) + 3600 * H + 60 * (M or 0) + (S or 0) - 3600 * tzh - 60 * tzm)
    pat = "hms" if S is not None else ("hm" if M is not None else "h")
    return "%s %d %d %s %d" % (date[0], tzh, tzm, pat, round(total * 10 ** 6))


def canon_model_point(m, out):
    """The driver's `rep y a b H M S tzh tzm` in the canonical form above."""
    f = out.split()
    if len(f) != 9:
        return out
    rep, y, a, b = f[0], int(f[1]), int(f[2]), int(f[3])
    date = (rep, y, a) if rep == "o" else (rep, y, a, b)
    return canon(m, date, parse_q(f[4]), parse_q(f[5]), parse_q(f[6]), int(f[7]), int(f[8]))


def in_range(H, M, S):
    return 0 <= H < 24 and (M is None or 0 <= M < 60) and (S is None or 0 <= S < 60)


def float_noise_pair(m, a, b):
    """Do a and b denote EXACTLY the same instant through values binary64 cannot hold?  That is the
    domain of the float findings F16 / F17: some slot has a non-dyadic denominator, or a decimal-hour
    form has to be re-zoned by a number of minutes that is not a multiple of 15 (minutes / 60 is then
    not representable).  Comparison, hashing and subtraction of such a pair see rounding noise only."""
    if inst(m, a) != inst(m, b):
        return False
    if not (dyadic(a) and dyadic(b)):
        return True
    return any(form_of(p) == "h" for p in (a, b)) and (a[8] % 15 != 0 or b[8] % 15 != 0)


def norm_point(p):
    """A q-point read back from a corpus / replay file (slots as "n/d" strings or null)."""
    p = list(p)
    for i in (4, 5, 6):
        if isinstance(p[i], str):
            p[i] = parse_q(p[i])
        elif isinstance(p[i], int):
            p[i] = Fraction(p[i])
    return tuple(p)
