"""Duration algebra with fractional hours / minutes / seconds: cases for the rational model `DurationQ`
(lean/IsoDT/Model/DurationQ.lean, Props/C11q) and their evaluation on the implementation.

Components h/mi/s are dyadic rationals of small denominator (exactly representable in binary64, as is every
intermediate result at these magnitudes), so Python's float answers are exact and are compared EXACTLY, through
`fractions.Fraction`, with the model's rationals.  A case is identified by one integer: every random choice of its
generation and of its evaluation (int or float spelling of a whole number, operand order of `*`) is drawn from
`random.Random(case_seed)`, so a case replays exactly.
"""
import random
from fractions import Fraction

RNG = [random.Random(0)]


def case(seed):
    """(op, args) of the case with this seed; leaves RNG positioned for run_case."""
    RNG[0] = random.Random(seed)
    return gen_case()


def line_of(seed, m):
    """The driver line of the case (no implementation call)."""
    op, args = case(seed)
    if op in ("dmkq", "dmkstdq"):
        return "%s %s " % (op, m) + " ".join(show_fr(v) for v in args)
    if op in ("daddq", "dsubq", "deqq", "dhasheqq", "dcmpq"):
        return "%s %s %s %s" % (op, m, line_dur(args[0]), line_dur(args[1]))
    if op in ("dmulq", "dfdivq"):
        return "%s %s %s %s" % (op, m, line_dur(args[0]), args[1])
    return "%s %s %s" % (op, m, line_dur(args[0]))


def evaluate(seed, m):
    """(driver line, implementation's canonical answer, op, args) for the case."""
    from metomi.isodatetime.data import Duration  # noqa: F401
    op, args = case(seed)
    line, out = run_case(op, m, args)
    return line, out, op, args


def fr(x):
    return Fraction(x)


def show_fr(q):
    q = Fraction(q)
    return str(q.numerator) if q.denominator == 1 else f"{q.numerator}/{q.denominator}"


def dyadic(table, big=100000):
    r = RNG[0].random()
    if r < 0.25:
        return Fraction(0)
    if r < 0.6:
        base = Fraction(RNG[0].choice(table))
        return base + RNG[0].choice([0, 0, Fraction(1, 8), Fraction(-1, 8), Fraction(1, 2), Fraction(-1, 4), 1, -1])
    return Fraction(RNG[0].randint(-big * 8, big * 8), RNG[0].choice([1, 2, 4, 8, 8]))


H_T = [0, 1, -1, 23, 24, 25, 48, 168, -24, -48]
M_T = [0, 1, 59, 60, 61, -60, 1440, -1440, 10080]
S_T = [0, 1, 59, 60, -61, 3600, 86400, -86400, 86399, 604800, -604800]
D_T = [0, 1, -1, 6, 7, -7, 8, 14, 30, 31, 360, 365, 366, -365]


def gen_spec():
    """('W', w) or ('U', y, mo, d, h, mi, s) with Fractions for h mi s."""
    r = RNG[0].random()
    if r < 0.15:
        return ("W", RNG[0].choice([0, 1, -1, 2, 52, -3, 7, RNG[0].randint(-100, 100)]))
    y = mo = 0
    if RNG[0].random() < 0.35:
        y = RNG[0].choice([0, 0, 1, -1, 2, 10])
        mo = RNG[0].choice([0, 1, -1, 12, 13, -5])
    d = RNG[0].choice(D_T) if RNG[0].random() < 0.7 else RNG[0].randint(-100000, 100000)
    return ("U", y, mo, d, dyadic(H_T), dyadic(M_T), dyadic(S_T))


def respell(d):
    """Another spelling of the same exact length, fractional parts moved between units."""
    if d[0] == "U" and (d[1] or d[2]):
        return gen_spec()
    total = Fraction(d[1] * 7 * 86400) if d[0] == "W" else d[3] * 86400 + d[4] * 3600 + d[5] * 60 + d[6]
    if total % (7 * 86400) == 0 and RNG[0].random() < 0.4:
        return ("W", int(total // (7 * 86400)))
    dd = RNG[0].choice([0, int(total // 86400), int(total // 86400) - 1])
    rest = total - dd * 86400
    hh = RNG[0].choice([Fraction(0), Fraction(rest // 3600), Fraction(int(rest * 8 // 3600), 8)])
    rest -= hh * 3600
    mm = RNG[0].choice([Fraction(0), Fraction(rest // 60), Fraction(int(rest * 8 // 60), 8)])
    rest -= mm * 60
    return ("U", 0, 0, dd, hh, mm, rest)


def num(q, force_float=False):
    """Python number for a Fraction: int when whole (sometimes float), else float (exact)."""
    q = Fraction(q)
    if q.denominator == 1 and not force_float and RNG[0].random() < 0.5:
        return int(q)
    f = float(q)
    assert Fraction(f) == q
    return f


def build(d):
    from metomi.isodatetime.data import Duration
    if d[0] == "W":
        w = d[1]
        if w == 0:
            return Duration(weeks=1) * 0
        return Duration(weeks=w)
    _, y, mo, dd, h, mi, s = d
    if RNG[0].random() < 0.1:
        dd = float(dd)     # an "integer like" float
    return Duration(years=y, months=mo, days=dd, hours=num(h), minutes=num(mi), seconds=num(s))


def line_dur(d):
    if d[0] == "W":
        return f"W {d[1]}"
    return "U " + " ".join(show_fr(x) for x in d[1:])


def canon(x):
    """Canonical output for a Python Duration."""
    if x.get_is_in_weeks():
        assert all(getattr(x, a) is None for a in ("_years", "_months", "_days", "_hours", "_minutes", "_seconds"))
        return f"W {show_fr(fr(x._weeks))}"
    assert x._weeks is None
    return "U " + " ".join(show_fr(fr(getattr(x, a))) for a in
                           ("_years", "_months", "_days", "_hours", "_minutes", "_seconds"))


def b01(b):
    assert b is True or b is False, b
    return "1" if b else "0"


def run_case(op, m, args):
    """Returns (driver line, python answer)."""
    from metomi.isodatetime.data import Duration
    from metomi.isodatetime.exceptions import BadInputError
    if op in ("dmkq", "dmkstdq"):
        vals = args
        line = f"{op} {m} " + " ".join(show_fr(v) for v in vals)
        try:
            kw = dict(zip(("years", "months", "weeks", "days", "hours", "minutes", "seconds"), [num(v) for v in vals]))
            out = canon(Duration(standardize=(op == "dmkstdq"), **kw))
        except BadInputError:
            out = "err"
        return line, out
    a = args[0]
    A = build(a)
    if op in ("daddq", "dsubq", "deqq", "dhasheqq", "dcmpq"):
        b = args[1]
        B = build(b)
        line = f"{op} {m} {line_dur(a)} {line_dur(b)}"
        if op == "daddq":
            out = canon(A + B)
        elif op == "dsubq":
            out = canon(A - B)
        elif op == "deqq":
            out = b01(A == B)
            assert (A != B) == (not (A == B))
        elif op == "dhasheqq":
            out = b01(hash(A) == hash(B))
        else:
            out = " ".join(b01(v) for v in (A < B, A <= B, A > B, A >= B))
        return line, out
    if op in ("dmulq", "dfdivq"):
        n = args[1]
        line = f"{op} {m} {line_dur(a)} {n}"
        if op == "dmulq":
            out = canon(A * n if RNG[0].random() < 0.5 else n * A)
        else:
            try:
                out = canon(A // n)
            except ZeroDivisionError:
                out = "err"
        return line, out
    line = f"{op} {m} {line_dur(a)}"
    if op == "dabsq":
        out = canon(abs(A))
    elif op == "dtodaysq":
        out = canon(A.to_days())
    elif op == "dtoweeksq":
        out = canon(A.to_weeks())
    elif op == "dstdq":
        # the standardize block of __init__ on the same slots
        if A.get_is_in_weeks():
            out = canon(Duration(weeks=A._weeks, standardize=True)) if A._weeks else canon(A)
        else:
            out = canon(Duration(years=A._years, months=A._months, days=A._days, hours=A._hours,
                                 minutes=A._minutes, seconds=A._seconds, standardize=True))
    elif op == "ddasq":
        r = A.get_days_and_seconds()
        out = f"{show_fr(fr(r[0]))} {show_fr(fr(r[1]))}"
    elif op == "dsecsq":
        out = show_fr(fr(A.get_seconds()))
    elif op == "dnnsq":
        out = show_fr(fr(A._get_non_nominal_seconds()))
    elif op == "dhashq":
        if A.get_is_in_weeks():
            t = (0, 0, A._get_non_nominal_seconds())
        else:
            t = (A._years, A._months, A._get_non_nominal_seconds())
        assert hash(t) == hash(A)
        assert hash(t) == hash(tuple(Fraction(v) for v in t))   # hashing is by numeric value
        out = " ".join(show_fr(fr(v)) for v in t)
    elif op == "dboolq":
        out = b01(bool(A))
    else:
        raise ValueError(op)
    return line, out


def gen_case():
    op = RNG[0].choice(["dmkq", "dmkstdq", "daddq", "daddq", "dsubq", "dmulq", "dfdivq", "dabsq", "dtodaysq",
                     "dtoweeksq", "dstdq", "ddasq", "ddasq", "dsecsq", "dnnsq", "dhashq", "dboolq",
                     "deqq", "deqq", "dhasheqq", "dhasheqq", "dcmpq", "dcmpq"])
    if op in ("dmkq", "dmkstdq"):
        def whole(table):
            r = RNG[0].random()
            if r < 0.5:
                return Fraction(0)
            if r < 0.93:
                return Fraction(RNG[0].choice(table))
            return Fraction(RNG[0].randint(-40, 40), RNG[0].choice([2, 4, 8]))   # mostly not whole -> BadInputError
        y, mo, w, d = whole([0, 1, -1, 2]), whole([0, 1, -1, 12, 13]), whole([0, 1, -1, 2, 52]), whole(D_T)
        if RNG[0].random() < 0.3:
            y = mo = d = Fraction(0)
            h = mi = s = Fraction(0)
        else:
            h, mi, s = dyadic(H_T), dyadic(M_T), dyadic(S_T)
        return op, (y, mo, w, d, h, mi, s)
    a = gen_spec()
    if op in ("daddq", "dsubq", "deqq", "dhasheqq", "dcmpq"):
        r = RNG[0].random()
        if r < 0.45 and op not in ("daddq", "dsubq"):
            b = respell(a)
            if RNG[0].random() < 0.3 and b[0] == "U":      # near miss: off by 1/8 s
                b = b[:6] + (b[6] + RNG[0].choice([Fraction(1, 8), Fraction(-1, 8)]),)
        elif r < 0.55:
            b = a
        else:
            b = gen_spec()
        return op, (a, b)
    if op == "dmulq":
        return op, (a, RNG[0].choice([0, 1, -1, 2, 3, -7, RNG[0].randint(-1000, 1000)]))
    if op == "dfdivq":
        return op, (a, RNG[0].choice([0, 1, -1, 2, -2, 3, 7, -7, 8, 60, RNG[0].randint(-50, 50)]))
    return op, (a,)


